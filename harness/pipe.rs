//! In-memory byte pipe used as a physical layer (hook H3).

use std::collections::VecDeque;
use std::sync::{Arc, Mutex};
use std::task::{Poll, Waker};

use crate::util::phys::PhysAddr;

static ORDER: std::sync::atomic::AtomicU64 = std::sync::atomic::AtomicU64::new(1);

/// process-wide observation counter: lets the engine order pipe writes relative to callbacks
pub fn next_order() -> u64 {
    ORDER.fetch_add(1, std::sync::atomic::Ordering::SeqCst)
}

#[derive(Default)]
pub struct PipeState {
    /// chunks queued for the endpoint; one read returns at most one chunk
    pub rx: VecDeque<Vec<u8>>,
    /// datagram semantics: a chunk that does not fit the reader's buffer is truncated
    pub datagram: bool,
    /// once the queue is drained the next read returns 0 bytes (EOF)
    pub eof: bool,
    /// once the queue is drained the next read returns an I/O error
    pub read_error: bool,
    /// every write fails with an I/O error
    pub write_error: bool,
    /// everything the endpoint wrote, one entry per write call, with its observation order
    pub tx: Vec<(u64, Vec<u8>)>,
    /// number of read calls that returned data
    pub reads: u64,
    /// number of times a read found nothing and parked
    pub parks: u64,
    /// the endpoint dropped its end (the session is over)
    pub dropped: bool,
    waker: Option<Waker>,
}

#[derive(Clone)]
pub struct PipeHandle(Arc<Mutex<PipeState>>);

pub struct Pipe(Arc<Mutex<PipeState>>);

pub fn pipe() -> (Pipe, PipeHandle) {
    let state = Arc::new(Mutex::new(PipeState::default()));
    (Pipe(state.clone()), PipeHandle(state))
}

impl PipeHandle {
    /// queue one chunk for the endpoint to read
    pub fn push(&self, data: &[u8]) {
        if data.is_empty() {
            return;
        }
        let waker = {
            let mut s = self.0.lock().unwrap();
            s.rx.push_back(data.to_vec());
            s.waker.take()
        };
        if let Some(w) = waker {
            w.wake();
        }
    }

    pub fn set_datagram(&self, on: bool) {
        self.0.lock().unwrap().datagram = on;
    }

    pub fn set_eof(&self) {
        let waker = {
            let mut s = self.0.lock().unwrap();
            s.eof = true;
            s.waker.take()
        };
        if let Some(w) = waker {
            w.wake();
        }
    }

    pub fn set_read_error(&self) {
        let waker = {
            let mut s = self.0.lock().unwrap();
            s.read_error = true;
            s.waker.take()
        };
        if let Some(w) = waker {
            w.wake();
        }
    }

    pub fn set_write_error(&self, on: bool) {
        self.0.lock().unwrap().write_error = on;
    }

    /// take everything written so far
    pub fn take_tx(&self) -> Vec<(u64, Vec<u8>)> {
        std::mem::take(&mut self.0.lock().unwrap().tx)
    }

    pub fn pending_rx(&self) -> usize {
        self.0.lock().unwrap().rx.iter().map(|x| x.len()).sum()
    }

    /// has the endpoint dropped its end of the pipe?
    pub fn is_closed(&self) -> bool {
        self.0.lock().unwrap().dropped
    }

    pub fn reads(&self) -> u64 {
        self.0.lock().unwrap().reads
    }

    pub fn parks(&self) -> u64 {
        self.0.lock().unwrap().parks
    }
}

impl Drop for Pipe {
    fn drop(&mut self) {
        if let Ok(mut s) = self.0.lock() {
            s.dropped = true;
        }
    }
}

impl Pipe {
    pub(crate) async fn read(
        &mut self,
        buffer: &mut [u8],
    ) -> Result<(usize, PhysAddr), std::io::Error> {
        let state = self.0.clone();
        std::future::poll_fn(move |cx| {
            let mut s = state.lock().unwrap();
            if let Some(mut chunk) = s.rx.pop_front() {
                let n = std::cmp::min(buffer.len(), chunk.len());
                buffer[..n].copy_from_slice(&chunk[..n]);
                if n < chunk.len() && !s.datagram {
                    let rest = chunk.split_off(n);
                    s.rx.push_front(rest);
                }
                s.reads += 1;
                return Poll::Ready(Ok((n, PhysAddr::None)));
            }
            if s.read_error {
                return Poll::Ready(Err(std::io::Error::new(
                    std::io::ErrorKind::ConnectionReset,
                    "verif: injected read error",
                )));
            }
            if s.eof {
                return Poll::Ready(Ok((0, PhysAddr::None)));
            }
            s.parks += 1;
            s.waker = Some(cx.waker().clone());
            Poll::Pending
        })
        .await
    }

    pub(crate) async fn write_all(
        &mut self,
        data: &[u8],
        _addr: PhysAddr,
    ) -> Result<(), std::io::Error> {
        let mut s = self.0.lock().unwrap();
        if s.write_error {
            return Err(std::io::Error::new(
                std::io::ErrorKind::BrokenPipe,
                "verif: injected write error",
            ));
        }
        s.tx.push((next_order(), data.to_vec()));
        Ok(())
    }
}
