//! Seam adapters compiled INSIDE the dnp3 crate when built with `--cfg dnp3_verif`.
//!
//! These are deliberately dumb: they construct the real tasks / parsers / codecs and expose
//! them to the external engine crate as plain data. Nothing in here decides a verdict.
#![allow(
    missing_docs,
    unreachable_pub,
    dead_code,
    unused,
    missing_copy_implementations,
    missing_debug_implementations,
    clippy::all
)]

pub mod pipe;
pub mod seams;
pub mod sim;
