//! Construction of the real master / outstation tasks over byte pipes.
//!
//! The returned futures are NOT spawned: the engine polls them by hand.

use std::future::Future;
use std::pin::Pin;
use std::sync::{Arc, Mutex};
use std::task::{Context, Poll};
use std::time::Duration;

use crate::app::parse::options::ParseOptions;
use crate::app::{Listener, MaybeAsync};
use crate::link::reader::LinkModes;
use crate::link::{LinkErrorMode, LinkReadMode};
use crate::master::task::MasterTask;
use crate::master::{MasterChannel, MasterChannelConfig, MasterChannelType};
use crate::outstation::task::OutstationTask;
use crate::outstation::{ConnectionState, OutstationConfig, OutstationHandle};
use crate::outstation::{ControlHandler, OutstationApplication, OutstationInformation};
use crate::tcp::server_task::{NewSession, ServerTask};
use crate::util::channel::Sender;
use crate::util::phys::{PhysAddr, PhysLayer};
use crate::util::session::{Enabled, RunError, Session, StopReason};

use super::pipe::{pipe, Pipe, PipeHandle};

pub type BoxFut = Pin<Box<dyn Future<Output = ()>>>;

/// log of session-level events (session ended with ..., connection state changes)
pub type SessionLog = Arc<Mutex<Vec<String>>>;

fn noop_waker() -> std::task::Waker {
    struct Noop;
    impl std::task::Wake for Noop {
        fn wake(self: Arc<Self>) {}
    }
    std::task::Waker::from(Arc::new(Noop))
}

/// poll a future exactly once, it must complete
fn now_or_never<F: Future>(fut: F) -> Option<F::Output> {
    let mut fut = Box::pin(fut);
    let waker = noop_waker();
    let mut cx = Context::from_waker(&waker);
    match fut.as_mut().poll(&mut cx) {
        Poll::Ready(x) => Some(x),
        Poll::Pending => None,
    }
}

#[derive(Copy, Clone, Debug)]
pub struct LinkSettings {
    pub error_mode: LinkErrorMode,
    pub read_mode: LinkReadMode,
    pub parse_zero_length_strings: bool,
}

impl LinkSettings {
    fn modes(&self) -> LinkModes {
        LinkModes {
            error_mode: self.error_mode,
            read_mode: self.read_mode,
        }
    }
    fn parse_options(&self) -> ParseOptions {
        ParseOptions {
            parse_zero_length_strings: self.parse_zero_length_strings,
        }
    }
}

struct LogListener {
    log: SessionLog,
}

impl Listener<ConnectionState> for LogListener {
    fn update(&mut self, value: ConnectionState) -> MaybeAsync<()> {
        self.log.lock().unwrap().push(format!("state:{value:?}"));
        MaybeAsync::ready(())
    }
}

/// handle used by the engine to hand a new connection to the outstation's real `ServerTask`
pub struct OutstationConnector {
    sender: Sender<NewSession>,
    next_id: u64,
}

impl OutstationConnector {
    /// create a new pipe and pass it to the server task as a new session
    pub fn connect(&mut self) -> Option<PipeHandle> {
        let (p, h) = pipe();
        let id = self.next_id;
        self.next_id += 1;
        let session = NewSession::new(id, PhysLayer::Verif(p));
        match now_or_never(self.sender.send(session)) {
            Some(Ok(())) => Some(h),
            _ => None,
        }
    }
}

/// Real `OutstationTask` wrapped in the real `ServerTask` (tcp/outstation/server_task.rs)
pub fn outstation(
    link: LinkSettings,
    config: OutstationConfig,
    application: Box<dyn OutstationApplication>,
    information: Box<dyn OutstationInformation>,
    control_handler: Box<dyn ControlHandler>,
    log: SessionLog,
) -> (BoxFut, OutstationHandle, OutstationConnector) {
    let (task, handle) = OutstationTask::create(
        Enabled::Yes,
        link.modes(),
        link.parse_options(),
        config,
        PhysAddr::None,
        application,
        information,
        control_handler,
    );
    let (mut server, sender) = ServerTask::create(
        Session::outstation(task),
        Box::new(LogListener { log: log.clone() }),
    );
    let fut = Box::pin(async move {
        let res = server.run().await;
        log.lock()
            .unwrap()
            .push(format!("server-task-exit:{res:?}"));
    });
    (fut, handle, OutstationConnector { sender, next_id: 0 })
}

/// handle used by the engine to offer connections to the master's connect loop
pub struct MasterConnector {
    sender: tokio::sync::mpsc::UnboundedSender<Pipe>,
}

impl MasterConnector {
    pub fn connect(&mut self) -> Option<PipeHandle> {
        let (p, h) = pipe();
        self.sender.send(p).ok().map(|_| h)
    }
}

/// Real `MasterTask` inside the real `Session` wrapper, driven by a copy of the
/// connect / run / wait-after-disconnect loop of tcp/client.rs where "connect" means
/// "wait for the engine to offer a pipe".
pub fn master(
    link: LinkSettings,
    config: MasterChannelConfig,
    reconnect_delay: Duration,
    log: SessionLog,
) -> (BoxFut, MasterChannel, MasterConnector) {
    let (tx, rx) = crate::util::channel::request_channel();
    let task = MasterTask::new(Enabled::Yes, link.modes(), link.parse_options(), config, rx);
    let channel = MasterChannel::new(tx, MasterChannelType::Stream);
    let (ptx, mut prx) = tokio::sync::mpsc::unbounded_channel::<Pipe>();
    let mut session = Session::master(task);

    let fut = Box::pin(async move {
        'outer: loop {
            log.lock().unwrap().push("client:Disabled".to_string());
            if session.wait_for_enabled().await.is_err() {
                break 'outer;
            }
            // run_connection
            loop {
                log.lock().unwrap().push("client:Connecting".to_string());
                // "connect": wait for a pipe while processing messages
                let pipe = loop {
                    tokio::select! {
                        biased;
                        p = prx.recv() => {
                            match p {
                                Some(p) => break p,
                                None => break 'outer,
                            }
                        }
                        r = session.process_next_message() => {
                            match r {
                                Err(StopReason::Shutdown) => break 'outer,
                                _ => {
                                    if session.enabled() == Enabled::No {
                                        continue 'outer;
                                    }
                                }
                            }
                        }
                    }
                };
                log.lock().unwrap().push("client:Connected".to_string());
                let mut io = PhysLayer::Verif(pipe);
                let err = session.run(&mut io).await;
                // the socket is gone as soon as the session is over (as in tcp/client.rs)
                drop(io);
                log.lock().unwrap().push(format!("session-end:{err:?}"));
                match err {
                    RunError::Stop(StopReason::Shutdown) => break 'outer,
                    RunError::Stop(StopReason::Disable) => continue 'outer,
                    RunError::Link(_) => {
                        if !reconnect_delay.is_zero() {
                            match session.wait_for_retry(reconnect_delay).await {
                                Ok(()) => {}
                                Err(StopReason::Shutdown) => break 'outer,
                                Err(StopReason::Disable) => continue 'outer,
                            }
                        }
                    }
                }
            }
        }
        log.lock().unwrap().push("client:Shutdown".to_string());
    });

    (fut, channel, MasterConnector { sender: ptx })
}
