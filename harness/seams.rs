//! Direct seams to the link and transport components and to the application codecs.
//! Plain data in, plain data out: nothing here decides a verdict.

use std::future::Future;
use std::pin::Pin;
use std::sync::Arc;
use std::task::{Context, Poll};

use crate::app::EndpointType;
use crate::decode::DecodeLevel;
use crate::link::format::{
    format_data_frame, format_header_fixed_size, format_header_only, Payload,
};
use crate::link::header::{AnyAddress, ControlField, Header};
use crate::link::parser::FramePayload;
use crate::link::reader::{LinkModes, Reader as LinkReader};
use crate::link::{EndpointAddress, LinkErrorMode, LinkReadMode};
use crate::outstation::Feature;
use crate::transport::real::reader::Reader as TransportReader;
use crate::transport::real::writer::Writer as TransportWriter;
use crate::transport::{FragmentAddr, TransportData};
use crate::util::phys::{PhysAddr, PhysLayer};

use super::pipe::{pipe, PipeHandle};

fn noop_waker() -> std::task::Waker {
    struct Noop;
    impl std::task::Wake for Noop {
        fn wake(self: Arc<Self>) {}
    }
    std::task::Waker::from(Arc::new(Noop))
}

fn poll_once<F: Future>(fut: Pin<&mut F>) -> Poll<F::Output> {
    let waker = noop_waker();
    let mut cx = Context::from_waker(&waker);
    fut.poll(&mut cx)
}

fn modes(close: bool, datagram: bool) -> LinkModes {
    LinkModes {
        error_mode: if close {
            LinkErrorMode::Close
        } else {
            LinkErrorMode::Discard
        },
        read_mode: if datagram {
            LinkReadMode::Datagram
        } else {
            LinkReadMode::Stream
        },
    }
}

pub fn decode_level(all: bool) -> DecodeLevel {
    if all {
        DecodeLevel {
            application: crate::decode::AppDecodeLevel::ObjectValues,
            transport: crate::decode::TransportDecodeLevel::Payload,
            link: crate::decode::LinkDecodeLevel::Payload,
            physical: crate::decode::PhysDecodeLevel::Data,
        }
    } else {
        DecodeLevel::nothing()
    }
}

// ---------------------------------------------------------------------------------------
// link formatters
// ---------------------------------------------------------------------------------------

/// `format_data_frame` for an unconfirmed-user-data header (the only data frames the library
/// transmits): transport byte + application bytes
pub fn link_format_data(
    is_master: bool,
    dst: u16,
    src: u16,
    transport: u8,
    app: &[u8],
) -> Option<Vec<u8>> {
    let mut buffer = [0u8; 400];
    let mut cursor = scursor::WriteCursor::new(&mut buffer);
    let header =
        Header::unconfirmed_user_data(is_master, AnyAddress::from(dst), AnyAddress::from(src));
    match format_data_frame(header, Payload::new(transport, app), &mut cursor) {
        Ok(data) => Some(data.frame.to_vec()),
        Err(_) => None,
    }
}

/// `format_data_frame` with an arbitrary control byte
pub fn link_format_data_ctrl(
    ctrl: u8,
    dst: u16,
    src: u16,
    transport: u8,
    app: &[u8],
) -> Option<Vec<u8>> {
    let mut buffer = [0u8; 400];
    let mut cursor = scursor::WriteCursor::new(&mut buffer);
    let header = Header::new(
        ControlField::from(ctrl),
        AnyAddress::from(dst),
        AnyAddress::from(src),
    );
    match format_data_frame(header, Payload::new(transport, app), &mut cursor) {
        Ok(data) => Some(data.frame.to_vec()),
        Err(_) => None,
    }
}

/// `format_header_fixed_size` (link replies)
pub fn link_format_header_fixed(ctrl: u8, dst: u16, src: u16) -> Vec<u8> {
    let mut buffer = [0u8; 10];
    let header = Header::new(
        ControlField::from(ctrl),
        AnyAddress::from(dst),
        AnyAddress::from(src),
    );
    format_header_fixed_size(header, &mut buffer);
    buffer.to_vec()
}

/// `format_header_only` (link status requests)
pub fn link_format_header_only(ctrl: u8, dst: u16, src: u16) -> Option<Vec<u8>> {
    let mut buffer = [0u8; 32];
    let mut cursor = scursor::WriteCursor::new(&mut buffer);
    let header = Header::new(
        ControlField::from(ctrl),
        AnyAddress::from(dst),
        AnyAddress::from(src),
    );
    match format_header_only(header, &mut cursor) {
        Ok(data) => Some(data.frame.to_vec()),
        Err(_) => None,
    }
}

// ---------------------------------------------------------------------------------------
// link reader (parser + buffering) over a pipe
// ---------------------------------------------------------------------------------------

#[derive(Clone, Debug, PartialEq, Eq, Hash)]
pub struct FrameOut {
    pub ctrl: u8,
    pub dst: u16,
    pub src: u16,
    pub payload: Vec<u8>,
}

pub struct LinkReaderSeam {
    reader: LinkReader,
    io: PhysLayer,
    pub handle: PipeHandle,
    level: DecodeLevel,
    /// one payload buffer reused for every frame, as the link layer does
    payload: FramePayload,
}

impl LinkReaderSeam {
    pub fn new(close: bool, datagram: bool, max_fragment_size: usize, decode_all: bool) -> Self {
        let (p, handle) = pipe();
        handle.set_datagram(datagram);
        Self {
            reader: LinkReader::new(modes(close, datagram), max_fragment_size),
            io: PhysLayer::Verif(p),
            handle,
            level: decode_level(decode_all),
            payload: FramePayload::new(),
        }
    }

    /// poll `read_frame` until it is pending: returns every delivered frame and the first error
    pub fn drain(&mut self) -> (Vec<FrameOut>, Option<String>) {
        let mut out = Vec::new();
        loop {
            let res = {
                let fut = self
                    .reader
                    .read_frame(&mut self.io, &mut self.payload, self.level);
                let mut fut = std::pin::pin!(fut);
                poll_once(fut.as_mut())
            };
            match res {
                Poll::Pending => return (out, None),
                Poll::Ready(Ok((header, _addr))) => out.push(FrameOut {
                    ctrl: header.control.to_u8(),
                    dst: header.destination.value(),
                    src: header.source.value(),
                    payload: self.payload.get().to_vec(),
                }),
                Poll::Ready(Err(err)) => return (out, Some(format!("{err:?}"))),
            }
        }
    }

    pub fn reset(&mut self) {
        self.reader.reset();
    }
}

// ---------------------------------------------------------------------------------------
// transport writer / reader over a pipe
// ---------------------------------------------------------------------------------------

pub struct TransportWriterSeam {
    writer: TransportWriter,
    io: PhysLayer,
    pub handle: PipeHandle,
    level: DecodeLevel,
}

impl TransportWriterSeam {
    pub fn new(is_master: bool, local: u16, decode_all: bool) -> Self {
        let (p, handle) = pipe();
        let t = if is_master {
            EndpointType::Master
        } else {
            EndpointType::Outstation
        };
        Self {
            writer: TransportWriter::new(t, EndpointAddress::try_new(local).unwrap()),
            io: PhysLayer::Verif(p),
            handle,
            level: decode_level(decode_all),
        }
    }

    /// write one fragment; returns the bytes written (one entry per physical write)
    pub fn write(&mut self, dst: u16, fragment: &[u8]) -> Result<Vec<Vec<u8>>, String> {
        let dest = FragmentAddr {
            link: EndpointAddress::try_new(dst).unwrap(),
            phys: PhysAddr::None,
        };
        let res = {
            let fut = self.writer.write(&mut self.io, self.level, dest, fragment);
            let mut fut = std::pin::pin!(fut);
            poll_once(fut.as_mut())
        };
        match res {
            Poll::Pending => Err("pending".to_string()),
            Poll::Ready(Err(e)) => Err(format!("{e:?}")),
            Poll::Ready(Ok(())) => Ok(self.handle.take_tx().into_iter().map(|x| x.1).collect()),
        }
    }

    pub fn reset(&mut self) {
        self.writer.reset();
    }
}

#[derive(Clone, Debug, PartialEq, Eq, Hash)]
pub enum TransportOut {
    /// a delivered fragment: id, source link address, broadcast mode (0 optional, 1 mandatory, 2 not required)
    Fragment {
        id: u32,
        src: u16,
        broadcast: Option<u8>,
        data: Vec<u8>,
    },
    LinkMessage {
        src: u16,
        request: bool,
    },
}

pub struct TransportReaderSeam {
    reader: TransportReader,
    io: PhysLayer,
    pub handle: PipeHandle,
    level: DecodeLevel,
    /// `drain` calls `read` once more between a completed `read` and `pop`
    pub read_again_before_pop: bool,
}

impl TransportReaderSeam {
    pub fn new(
        is_master: bool,
        local: u16,
        self_address: bool,
        close: bool,
        datagram: bool,
        rx_size: usize,
        decode_all: bool,
    ) -> Self {
        let (p, handle) = pipe();
        handle.set_datagram(datagram);
        let addr = EndpointAddress::try_new(local).unwrap();
        let reader = if is_master {
            TransportReader::master(modes(close, datagram), addr, rx_size)
        } else {
            TransportReader::outstation(
                modes(close, datagram),
                addr,
                if self_address {
                    Feature::Enabled
                } else {
                    Feature::Disabled
                },
                rx_size,
            )
        };
        Self {
            reader,
            io: PhysLayer::Verif(p),
            handle,
            level: decode_level(decode_all),
            read_again_before_pop: false,
        }
    }

    /// poll `read` + `pop` until pending; returns deliveries, link replies written, first error
    pub fn drain(&mut self) -> (Vec<TransportOut>, Option<String>) {
        let mut out = Vec::new();
        loop {
            let res = {
                let fut = self.reader.read(&mut self.io, self.level);
                let mut fut = std::pin::pin!(fut);
                poll_once(fut.as_mut())
            };
            match res {
                Poll::Pending => return (out, None),
                Poll::Ready(Err(e)) => return (out, Some(format!("{e:?}"))),
                Poll::Ready(Ok(())) => {
                    if self.read_again_before_pop {
                        // the session layer may look at a fragment, keep it, and call `read` again
                        // (RequestGuard::retain): that read must not disturb the fragment
                        let fut = self.reader.read(&mut self.io, self.level);
                        let mut fut = std::pin::pin!(fut);
                        if let Poll::Ready(Err(e)) = poll_once(fut.as_mut()) {
                            return (out, Some(format!("{e:?}")));
                        }
                    }
                    self.pop_into(&mut out)
                }
            }
        }
    }

    fn pop_into(&mut self, out: &mut Vec<TransportOut>) {
        match self.reader.pop() {
            None => {}
            Some(TransportData::Fragment(f)) => out.push(TransportOut::Fragment {
                id: f.info.id,
                src: f.info.addr.link.raw_value(),
                broadcast: f.info.broadcast.map(|m| match m {
                    crate::link::header::BroadcastConfirmMode::Optional => 0,
                    crate::link::header::BroadcastConfirmMode::Mandatory => 1,
                    crate::link::header::BroadcastConfirmMode::NotRequired => 2,
                }),
                data: f.data.to_vec(),
            }),
            Some(TransportData::LinkLayerMessage(m)) => out.push(TransportOut::LinkMessage {
                src: m.source.raw_value(),
                request: matches!(
                    m.message,
                    crate::transport::LinkLayerMessageType::LinkStatusRequest
                ),
            }),
        }
    }

    pub fn reset(&mut self) {
        self.reader.reset();
    }

    /// bytes the link layer wrote in reply (ACK, LINK_STATUS)
    pub fn take_written(&self) -> Vec<Vec<u8>> {
        self.handle.take_tx().into_iter().map(|x| x.1).collect()
    }
}

// ---------------------------------------------------------------------------------------
// application parser / display / measurement extraction
// ---------------------------------------------------------------------------------------

use crate::app::parse::options::ParseOptions;
use crate::app::parse::parser::{ObjectHeader, ParsedFragment};

#[derive(Clone, Debug, PartialEq, Eq, Hash)]
pub struct HdrOut {
    pub group: u8,
    pub var: u8,
    pub qual: u8,
    /// the header formatted with object values, exactly as the decode log prints it
    pub text: String,
}

#[derive(Clone, Debug, PartialEq, Eq, Hash)]
pub struct AppParse {
    pub ctrl: u8,
    pub func: u8,
    pub iin: Option<(u8, u8)>,
    /// the validating first pass followed by a lazy iteration
    pub objects: Result<Vec<HdrOut>, String>,
    /// a second lazy iteration yields exactly the same
    pub second_pass_equal: bool,
    /// to_request / to_response validation
    pub as_request: Result<(), String>,
    pub as_response: Result<(), String>,
    /// number of bytes of the full fragment display at every decode level
    pub display_len: [usize; 4],
}

struct HeaderText<'a, 'b>(&'b ObjectHeader<'a>);

impl std::fmt::Display for HeaderText<'_, '_> {
    fn fmt(&self, f: &mut std::fmt::Formatter) -> std::fmt::Result {
        self.0.format(true, f)
    }
}

fn collect_headers(frag: &ParsedFragment) -> Result<Vec<HdrOut>, String> {
    match frag.objects {
        Err(e) => Err(format!("{e:?}")),
        Ok(hc) => Ok(hc
            .iter()
            .map(|h| {
                let (group, var) = h.variation.to_group_and_var();
                HdrOut {
                    group,
                    var,
                    qual: h.details.qualifier().as_u8(),
                    text: format!("{}", HeaderText(&h)),
                }
            })
            .collect()),
    }
}

/// Parse a fragment with the library's parser; `Err` = the 2..4 byte fragment header was rejected
pub fn app_parse(bytes: &[u8], zero_length_strings: bool) -> Result<AppParse, String> {
    let options = ParseOptions {
        parse_zero_length_strings: zero_length_strings,
    };
    let frag = ParsedFragment::parse(options, bytes).map_err(|e| format!("{e:?}"))?;
    let c = frag.control;
    let ctrl = ((c.fir as u8) << 7)
        | ((c.fin as u8) << 6)
        | ((c.con as u8) << 5)
        | ((c.uns as u8) << 4)
        | c.seq.value();
    let objects = collect_headers(&frag);
    let second = collect_headers(&frag);
    let levels = [
        crate::decode::AppDecodeLevel::Nothing,
        crate::decode::AppDecodeLevel::Header,
        crate::decode::AppDecodeLevel::ObjectHeaders,
        crate::decode::AppDecodeLevel::ObjectValues,
    ];
    let mut display_len = [0usize; 4];
    for (i, l) in levels.iter().enumerate() {
        display_len[i] = format!("{}", frag.display(*l)).len();
    }
    Ok(AppParse {
        ctrl,
        func: frag.function.as_u8(),
        iin: frag.iin.map(|i| (i.iin1.value, i.iin2.value)),
        second_pass_equal: objects == second,
        objects,
        as_request: frag.to_request().map(|_| ()).map_err(|e| format!("{e:?}")),
        as_response: frag.to_response().map(|_| ()).map_err(|e| format!("{e:?}")),
        display_len,
    })
}

/// run `extract_measurements_inner` over a response fragment into the given handler;
/// returns false if the fragment is not a parseable response
pub fn app_extract(bytes: &[u8], handler: &mut dyn crate::master::ReadHandler) -> bool {
    let options = ParseOptions {
        parse_zero_length_strings: true,
    };
    let Ok(frag) = ParsedFragment::parse(options, bytes) else {
        return false;
    };
    let Ok(resp) = frag.to_response() else {
        return false;
    };
    let Ok(objects) = resp.objects else {
        return false;
    };
    crate::master::extract::extract_measurements_inner(objects, handler);
    true
}

/// every (group, variation) pair the library knows, with its `Variation` value
pub fn all_variations() -> Vec<(u8, u8, crate::app::Variation)> {
    let mut out = Vec::new();
    for g in 0..=255u8 {
        for v in 0..=255u8 {
            if let Some(x) = crate::app::Variation::lookup(g, v) {
                out.push((g, v, x));
            }
        }
    }
    out
}

/// the (group, variation) numbers of a `Variation`
pub fn variation_numbers(v: crate::app::Variation) -> (u8, u8) {
    v.to_group_and_var()
}

/// `ControlCode` of a raw octet and back
pub fn control_code_from(x: u8) -> crate::app::control::ControlCode {
    crate::app::control::ControlCode::from(x)
}

pub fn control_code_as_u8(x: crate::app::control::ControlCode) -> u8 {
    x.as_u8()
}

/// application control field of a raw octet
pub fn control_field(x: u8) -> crate::app::ControlField {
    crate::app::ControlField {
        fir: x & 0x80 != 0,
        fin: x & 0x40 != 0,
        con: x & 0x20 != 0,
        uns: x & 0x10 != 0,
        seq: crate::app::Sequence::new(x & 0x0F),
    }
}

/// task errors whose payload types cannot be built outside the crate
pub fn task_errors_with_private_payloads() -> Vec<crate::master::TaskError> {
    vec![
        crate::master::TaskError::Link(crate::link::error::LinkError::Stdio(
            std::io::ErrorKind::BrokenPipe,
        )),
        crate::master::TaskError::BadEncoding(crate::master::BadEncoding::Attribute(
            crate::app::attr::BadAttribute::BadLength(300),
        )),
    ]
}

/// an attribute type error (fields are crate-private)
pub fn attr_type_error() -> crate::app::attr::TypeError {
    crate::app::attr::TypeError::new(
        crate::app::attr::AttrDataType::UnsignedInt,
        crate::app::attr::AttrDataType::SignedInt,
    )
}

/// an attribute variation list parsed from its encoding `[254, len, (variation, properties)*]`
pub fn variation_list(encoded: &[u8]) -> Option<crate::app::attr::VariationList<'_>> {
    let mut c = scursor::ReadCursor::new(encoded);
    match crate::app::attr::AttrValue::parse(&mut c) {
        Ok(crate::app::attr::AttrValue::AttrList(l)) => Some(l),
        _ => None,
    }
}

// ---------------------------------------------------------------------------------------
// group 70 (file) free-format objects: the library's own writer and reader
// ---------------------------------------------------------------------------------------

/// field values of one g70 object (which fields a variation uses is listed at `file_object`)
#[derive(Clone, Debug, Default)]
pub struct FileObj {
    pub var: u8,
    pub a: u32,
    pub b: u32,
    pub c: u16,
    pub d: u16,
    /// nine permission bits in IEEE 1815 order: world x/w/r = bits 0..2, group = 3..5, owner = 6..8
    pub perms: u16,
    /// status (v4, v6), operational mode (v3) or file type (v7)
    pub code: u16,
    pub time: u64,
    pub s1: String,
    pub s2: String,
    pub data: Vec<u8>,
}

pub struct FileObjOut {
    /// Debug text of the object as constructed from the fields
    pub original: String,
    /// what the library's writer produced (None: the library has no production writer for it)
    pub encoded: Option<Result<Vec<u8>, String>>,
    /// Debug text of what the library's reader makes of `reference`
    pub decoded: Result<String, String>,
}

fn file_status(code: u8) -> crate::app::FileStatus {
    use crate::app::FileStatus::*;
    match code {
        0 => Success,
        1 => PermissionDenied,
        2 => InvalidMode,
        3 => FileNotFound,
        4 => FileLocked,
        5 => TooManyOpen,
        6 => InvalidHandle,
        7 => WriteBlockSize,
        8 => CommLost,
        9 => CannotAbort,
        16 => NotOpened,
        17 => HandleExpired,
        18 => BufferOverrun,
        19 => Fatal,
        20 => BlockSeq,
        255 => Undefined,
        x => Other(x),
    }
}

/// v2: a = auth key, s1 = user, s2 = password; v3: time, perms, a = auth key, b = size, code = mode,
/// c = max block, d = request id, s1 = name; v4: a = handle, b = size, c = max block, d = request
/// id, code = status, s1 = text; v5: a = handle, b = block, data; v6: a = handle, b = block,
/// code = status, s1 = text; v7: code = type, b = size, time, perms, d = request id, s1 = name;
/// v8: s1
pub fn file_object(p: &FileObj, reference: &[u8]) -> FileObjOut {
    use crate::app::file::*;
    use crate::app::{PermissionSet, Permissions, Timestamp};
    let set = |k: u16| PermissionSet {
        execute: (p.perms >> k) & 1 == 1,
        write: (p.perms >> (k + 1)) & 1 == 1,
        read: (p.perms >> (k + 2)) & 1 == 1,
    };
    let permissions = Permissions {
        world: set(0),
        group: set(3),
        owner: set(6),
    };
    let time = Timestamp::new(p.time);
    let mut buf = vec![0u8; 4096];
    macro_rules! enc {
        ($obj:expr) => {{
            let mut cursor = scursor::WriteCursor::new(&mut buf);
            match $obj.write(&mut cursor) {
                Ok(()) => {
                    let n = cursor.position();
                    Some(Ok(buf[..n].to_vec()))
                }
                Err(e) => Some(Err(format!("{e:?}"))),
            }
        }};
    }
    macro_rules! dec {
        ($t:ident) => {{
            let mut c = scursor::ReadCursor::new(reference);
            $t::read(&mut c)
                .map(|x| format!("{x:?}"))
                .map_err(|e| format!("{e:?}"))
        }};
    }
    match p.var {
        2 => {
            let o = Group70Var2 {
                auth_key: p.a,
                user_name: &p.s1,
                password: &p.s2,
            };
            FileObjOut {
                original: format!("{o:?}"),
                encoded: enc!(o),
                decoded: dec!(Group70Var2),
            }
        }
        3 => {
            let o = Group70Var3 {
                time_of_creation: time,
                permissions,
                auth_key: p.a,
                file_size: p.b,
                mode: crate::master::FileMode::new(p.code),
                max_block_size: p.c,
                request_id: p.d,
                file_name: &p.s1,
            };
            FileObjOut {
                original: format!("{o:?}"),
                encoded: enc!(o),
                decoded: dec!(Group70Var3),
            }
        }
        4 => {
            let o = Group70Var4 {
                file_handle: p.a,
                file_size: p.b,
                max_block_size: p.c,
                request_id: p.d,
                status_code: file_status(p.code as u8),
                text: &p.s1,
            };
            FileObjOut {
                original: format!("{o:?}"),
                encoded: enc!(o),
                decoded: dec!(Group70Var4),
            }
        }
        5 => {
            let o = Group70Var5 {
                file_handle: p.a,
                block_number: p.b,
                file_data: &p.data,
            };
            FileObjOut {
                original: format!("{o:?}"),
                encoded: enc!(o),
                decoded: dec!(Group70Var5),
            }
        }
        6 => {
            let o = Group70Var6 {
                file_handle: p.a,
                block_number: p.b,
                status_code: file_status(p.code as u8),
                text: &p.s1,
            };
            FileObjOut {
                original: format!("{o:?}"),
                encoded: None,
                decoded: dec!(Group70Var6),
            }
        }
        7 => {
            let o = Group70Var7 {
                file_type: match p.code {
                    0 => crate::app::FileType::Directory,
                    1 => crate::app::FileType::File,
                    x => crate::app::FileType::Other(x),
                },
                file_size: p.b,
                time_of_creation: time,
                permissions,
                request_id: p.d,
                file_name: &p.s1,
            };
            FileObjOut {
                original: format!("{o:?}"),
                encoded: enc!(o),
                decoded: dec!(Group70Var7),
            }
        }
        _ => {
            let o = Group70Var8 {
                file_specification: &p.s1,
            };
            FileObjOut {
                original: format!("{o:?}"),
                encoded: None,
                decoded: dec!(Group70Var8),
            }
        }
    }
}

/// a device-attribute value through the library's writer and back through its parser:
/// (encoding, Debug text of the parsed value)
pub fn attr_value_roundtrip(
    v: &crate::app::attr::OwnedAttrValue,
) -> (Result<Vec<u8>, String>, Result<String, String>) {
    let mut buf = vec![0u8; 1024];
    let mut cursor = scursor::WriteCursor::new(&mut buf);
    let encoded = match v.write(&mut cursor) {
        Ok(()) => {
            let n = cursor.position();
            Ok(buf[..n].to_vec())
        }
        Err(crate::app::attr::AttrWriteError::Cursor) => Err("Cursor".to_string()),
        Err(crate::app::attr::AttrWriteError::BadAttribute(b)) => {
            Err(format!("BadAttribute({b:?})"))
        }
    };
    let decoded = match &encoded {
        Ok(b) => {
            let mut c = scursor::ReadCursor::new(b);
            match crate::app::attr::AttrValue::parse(&mut c) {
                Ok(x) => match x.to_owned() {
                    Some(o) => Ok(format!("{o:?}")),
                    None => Err("attribute list".to_string()),
                },
                Err(e) => Err(format!("{e:?}")),
            }
        }
        Err(e) => Err(e.clone()),
    };
    (encoded, decoded)
}

/// the object headers a command set writes into a request (CommandHeaders has no other observer)
pub fn command_headers_bytes(h: &crate::master::CommandHeaders) -> Result<Vec<u8>, String> {
    let mut buf = vec![0u8; 16384];
    let mut cursor = scursor::WriteCursor::new(&mut buf);
    {
        let mut writer = crate::app::format::write::HeaderWriter::new(&mut cursor);
        h.write(&mut writer).map_err(|e| format!("{e:?}"))?;
    }
    let n = cursor.position();
    Ok(buf[..n].to_vec())
}
