pub fn placeholder() {}
