#!/usr/bin/env python3
"""Regenerates MANIFEST.json from the table below (keeps it valid at all times)."""
import json, subprocess

HOOK_COMMITS = ["c62c608"]

# id -> (level, technique, text, note, design_ref, has_thorough)
CLAIMED = {
 "C04": ("model_checking",
         "bounded-exhaustive exploration of all event histories of the real outstation task (explicit-state, re-execution from scratch) against a reference select/operate matcher",
         "All histories over a 25-letter alphabet (SELECT/OPERATE/DIRECT_OPERATE/READ/CONFIRM/malformed/broadcast/foreign-master fragments with next/same/skipped sequence numbers, byte-identical retransmission, time advances to select_timeout-1ms/exactly/+1ms, reconnect, link status) up to depth 4 (quick) / 5 (thorough, reduced alphabets), from three starting sequence numbers (wrap), are executed on the real OutstationTask over the production link+transport stack; a reference matcher written from the statement decides for every OPERATE whether it must execute, must be refused, or may do either; callbacks and echoed statuses are compared after every event.",
         "Trusted: the engine's own link/transport/application codecs, tokio's paused clock, the single-threaded driver argument of DESIGN 2.3. Object contents are drawn from four control sets; the u32 fragment counter wrap is out of reach.",
         "DESIGN.md §5 C04", True),
 "C05": ("model_checking",
         "bounded-exhaustive exploration of all event histories of the real outstation task against a retransmission oracle (executing-callback counters, byte identity with fragments already sent)",
         "All histories over an alphabet with one request per function code the outstation executes (20 requests), byte-identical Repeat, right/wrong solicited confirm, unsolicited confirm, database update, confirm timeout (and reconnect in the thorough tier), depth 3-4 quick / 4-5 thorough, with transmit buffers 249/300/2048 (class-0 response spans 3 fragments at 249) and unsolicited reporting off and on (after an ideal null-unsolicited handshake), executed on the real OutstationTask; after each Repeat the oracle requires no executing callback and a byte-identical reply (non-READ), or set membership in the fragments already transmitted (READ echo during a confirm wait, unsolicited retries).",
         "Trusted: engine codecs, paused clock, DESIGN 2.3. A READ repeated from idle may legitimately be answered afresh (library comment) and is not constrained.",
         "DESIGN.md §5 C05", True),
 "C12": ("model_checking",
         "exhaustive enumeration of a finite request product (state x function code x header flags x object menu) on the real outstation task, each request paired with the fragments transmitted afterwards",
         "Five session states (idle, solicited confirm wait final / mid-series, data and null unsolicited confirm wait) x function code 0..=255 x 16 FIR/FIN/CON/UNS combinations x sequence {0,15} x a per-function menu of accepted / rejected / unparsable object headers (singly, and all ordered pairs for functions 1..=30) x transmit buffer {249, 2048 thorough}, plus control and READ requests sized around the transmit/receive limits. Oracle: solicited responses carry the request's sequence number without UNS; unsolicited ones carry UNS/FIR/FIN/CON with consecutive numbering; CONFIRM and no-response codes are never answered; every fragment fits the transmit size and is decodable by the engine's own object walker; unsupported / malformed / partly rejected requests carry IIN2.0-2.",
         "Trusted: engine codecs and the reference classification of which headers each function accepts (written from IEEE 1815 and the statement). Fragments < 2 bytes and fragments with a response function code are not treated as requests.",
         "DESIGN.md §5 C12", True),
 "C03": ("model_checking",
         "bounded-exhaustive exploration of all event histories of the real outstation task with an event-ledger reference model stepped in lock-step, plus a liveness drain after every history",
         "All histories over a 14-20 letter alphabet (updates of four points in three classes incl. two binaries in different classes, READ by class / count-limited / by type / class 0, right and wrong solicited and unsolicited confirms, confirm timeout, DISABLE/ENABLE_UNSOLICITED, another request, reconnect) to depth 4 (quick) / 5-7 (thorough), per-type event buffers 1/2/5, absolute-time and CTO event variations, unsolicited off/on with 0/1 retries. The ledger holds every event the database API reported; after every event it checks: releases only for rows of the response that a matching, still-awaited confirm covers (R1/R2), every such row released (R2c), oldest-first and no skipped older row (R3), transmitted objects equal a recorded event (R4), nothing transmitted after release/discard except byte-identical re-sends (R1b/R6), end_confirm counts (R7); after each history an ideal master drains the buffer and every held event must be delivered (R5).",
         "Trusted: engine codecs, DESIGN 2.3. Time advances only in whole confirm timeouts. Values/times are unique per update so an object identifies its row.",
         "DESIGN.md §5 C03", True),
 "C13": ("model_checking",
         "bounded-exhaustive exploration of all event histories of the real outstation task; every first transmission of a response is compared bit by bit with an indication model derived from the event ledger",
         "C03's driver and ledger plus an IIN model: class-k available iff the ledger holds a class-k row not part of a response still awaiting confirmation; overflow from a reported discard until a valid confirmation leaves every type below capacity; restart until WRITE g80v1[7]=0 is processed (across reconnects); broadcast from receipt until reported (mandatory: until a valid confirm after it was reported); need-time / local-control / device-trouble / config-corrupt mirror the application mock. Alphabet of 19-24 events incl. broadcasts of the three confirm modes, restart-bit writes, reconnect, application flips; depth 4 quick, 5-7 thorough; buffer sizes 1/2, retries 0/1. Effects of requests are applied at the observation-order position of the corresponding callback so that requests retained across a confirm wait are modelled in the order the outstation processes them.",
         "Trusted: engine codecs, DESIGN 2.3, the global observation counter shared by pipe writes and callbacks. Lenient ('either') zones: class bits of the response to the DISABLE_UNSOLICITED that cancels a series; a mandatory broadcast after a solicited confirm that arrives during / for a response sent during an unsolicited wait. Updates are placed at quiescent points only (H6 not built).",
         "DESIGN.md §5 C13", True),
 "C14": ("model_checking",
         "bounded-exhaustive exploration of all event histories of the real outstation task from a freshly created outstation, with a temporal monitor over virtual timestamps of every transmitted fragment and a liveness drain",
         "Alphabet of 15-18 events (updates in two classes, ENABLE/DISABLE_UNSOLICITED for class 1 / all, right and wrong unsolicited confirms, solicited confirm, READ class 1 / class 0, another request, time advances of confirm timeout -1 ms / 1 ms / exactly and retry delay -1 ms / exactly, reconnect), depth 4-5 quick / 5-6 thorough, retry limits 0/1 (quick) and None/0/1/2, retry delay 5 s and 2 s. Monitor: only null responses with fresh sequence numbers until one is confirmed; data only for enabled classes; never a second unsolicited response (nor an early retry) while one is awaited; retries byte-identical, exactly at the confirm timeout, at most the configured number, and not omitted while retries remain; new series no sooner than the retry delay after a failed one; DISABLE ends the series; a READ during the wait gets no immediate response and is answered at the instant the series ends unless superseded; other requests are answered at the instant they arrive; with an ideal master every held event of an enabled class is eventually reported (drain).",
         "Trusted: engine codecs, paused clock (timers fire at their exact instant), DESIGN 2.3. After a reconnect the start of the next series is not constrained. A READ that ends a solicited confirm wait may be overtaken by an unsolicited response starting at the same instant (treated as deferred).",
         "DESIGN.md §5 C14", True),
 "C11": ("model_checking",
         "bounded-exhaustive exploration of all event histories of the real outstation task with a mirrored snapshot database and a series-grammar monitor",
         "Four databases (5 packed binaries; eight types with sparse 8/16-bit indices; 100 analogs = 3 fragments at 249; binaries with non-ONLINE flags forcing promotion and header breaks) x transmit buffers 249/300/2048 x an alphabet of 8-10 READ requests (class 0, class 1230, all objects, ranges inside / overlapping / outside, a specific variation, several headers) plus right / wrong / late confirm, timeout, another request, reconnect, update of a selected and of another point; depth 3-4 quick, 4-5 thorough. Oracle: FIR only first, FIN only last, consecutive sequence numbers, CON iff non-final or event-bearing, next fragment only after the matching confirm and then promptly, nothing after an abort, events before static data, and on completion the concatenated objects equal, header by header, every existing selected point exactly once ascending with the value/flags of the snapshot taken when the READ was delivered, in the requested / configured / promoted variation.",
         "Trusted: engine codecs incl. the measurement object decoder. Updates at quiescent points between fragments only (H6 not built). Values are small integers representable in every variation used. Order of types within a class-0 answer is not constrained.",
         "DESIGN.md §5 C11", True),
 "C07": ("model_checking",
         "exhaustive enumeration of link frames (control byte x destination class x source class x link state) and of frame sequences against a reference secondary station, in both roles on the real tasks; plus a finite product of application fragments by source/destination/state/feature",
         "Link part: real OutstationTask and real MasterTask over a pipe; role x self-address feature x {not reset, reset} x all 256 control bytes x 7 destination classes (own, other, self 0xFFFC, three broadcast addresses, reserved) x 6 source classes x {no payload, one user-data segment}, each followed by a link-status probe; all frame sequences of length 3 (quick) / 4 (thorough) over an 11-14 letter alphabet (RESET_LINK_STATES, confirmed data with either FCB, unconfirmed data, link status, TEST, ACK, wrong destination / source, broadcasts). Reference: act iff opposite direction, endpoint source, destination own / self(feature, outstation) / broadcast(outstation, user data); exact reply (ACK, LINK_STATUS to the source from the own address) or none; confirmed data delivered once per FCB toggle after a reset; nothing ever transmitted for a broadcast. Application part: any-master x broadcast feature x {idle, solicited confirm wait, unsolicited confirm wait} x 11 fragments (valid, unknown function, FIR clear, UNS on request, truncated, 1 byte, CONFIRM ...) x {configured master, foreign master, three broadcast addresses}: nothing transmitted for a broadcast, nothing transmitted or executed for a foreign master unless any-master.",
         "Trusted: engine link codec. Delivery is observed at application level. Invalid FCV encodings and TEST_LINK_STATES are 'either'.",
         "DESIGN.md §5 C07", True),
 "C06": ("model_checking",
         "exhaustive enumeration of frames, chunkings, bit-error patterns and noise strings against the real link Reader (parser state carried across reads, buffer shifting), oracle = bit-serial CRC and a specification framer with full rescan",
         "Round trip (library formatters vs reference builder byte for byte; parsed back under whole / every 2-way split / every 3-way split for short frames / bytewise, both error modes), buffer wrap-around for every filler length and several read sizes and fragment sizes, every 1- and 2-bit error (3-bit for frames <= 44 bytes, thorough) and every burst of 2..=16 bits in frames of 10/27/28/45/292 bytes followed by a clean frame, discard-mode resynchronisation after every noise string of <= 2 (3) tokens under every split, truncated frame + frames (chunking independence), datagram mode at every split point.",
         "Trusted: the engine's CRC and framer. Quick tier restricts control bytes (16), address pairs (4) and payload lengths (30); thorough covers all 256 control bytes and all lengths 0..=250.",
         "DESIGN.md §5 C06", True),
 "C08": ("model_checking",
         "exhaustive enumeration of fragment lengths x starting sequence numbers through the real transport Writer and Reader, and of mutated segment streams against a reference reassembler",
         "Writer output for every length (boundary set quick, 1..=2048 thorough) from starting sequences incl. the mod-64 wrap compared byte for byte with the reference segmenter and delivered through the real Reader (link Layer + Assembler) under several chunkings; all applications of <= 2 (3) mutation operators (drop, duplicate, swap, re-address, clear/set FIR, interleave a second sender, overflow, broadcast segment, skipped sequence number) to the segment streams of fragments of 1/249/250/498/747/2048 bytes into receive buffers 249/250/498/2048, each followed by a clean fragment: deliveries equal the reference reassembler's exactly, fragment ids consecutive.",
         "Trusted: engine segmenter / reassembler written from the statement. Operators are applied at five structural positions.",
         "DESIGN.md §5 C08", True),
 "C09": ("exploration",
         "exhaustive enumeration of a finite input space (all group/variation x qualifier x shape x completeness combinations; every request the master API builds; a corpus of outstation fragments and all their single-byte mutations) against an independent size table and object walker",
         "(a) every request kind of the master API (incl. second steps of select-before-operate and both time synchronisations) and 48 outstation corpora covering every static and event variation of all eight types at sparse indices up to 65535 are decoded by the library parser and by the engine's walker, which must agree on function, flags, IIN, headers, counts and indices with an identical lazy second pass; (b) for every (group, variation) x qualifier x {READ, WRITE, RESPONSE} x 7 count/range shapes x {exact, -1, +1, header only}: acceptance implies the bytes are exactly what the reference size table says and iteration yields the declared objects; (c) all truncations, extensions and per-byte mutations of the corpus. Thorough: all 65 536 x 256 (group, variation, qualifier) triples (1.16e9 parses).",
         "Trusted: the hand-written size table (IEEE 1815 Annex A). Count qualifiers on event groups are accepted as data-less 'limited count' headers in every function code. Object values are C10's subject.",
         "DESIGN.md §5 C09", True),
 "C10": ("exploration",
         "exhaustive enumeration of a finite product (types x variations x boundary values x flag octets x timestamps x indices) through the real database, response writers and master extraction, against a 'what the variation can carry' reference",
         "For each of the eight point types, each configured static variation and each event variation: 36 analog / 7 counter / all binary and double-bit values x flag octets (11 quick, 256 thorough) x 7 timestamps x index {0, 65535}; index sets; all orders of 3 events under a common-time-of-occurrence header (6 time differences incl. negative, mixed synchronisation). Real Database::update -> real OutstationTask response -> bytes -> (i) engine decoder (ii) library extract_measurements into a recording handler; both compared with the carry function (saturation + OVER_RANGE, truncation toward zero, f32 rounding, low 16 bits, packed only if plainly ONLINE, exact CTO reconstruction, never another index or another point's flags).",
         "Trusted: engine object decoders. 2^48 timestamps and f64 values are covered by boundary menus, not enumerated.",
         "DESIGN.md §5 C10", True),
 "C15": ("model_checking",
         "bounded-exhaustive exploration of all response histories delivered to the real master task, per kind of outstanding task, against an acceptance predicate, a confirm ledger and the handler call order",
         "Eight kinds of outstanding task (none, user READ, DIRECT_OPERATE, SELECT step, OPERATE step, automatic DISABLE_UNSOLICITED, start-up integrity poll, file-information request) x every history to depth 3 (4) over 22 responses: ideal, with CON, first / middle / last fragment in and out of order, non-final without CON, sequence -1 / +1 / +8, foreign source, unsolicited null / data / duplicate / foreign / without CON / with a truncated object, truncated object, unknown object, IIN2 rejection, solicited with UNS bit, silence. Predicted and compared after every event: begin/end_fragment brackets (delivery exactly once, of the fragment on the wire), CONFIRM fragments written (exactly the accepted CON fragments, same sequence and UNS bit), task completion (ends / fails / must not succeed / must be ignored).",
         "Trusted: engine codecs, DESIGN 2.3. A malformed or mis-flagged fragment may be ignored or may fail the task. Whether an accepted command/file response means success is C16's subject.",
         "DESIGN.md §5 C15", True),
 "C16": ("model_checking",
         "exhaustive enumeration of every single mutation of the command echo for every command set and step, and of every request kind x failure kind x protocol step, on the real master task with the user futures as actors",
         "(1) 15 command sets (5 control types x 8/16-bit indices x one object / two objects / two headers) x {DIRECT_OPERATE, SELECT step, OPERATE step} x faithful echo + every single mutation (every byte +-1, every status code in every object, header dropped / duplicated / appended, object dropped / added / reordered, empty): success iff faithful; OPERATE written only after a faithful SELECT echo, with the next sequence number and identical objects. (2) 18 request kinds x {none, reply lost, connection lost, channel disabled, association removed} x step 0..3 + full request queue: exactly one outcome per user future / FileReader, error iff a failure was injected, within (steps+2) response timeouts.",
         "Trusted: engine codecs; the minimal ideal outstation. Master shut-down by dropping all handles is not driven. A failure at the CLOSE step of a completed file/directory read may still report success.",
         "DESIGN.md §5 C16", True),
 "C17": ("model_checking",
         "bounded-exhaustive exploration of all reply / indication / failure histories of the real master task per association configuration, against a start-up order machine and a back-off reference; the back-off of a permanently failing task is followed to its fix-point",
         "Configurations: automatic disable / integrity / enable on or off x time sync none / LAN / non-LAN x event scan x retry strategy (8 quick, 60 thorough), one periodic poll configured. Alphabet of 14 events (ideal reply; with RESTART / NEED_TIME / OVERFLOW / CLASS_1_EVENTS; IIN2 rejection; malformed reply; silence; unsolicited with / without data and with / without RESTART; reconnect; advance to the next timer), depth 4 (5-6 thorough). Oracle: every request written is the highest-priority pending step (clear restart > disable > integrity > time sync (two steps) > enable > event scan > poll), a RESTART indication re-arms clear / integrity / enable, no poll while a step is pending, retries never before failure + min(base*2^(n-1), max) and by that instant, unsolicited data neither delivered nor confirmed before the integrity poll (re)completed, empty ones confirmed; back-off sequences for all (min,max) in {1 ms,1 s,3 s,1 h}^2 to the fix-point.",
         "Trusted: engine codecs, paused clock. An IIN2 rejection of an automatic DISABLE / ENABLE / clear-restart request is treated by the library as an answer (no retry), which the property allows.",
         "DESIGN.md §5 C17", True),
 "C19": ("model_checking",
         "bounded-exhaustive exploration of submission / poll / reply / time histories of the real master task with 1..3 associations, against a scheduling monitor over virtual timestamps and a poll-count bound; a watchdog turns a non-terminating history into a violation",
         "Events: submit a user READ or command on association a, add a poll (period kT), demand a poll, prompt reply, reply 1 ms before the response timeout, no reply, advance to 1 ms before / exactly the earliest deadline; depth 4-5 (5-7 thorough); keep-alive off / 4T. Monitor: at most one request outstanding per channel; user requests in submission order and ahead of polls; a poll never before completion + period (or demand) and written as soon as it is due on an idle channel; associations with waiting user requests take turns; link status requests only after the keep-alive silence; the master future is not polled at all while the clock advances to 1 ms before the earliest deadline, at most 200 times per event, and every history terminates (watchdog).",
         "Trusted: paused clock (timers fire at their exact instant), kernel poll counting. Start-up tasks are off here (C17).",
         "DESIGN.md §5 C19", True),
 "C18": ("model_checking",
         "exhaustive enumeration of scripted one-way delays, processing delays, clock bases, procedures and interleaved traffic on a paired simulation (real master task + real outstation task on one virtual clock), against the clock-error arithmetic",
         "Forward / backward delay in {0,1,2,7,65535,65536} ms x processing delay in {0,1,2,7,65535} ms x master clock base {0,1,2^47, near 2^48-1} x {LAN, non-LAN, direct write} x {honest, dishonest processing delay, NEED_TIME persists}; unrelated traffic (unsolicited response, stale-sequence reply, link status request) injected at each protocol step; scripted master-side replies (unexpected objects, IIN2 error, NEED_TIME in the final reply, missing delay object) at each step. Success implies exactly one write_absolute_time whose value differs from base + virtual-now by at most d_f (LAN, direct) / |d_f - d_b| (non-LAN); failure conditions imply failure; ideal conditions imply success.",
         "Trusted: paused clock, the driver's delivery scheduling. 2^48 clock values and delays are boundary menus. Quick restricts bases / interleavings to a subset of delays.",
         "DESIGN.md §5 C18", True),
}

NOT_YET = {
 "C01": "designed in DESIGN §5 C01 (hostile-input sweeps + session states); check not built yet",
 "C02": "designed in DESIGN §5 C02 (paired master/outstation simulation); check not built yet",
 "C20": "designed in DESIGN §5 C20; check not built yet",
}

checks = []
for pid, (level, tech, text, note, ref, thorough) in sorted(CLAIMED.items()):
    c = {
        "property_id": pid,
        "quick_cmd": f"./bin/check {pid} --tier quick",
        "evidence_file": f"/verif/evidence/{pid}.json",
        "replay_cmd_template": f"./bin/check {pid} --replay {{path}}",
        "engine": "engine_ffi" if pid == "C20" else "engine",
        "level_claimed": {"category": level, "text": text, "design_ref": ref},
        "level_note": note,
        "technique": tech,
    }
    if thorough:
        c["thorough_cmd"] = f"./bin/check {pid} --tier thorough"
    checks.append(c)

manifest = {
    "version": 1,
    "setup_cmd": "cd /verif/engine && CARGO_NET_OFFLINE=true cargo build --offline",
    "hooks": {
        "guard": "--cfg dnp3_verif (rustc cfg; H5 additionally --cfg dnp3_verif_fp)",
        "enable": "RUSTFLAGS from /verif/engine/.cargo/config.toml: --cfg dnp3_verif --cfg tokio_unstable; the engine crate depends on /repo/dnp3 by path (default-features off) so every check rebuilds from /repo's working tree",
        "baseline_off_cmd": "cd /repo && cargo test --workspace --no-fail-fast --offline",
        "source_commits": HOOK_COMMITS,
        "add_only": True,
    },
    "engines": [
        {"name": "engine", "path": "/verif/engine", "serves_properties": sorted(k for k in CLAIMED if k != "C20"),
         "kind_free_text": "Rust: simulation kernel (hand-polled real tasks, paused tokio clock, byte pipes), bounded-exhaustive history explorer, reference models and independent wire codecs"},
    ],
    "checks": checks,
    "not_applicable": [{"property_id": k, "reason": v} for k, v in sorted(NOT_YET.items()) if k not in CLAIMED],
    "notes": "See DESIGN.md. known_findings.json lists genuine defects (known / fixed). Replays are written to /verif/replays/<id>/.",
}
json.dump(manifest, open("/verif/MANIFEST.json", "w"), indent=1)
print("claimed:", sorted(CLAIMED), "not claimed:", len(manifest["not_applicable"]))
