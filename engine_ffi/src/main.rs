//! verif-engine-ffi: C20 -- the binding layer maps every value to its namesake, losslessly
//! (see /verif/DESIGN.md section 5, C20).  Separate crate: dnp3 is built with feature `ffi`
//! here, which the other properties' engine must not have.
#![allow(dead_code)]

#[path = "../../engine/src/explore.rs"]
mod explore;
#[path = "../../engine/src/kernel.rs"]
mod kernel;
#[path = "../../engine/src/osim.rs"]
mod osim;
#[path = "../../engine/src/trace.rs"]
mod trace;
#[path = "../../engine/src/wire/mod.rs"]
mod wire;

mod builders;
mod cases;
mod conv;
mod dbops;
mod handlers;

use explore::{CaseSpace, Check, RunResult};

fn usage() -> ! {
    eprintln!("usage: verif-engine-ffi C20 --tier quick|thorough | --replay <file>");
    std::process::exit(2);
}

fn spaces(tier: &str) -> Vec<Box<dyn CaseSpace>> {
    vec![
        Box::new(cases::Table::new("enum-conversions", conv::enum_cases())),
        Box::new(cases::Table::new("value-conversions", conv::value_cases(tier))),
        Box::new(cases::Table::new("callback-interfaces", handlers::cases(tier))),
        Box::new(cases::Table::new("request-builders", builders::cases(tier))),
        Box::new(dbops::DbOps::new(tier)),
    ]
}

fn print_replay(r: RunResult) -> i32 {
    for l in &r.transcript {
        println!("{l}");
    }
    match r.violation {
        Some(v) => {
            println!("REPLAY: violation reproduces: clause={} key={} detail={}", v.clause, v.key, v.detail);
            1
        }
        None => {
            println!("REPLAY: no violation");
            0
        }
    }
}

fn main() {
    let args: Vec<String> = std::env::args().collect();
    if args.len() < 2 || args[1].to_uppercase() != "C20" {
        usage();
    }
    let mut tier = std::env::var("VERIF_TIER").unwrap_or_else(|_| "quick".to_string());
    let mut replay: Option<String> = None;
    let mut i = 2;
    while i < args.len() {
        match args[i].as_str() {
            "--tier" => {
                tier = args.get(i + 1).cloned().unwrap_or_else(|| usage());
                i += 2;
            }
            "--replay" => {
                replay = Some(args.get(i + 1).cloned().unwrap_or_else(|| usage()));
                i += 2;
            }
            _ => usage(),
        }
    }
    if tier != "quick" && tier != "thorough" {
        usage();
    }
    kernel::install_panic_hook();
    if std::env::var("VERIF_NO_TRACE").is_err() {
        trace::install();
    }
    let code = if let Some(file) = replay {
        let (_kind, name, path) = explore::read_replay(&file);
        let mut found = None;
        for t in ["quick", "thorough"] {
            for s in spaces(t) {
                if s.name() == name && found.is_none() && path[0] < s.total() {
                    found = Some(s.run(path[0], true));
                }
            }
        }
        match found {
            Some(r) => print_replay(r),
            None => {
                eprintln!("replay: unknown case space {name}");
                2
            }
        }
    } else {
        let mut c = Check::new("C20", &tier);
        for s in spaces(&tier) {
            c.cases(s.as_ref());
        }
        let mut driven: Vec<String> = Vec::new();
        for c in conv::enum_cases().iter().chain(conv::value_cases(&tier).iter()).chain(handlers::cases(&tier).iter()) {
            if !driven.contains(&c.conv) {
                driven.push(c.conv.clone());
            }
        }
        let census = conv::impl_census(&driven);
        c.finish(
            "model_checking",
            "finite products, every member executed against the real binding crate (dnp3-ffi built as an rlib from /repo): \
             (1) enum-conversions: every variant of every generated ffi enumeration (variants discovered by scanning the generated From<c_int> over 0..=4096) through every hand-written From impl that takes it, and every native value (enumerated through the library's own from-octet constructors where they exist, otherwise listed) through every From impl that produces an ffi enumeration; oracle = like-named result (normalised Debug names) or the stated documented collapse; \
             (2) value-conversions: every struct From impl over boundary menus of every field (all 256 flag / IIN / control-code octets, three time qualities x boundary instants, numeric limits, NaN, infinities); oracle = field-wise equality with a natively constructed value; \
             (3) callback-interfaces: native values pushed through the real `impl ReadHandler / ControlHandler / OutstationApplication / ... for ffi::*` adapters into recording extern \"C\" callbacks (11 measurement types x value menus x 256 flags x time menus; every Variation x qualifier; every response header bit; every attribute variation x value type; every control code octet; every status returned); \
             (5) request-builders: every sequence of <= 3 (4) calls of the exported dead-band request functions (6 kinds + finish_header), <= 2 (3) of the command set functions (10 kinds + finish_header) and every read / header request constructor (6 + the 16 class combinations) followed by <= 1 (2) of its 9 add functions: what the builder hands to the library (hook H7) equals what the same calls build natively; \
             (4) database-ops: every operation sequence up to the stated depth over add/remove/update/update2/update_flags/get on the 8 point types through the exported dnp3_database_* functions against the same sequence through the native Database traits on a second real outstation; oracle = identical return values and byte-identical class 0 / class 1-2-3 READ responses; \
             non-trivial = the conversion produced a value; distinct = distinct (conversion, input)",
            &[
                "conversions whose source type cannot be named outside dnp3-ffi (runtime / tracing errors) or that need live sockets, TLS files or serial ports are exercised only as far as their value mapping (listed under census.not_driven)",
                "numeric domains (u64 instants, f64 values, u32 counters) are covered by boundary menus, not enumerated",
                "documented collapses are accepted as stated by the ffi schema: TripCloseCode/OpType::Unknown(_) -> Nul, CommandStatus::Unknown(_) -> Unknown -> Unknown(0), payloads of error variants are dropped",
            ],
            census,
        )
    };
    std::process::exit(code);
}
