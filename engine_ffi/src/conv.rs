//! C20 parts 1 and 2: the hand-written `From` impls of the binding crate, driven value by value.

use std::os::raw::c_int;
use std::time::Duration;

use dnp3::app::control::*;
use dnp3::app::measurement::*;
use dnp3::app::*;
use dnp3::decode::*;
use dnp3::link::*;
use dnp3::master::*;
use dnp3::outstation::database::*;
use dnp3::outstation::*;
use dnp3_ffi::ffi;
use serde_json::{json, Value};

use crate::cases::{dbg, norm, variants, Case, Outcome};

// ---------------------------------------------------------------------------------------
// helpers
// ---------------------------------------------------------------------------------------

/// ffi enumeration -> native: every ffi variant, result must be the like-named native value
macro_rules! f2n {
    ($v:ident, $F:ty => $N:ty) => {
        f2n!($v, $F => $N, |s: String| s, |s: String| s)
    };
    ($v:ident, $F:ty => $N:ty, $inmap:expr, $outmap:expr) => {{
        let conv = format!("impl From<ffi::{}> for {}", stringify!($F).trim_start_matches("ffi::").replace(' ', ""), stringify!($N).replace(' ', ""));
        for x in variants::<$F>() {
            let conv = conv.clone();
            $v.push(Case {
                clause: "C20.E1",
                conv,
                input: dbg(&x),
                run: Box::new(move || {
                    let n: $N = x.into();
                    Outcome { got: ($outmap)(dbg(&n)), want: ($inmap)(dbg(&x)) }
                }),
            });
        }
    }};
}

/// native -> ffi enumeration: every listed native value, result must be the like-named ffi variant
macro_rules! n2f {
    ($v:ident, $N:ty => $F:ty, $list:expr) => {
        n2f!($v, $N => $F, $list, |s: String| norm(&s))
    };
    ($v:ident, $N:ty => $F:ty, $list:expr, $inmap:expr) => {{
        let conv = format!("impl From<{}> for ffi::{}", stringify!($N).replace(' ', ""), stringify!($F).trim_start_matches("ffi::").replace(' ', ""));
        let list: Vec<$N> = $list;
        for x in list {
            let conv = conv.clone();
            let input = dbg(&x);
            let input2 = input.clone();
            $v.push(Case {
                clause: "C20.E2",
                conv,
                input,
                run: Box::new(move || {
                    let f: $F = x.clone().into();
                    Outcome { got: norm(&dbg(&f)), want: ($inmap)(input2.clone()) }
                }),
            });
        }
    }};
}

fn strip_some(s: String) -> String {
    // Option<EventClass>: `Some(Class1)` / `None`
    let s = s.trim_start_matches("Some(").trim_end_matches(')').to_string();
    norm(&s)
}

pub fn task_errors() -> Vec<TaskError> {
    let iin = Iin::new(Iin1::new(0), Iin2::new(0x04));
    let mut v = dnp3::verif::seams::task_errors_with_private_payloads();
    v.extend([
        TaskError::TooManyRequests,
        TaskError::Transport,
        TaskError::RejectedByIin2(iin),
        TaskError::MalformedResponse(ObjectParseError::InsufficientBytes),
        TaskError::UnexpectedResponseHeaders,
        TaskError::NonFinWithoutCon,
        TaskError::NeverReceivedFir,
        TaskError::UnexpectedFir,
        TaskError::MultiFragmentResponse,
        TaskError::ResponseTimeout,
        TaskError::WriteError,
        TaskError::NoSuchAssociation(EndpointAddress::try_new(7).unwrap()),
        TaskError::NoConnection,
        TaskError::Shutdown,
        TaskError::Disabled,
    ]);
    v
}

/// the name the ffi schema documents for a task error
pub fn task_error_name(e: &TaskError) -> &'static str {
    match norm(&dbg(e)).as_str() {
        "toomanyrequests" => "toomanyrequests",
        "link" | "transport" | "noconnection" | "disabled" => "noconnection",
        "malformedresponse" | "unexpectedresponseheaders" | "nonfinwithoutcon" | "neverreceivedfir" | "unexpectedfir" | "multifragmentresponse" => "badresponse",
        "responsetimeout" => "responsetimeout",
        "writeerror" => "writeerror",
        "nosuchassociation" => "associationremoved",
        "shutdown" => "shutdown",
        "badencoding" => "badencoding",
        "rejectedbyiin2" => "iinerror",
        _ => "<unlisted task error>",
    }
}

macro_rules! task_err_into {
    ($v:ident, $F:ident) => {{
        for e in task_errors() {
            let want = task_error_name(&e).to_string();
            let input = dbg(&e);
            $v.push(Case {
                clause: "C20.E2",
                conv: format!("impl From<TaskError> for ffi::{}", stringify!($F)),
                input,
                run: Box::new(move || {
                    let f: ffi::$F = e.clone().into();
                    Outcome { got: norm(&dbg(&f)), want: want.clone() }
                }),
            });
        }
    }};
}

// ---------------------------------------------------------------------------------------
// part 1: enumerations
// ---------------------------------------------------------------------------------------

pub fn enum_cases() -> Vec<Case> {
    let mut v: Vec<Case> = Vec::new();
    let id = |s: String| norm(&s);

    // ---- ffi -> native ----------------------------------------------------------------
    f2n!(v, ffi::FileMode => FileMode, id, id);
    f2n!(v, ffi::CommandMode => CommandMode, id, id);
    f2n!(v, ffi::TimeSyncMode => TimeSyncProcedure, id, id);
    f2n!(v, ffi::MinTlsVersion => dnp3::tcp::tls::MinTlsVersion, id, id);
    f2n!(v, ffi::CertificateMode => dnp3::tcp::tls::CertificateMode, id, id);
    f2n!(v, ffi::FunctionCode => FunctionCode, id, id);
    f2n!(v, ffi::UpdateFlagsType => UpdateFlagsType, id, id);
    f2n!(v, ffi::EventClass => Option<EventClass>, id, strip_some);
    f2n!(v, ffi::UdpSocketMode => dnp3::udp::UdpSocketMode, id, id);
    f2n!(v, ffi::LinkErrorMode => LinkErrorMode, id, id);
    f2n!(v, ffi::LinkReadMode => LinkReadMode, id, id);
    f2n!(v, ffi::CommandStatus => CommandStatus, id, id);
    f2n!(v, ffi::Variation => Variation, id, id);
    f2n!(v, ffi::AppDecodeLevel => AppDecodeLevel, id, id);
    f2n!(v, ffi::TransportDecodeLevel => TransportDecodeLevel, id, id);
    f2n!(v, ffi::LinkDecodeLevel => LinkDecodeLevel, id, id);
    f2n!(v, ffi::PhysDecodeLevel => PhysDecodeLevel, id, id);
    f2n!(
        v,
        ffi::WriteTimeResult => Result<(), RequestError>,
        id,
        |s: String| if s == "Ok(())" { "ok".to_string() } else { norm(s.trim_start_matches("Err(")) }
    );
    f2n!(
        v,
        ffi::FreezeResult => Result<(), RequestError>,
        id,
        |s: String| if s == "Ok(())" { "ok".to_string() } else { norm(s.trim_start_matches("Err(")) }
    );

    // ---- native -> ffi ----------------------------------------------------------------
    n2f!(
        v,
        dnp3::tcp::ClientState => ffi::ClientState,
        vec![
            dnp3::tcp::ClientState::Disabled,
            dnp3::tcp::ClientState::Connecting,
            dnp3::tcp::ClientState::Connected,
            dnp3::tcp::ClientState::WaitAfterFailedConnect(Duration::from_secs(3)),
            dnp3::tcp::ClientState::WaitAfterDisconnect(Duration::from_secs(4)),
            dnp3::tcp::ClientState::Shutdown,
        ]
    );
    n2f!(
        v,
        dnp3::serial::PortState => ffi::PortState,
        vec![
            dnp3::serial::PortState::Disabled,
            dnp3::serial::PortState::Wait(Duration::from_secs(2)),
            dnp3::serial::PortState::Open,
            dnp3::serial::PortState::Shutdown,
        ]
    );
    n2f!(v, ConnectionState => ffi::ConnectionState, vec![ConnectionState::Connected, ConnectionState::Disconnected]);
    n2f!(
        v,
        BroadcastAction => ffi::BroadcastAction,
        vec![
            BroadcastAction::Processed,
            BroadcastAction::IgnoredByConfiguration,
            BroadcastAction::BadObjectHeaders,
            BroadcastAction::UnsupportedFunction(FunctionCode::Read),
        ]
    );
    n2f!(v, FunctionCode => ffi::FunctionCode, (0..=255u8).filter_map(FunctionCode::from).collect());
    n2f!(
        v,
        TripCloseCode => ffi::TripCloseCode,
        (0..=255u8).map(TripCloseCode::from).collect(),
        |s: String| if s.starts_with("Unknown") { "nul".to_string() } else { norm(&s) }
    );
    n2f!(
        v,
        OpType => ffi::OpType,
        (0..=255u8).map(OpType::from).collect(),
        |s: String| if s.starts_with("Unknown") { "nul".to_string() } else { norm(&s) }
    );
    n2f!(
        v,
        OperateType => ffi::OperateType,
        vec![OperateType::SelectBeforeOperate, OperateType::DirectOperate, OperateType::DirectOperateNoAck]
    );
    n2f!(v, CommandStatus => ffi::CommandStatus, (0..=255u8).map(CommandStatus::from).collect());
    n2f!(v, Variation => ffi::Variation, dnp3::verif::seams::all_variations().into_iter().map(|x| x.2).collect());
    n2f!(
        v,
        ReadType => ffi::ReadType,
        vec![ReadType::StartupIntegrity, ReadType::Unsolicited, ReadType::SinglePoll, ReadType::PeriodicPoll]
    );
    n2f!(
        v,
        TaskType => ffi::TaskType,
        vec![
            TaskType::UserRead,
            TaskType::PeriodicPoll,
            TaskType::StartupIntegrity,
            TaskType::AutoEventScan,
            TaskType::Command,
            TaskType::ClearRestartBit,
            TaskType::EnableUnsolicited,
            TaskType::DisableUnsolicited,
            TaskType::TimeSync,
            TaskType::Restart,
            TaskType::WriteDeadBands,
            TaskType::GenericEmptyResponse(FunctionCode::Write),
            TaskType::FileRead,
            TaskType::FileAuth,
            TaskType::FileOpen,
            TaskType::FileWriteBlock,
            TaskType::FileClose,
            TaskType::GetFileInfo,
        ]
    );
    n2f!(
        v,
        FileType => ffi::FileType,
        vec![FileType::Directory, FileType::File, FileType::Other(9)],
        |s: String| if s == "File" { "simple".to_string() } else { norm(&s) }
    );
    n2f!(
        v,
        AppDecodeLevel => ffi::AppDecodeLevel,
        vec![AppDecodeLevel::Nothing, AppDecodeLevel::Header, AppDecodeLevel::ObjectHeaders, AppDecodeLevel::ObjectValues]
    );
    n2f!(
        v,
        TransportDecodeLevel => ffi::TransportDecodeLevel,
        vec![TransportDecodeLevel::Nothing, TransportDecodeLevel::Header, TransportDecodeLevel::Payload]
    );
    n2f!(
        v,
        LinkDecodeLevel => ffi::LinkDecodeLevel,
        vec![LinkDecodeLevel::Nothing, LinkDecodeLevel::Header, LinkDecodeLevel::Payload]
    );
    n2f!(
        v,
        PhysDecodeLevel => ffi::PhysDecodeLevel,
        vec![PhysDecodeLevel::Nothing, PhysDecodeLevel::Length, PhysDecodeLevel::Data]
    );
    n2f!(
        v,
        AttrDefError => ffi::AttrDefError,
        vec![
            AttrDefError::AlreadyDefined,
            AttrDefError::BadType(dnp3::verif::seams::attr_type_error()),
            AttrDefError::ReservedVariation(254),
            AttrDefError::NotWritable(dnp3::app::attr::AttrSet::Default, 3),
        ]
    );

    // ---- errors -----------------------------------------------------------------------
    task_err_into!(v, CommandError);
    task_err_into!(v, TimeSyncError);
    task_err_into!(v, RestartError);
    task_err_into!(v, ReadError);
    task_err_into!(v, LinkStatusError);
    task_err_into!(v, TaskError);
    task_err_into!(v, EmptyResponseError);
    task_err_into!(v, FileError);

    // CommandError: task errors keep their task name; response errors by their documented name
    {
        let mut list: Vec<(CommandError, String)> = Vec::new();
        for e in task_errors() {
            let w = task_error_name(&e).to_string();
            list.push((CommandError::Task(e), w));
        }
        for e in task_errors() {
            let w = task_error_name(&e).to_string();
            list.push((CommandError::Response(CommandResponseError::Request(e)), w));
        }
        list.push((CommandError::Response(CommandResponseError::BadStatus(CommandStatus::Timeout)), "badstatus".into()));
        list.push((CommandError::Response(CommandResponseError::HeaderCountMismatch), "headermismatch".into()));
        list.push((CommandError::Response(CommandResponseError::HeaderTypeMismatch), "headermismatch".into()));
        list.push((CommandError::Response(CommandResponseError::ObjectCountMismatch), "headermismatch".into()));
        list.push((CommandError::Response(CommandResponseError::ObjectValueMismatch), "headermismatch".into()));
        for (e, want) in list {
            v.push(Case {
                clause: "C20.E2",
                conv: "impl From<CommandError> for ffi::CommandError".into(),
                input: dbg(&e),
                run: Box::new(move || {
                    let f: ffi::CommandError = e.clone().into();
                    Outcome { got: norm(&dbg(&f)), want: want.clone() }
                }),
            });
        }
    }
    {
        let mut list: Vec<(TimeSyncError, String)> = Vec::new();
        for e in task_errors() {
            let w = task_error_name(&e).to_string();
            list.push((TimeSyncError::Task(e), w));
        }
        for e in [
            TimeSyncError::ClockRollback,
            TimeSyncError::SystemTimeNotUnix,
            TimeSyncError::BadOutstationTimeDelay(7),
            TimeSyncError::Overflow,
            TimeSyncError::StillNeedsTime,
            TimeSyncError::SystemTimeNotAvailable,
            TimeSyncError::IinError(Iin2::new(4)),
        ] {
            let w = norm(&dbg(&e));
            list.push((e, w));
        }
        for (e, want) in list {
            v.push(Case {
                clause: "C20.E2",
                conv: "impl From<TimeSyncError> for ffi::TimeSyncError".into(),
                input: dbg(&e),
                run: Box::new(move || {
                    let f: ffi::TimeSyncError = e.clone().into();
                    Outcome { got: norm(&dbg(&f)), want: want.clone() }
                }),
            });
        }
    }
    {
        let mut list: Vec<(WriteError, String)> = Vec::new();
        for e in task_errors() {
            let w = task_error_name(&e).to_string();
            list.push((WriteError::Task(e), w));
        }
        list.push((WriteError::IinError(Iin2::new(2)), "rejectedbyiin2".into()));
        for (e, want) in list {
            v.push(Case {
                clause: "C20.E2",
                conv: "impl From<WriteError> for ffi::EmptyResponseError".into(),
                input: dbg(&e),
                run: Box::new(move || {
                    let f: ffi::EmptyResponseError = e.clone().into();
                    Outcome { got: norm(&dbg(&f)), want: want.clone() }
                }),
            });
        }
    }
    {
        let mut list: Vec<(FileError, String)> = Vec::new();
        for e in task_errors() {
            let w = task_error_name(&e).to_string();
            list.push((FileError::TaskError(e), w));
        }
        for e in [
            FileError::BadResponse,
            FileError::BadStatus(FileStatus::FileLocked),
            FileError::WrongHandle,
            FileError::NoPermission,
            FileError::BadBlockNum,
            FileError::AbortByUser,
            FileError::MaxLengthExceeded,
        ] {
            let w = norm(&dbg(&e));
            list.push((e, w));
        }
        for (e, want) in list {
            v.push(Case {
                clause: "C20.E2",
                conv: "impl From<FileError> for ffi::FileError".into(),
                input: dbg(&e),
                run: Box::new(move || {
                    let f: ffi::FileError = e.clone().into();
                    Outcome { got: norm(&dbg(&f)), want: want.clone() }
                }),
            });
        }
    }
    // ParamError producers: the documented parameter error of each native error
    {
        let a = EndpointAddress::try_new(9).unwrap();
        let list: Vec<(&str, Box<dyn Fn() -> ffi::ParamError + Send + Sync>, &str)> = vec![
            ("AssociationError::Shutdown", Box::new(|| AssociationError::Shutdown.into()), "masteralreadyshutdown"),
            ("AssociationError::DuplicateAddress", Box::new(move || AssociationError::DuplicateAddress(a).into()), "associationduplicateaddress"),
            ("PollError::Shutdown", Box::new(|| PollError::Shutdown.into()), "masteralreadyshutdown"),
            ("PollError::NoSuchAssociation", Box::new(move || PollError::NoSuchAssociation(a).into()), "associationdoesnotexist"),
            ("Shutdown", Box::new(|| dnp3::app::Shutdown.into()), "masteralreadyshutdown"),
            ("BufferSizeError", Box::new(|| BufferSize::<249, 2048>::new(1).unwrap_err().into()), "invalidbuffersize"),
            ("SpecialAddressError", Box::new(|| EndpointAddress::try_new(0xFFFF).unwrap_err().into()), "invaliddnp3address"),
            ("AddrParseError", Box::new(|| "x".parse::<std::net::SocketAddr>().unwrap_err().into()), "invalidsocketaddress"),
            ("Utf8Error", Box::new(|| std::str::from_utf8(&[0xFF, 0xFE]).unwrap_err().into()), "stringnotutf8"),
            ("TlsError::InvalidDnsName", Box::new(|| dnp3::tcp::tls::TlsError::InvalidDnsName.into()), "invaliddnsname"),
            (
                "TlsError::InvalidPeerCertificate",
                Box::new(|| dnp3::tcp::tls::TlsError::InvalidPeerCertificate(std::io::Error::other("x")).into()),
                "invalidpeercertificate",
            ),
            (
                "TlsError::InvalidLocalCertificate",
                Box::new(|| dnp3::tcp::tls::TlsError::InvalidLocalCertificate(std::io::Error::other("x")).into()),
                "invalidlocalcertificate",
            ),
            (
                "TlsError::InvalidPrivateKey",
                Box::new(|| dnp3::tcp::tls::TlsError::InvalidPrivateKey(std::io::Error::other("x")).into()),
                "invalidprivatekey",
            ),
            ("TlsError::Other", Box::new(|| dnp3::tcp::tls::TlsError::Other(std::io::Error::other("x")).into()), "othertlserror"),
        ];
        for (name, f, want) in list {
            let want = want.to_string();
            v.push(Case {
                clause: "C20.E2",
                conv: format!("impl From<{}> for ffi::ParamError", name.split("::").next().unwrap()),
                input: name.to_string(),
                run: Box::new(move || Outcome { got: norm(&dbg(&f())), want: want.clone() }),
            });
        }
    }
    v
}

// ---------------------------------------------------------------------------------------
// part 2: structures
// ---------------------------------------------------------------------------------------

pub const INSTANTS: [u64; 6] = [0, 1, 1_600_000_000_000, (1 << 48) - 1, 1 << 48, u64::MAX];

pub fn ffi_times(tier: &str) -> Vec<ffi::Timestamp> {
    let mut out = Vec::new();
    let instants: &[u64] = if tier == "quick" { &INSTANTS[..4] } else { &INSTANTS };
    for q in variants::<ffi::TimeQuality>() {
        for &t in instants {
            out.push(ffi::Timestamp { value: t, quality: q.into() });
        }
    }
    out
}

pub fn native_time(t: &ffi::Timestamp) -> Option<Time> {
    match norm(&dbg(&ffi::TimeQuality::from(t.quality))).as_str() {
        "invalidtime" => None,
        "synchronizedtime" => Some(Time::Synchronized(Timestamp::new(t.value))),
        "unsynchronizedtime" => Some(Time::Unsynchronized(Timestamp::new(t.value))),
        other => panic!("unknown time quality {other}"),
    }
}

pub fn native_times(tier: &str) -> Vec<Option<Time>> {
    let mut out = vec![None];
    let instants: &[u64] = if tier == "quick" { &INSTANTS[..4] } else { &INSTANTS };
    for &t in instants {
        out.push(Some(Time::Synchronized(Timestamp::new(t))));
        out.push(Some(Time::Unsynchronized(Timestamp::new(t))));
    }
    out
}

pub fn time_text(t: Option<Time>) -> String {
    match t {
        None => "invalidtime:0".to_string(),
        Some(Time::Synchronized(x)) => format!("synchronizedtime:{}", x.raw_value()),
        Some(Time::Unsynchronized(x)) => format!("unsynchronizedtime:{}", x.raw_value()),
    }
}

pub fn ffi_time_text(t: &ffi::Timestamp) -> String {
    format!("{}:{}", crate::cases::name_of::<ffi::TimeQuality>(t.quality), t.value)
}

pub const ANALOGS: [f64; 14] = [
    0.0,
    -0.0,
    1.0,
    -1.5,
    32767.0,
    -32768.0,
    2147483647.0,
    -2147483648.0,
    3.4028234663852886e38,
    f64::MAX,
    f64::MIN_POSITIVE,
    f64::INFINITY,
    f64::NEG_INFINITY,
    f64::NAN,
];
pub const COUNTS: [u32; 6] = [0, 1, 0xFFFF, 0x1_0000, 0x7FFF_FFFF, u32::MAX];

fn flags_menu(tier: &str) -> Vec<u8> {
    if tier == "quick" {
        vec![0x00, 0x01, 0x02, 0x04, 0x08, 0x10, 0x20, 0x40, 0x80, 0x41, 0x81, 0xC1, 0xFF]
    } else {
        (0..=255u8).collect()
    }
}

macro_rules! meas_f2n {
    ($v:ident, $tier:ident, $F:ident, $N:ident, $vals:expr, $to_ffi:expr, $to_native:expr) => {{
        for val in $vals {
            for fl in flags_menu($tier) {
                for t in ffi_times($tier) {
                    for idx in [0u16, 65535] {
                        let val = val.clone();
                        let t = t.clone();
                        $v.push(Case {
                            clause: "C20.S1",
                            conv: format!("impl From<ffi::{}> for {}", stringify!($F), stringify!($N)),
                            input: format!("index={idx} value={:?} flags={fl:#04x} time={}", val, ffi_time_text(&t)),
                            run: Box::new(move || {
                                let f = ffi::$F { index: idx, value: ($to_ffi)(val.clone()), flags: ffi::Flags { value: fl }, time: t.clone() };
                                let n: $N = f.into();
                                let want = $N { value: ($to_native)(val.clone()), flags: Flags { value: fl }, time: native_time(&t) };
                                Outcome { got: dbg(&n), want: dbg(&want) }
                            }),
                        });
                    }
                }
            }
        }
    }};
}

/// (ffi static variation enum, ffi event variation enum, native config type): every pair of
/// variations (x dead-band menu where present) must arrive as the like-named native pair
macro_rules! config_f2n {
    ($v:ident, $F:ident, $N:ident, $SV:ident, $EV:ident) => {{
        for s in variants::<ffi::$SV>() {
            for e in variants::<ffi::$EV>() {
                $v.push(Case {
                    clause: "C20.S2",
                    conv: format!("impl From<ffi::{}> for {}", stringify!($F), stringify!($N)),
                    input: format!("static={s:?} event={e:?}"),
                    run: Box::new(move || {
                        let f = ffi::$F { static_variation: s.into(), event_variation: e.into() };
                        let n: $N = f.into();
                        Outcome { got: format!("{}/{}", norm(&dbg(&n.s_var)), norm(&dbg(&n.e_var))), want: format!("{}/{}", norm(&dbg(&s)), norm(&dbg(&e))) }
                    }),
                });
            }
        }
    }};
    ($v:ident, $F:ident, $N:ident, $SV:ident, $EV:ident, $dbs:expr) => {{
        for s in variants::<ffi::$SV>() {
            for e in variants::<ffi::$EV>() {
                for d in $dbs {
                    $v.push(Case {
                        clause: "C20.S2",
                        conv: format!("impl From<ffi::{}> for {}", stringify!($F), stringify!($N)),
                        input: format!("static={s:?} event={e:?} deadband={d:?}"),
                        run: Box::new(move || {
                            let f = ffi::$F { static_variation: s.into(), event_variation: e.into(), deadband: d };
                            let n: $N = f.into();
                            Outcome {
                                got: format!("{}/{}/{:?}", norm(&dbg(&n.s_var)), norm(&dbg(&n.e_var)), n.deadband),
                                want: format!("{}/{}/{:?}", norm(&dbg(&s)), norm(&dbg(&e)), d),
                            }
                        }),
                    });
                }
            }
        }
    }};
}

fn bits(n: usize, k: u32) -> bool {
    (n >> k) & 1 == 1
}

pub fn value_cases(tier: &str) -> Vec<Case> {
    let mut v: Vec<Case> = Vec::new();

    // ---- measurements, ffi -> native ---------------------------------------------------
    meas_f2n!(v, tier, BinaryInput, BinaryInput, [false, true], |x: bool| x, |x: bool| x);
    meas_f2n!(v, tier, BinaryOutputStatus, BinaryOutputStatus, [false, true], |x: bool| x, |x: bool| x);
    meas_f2n!(v, tier, Counter, Counter, COUNTS, |x: u32| x, |x: u32| x);
    meas_f2n!(v, tier, FrozenCounter, FrozenCounter, COUNTS, |x: u32| x, |x: u32| x);
    meas_f2n!(v, tier, AnalogInput, AnalogInput, ANALOGS, |x: f64| x, |x: f64| x);
    meas_f2n!(v, tier, AnalogOutputStatus, AnalogOutputStatus, ANALOGS, |x: f64| x, |x: f64| x);
    for d in variants::<ffi::DoubleBit>() {
        for fl in flags_menu(tier) {
            for t in ffi_times(tier) {
                v.push(Case {
                    clause: "C20.S1",
                    conv: "impl From<ffi::DoubleBitBinaryInput> for DoubleBitBinaryInput".into(),
                    input: format!("value={d:?} flags={fl:#04x} time={}", ffi_time_text(&t)),
                    run: Box::new(move || {
                        let f = ffi::DoubleBitBinaryInput { index: 3, value: d.into(), flags: ffi::Flags { value: fl }, time: t.clone() };
                        let n: DoubleBitBinaryInput = f.into();
                        Outcome {
                            got: format!("{}/{:#04x}/{}", norm(&dbg(&n.value)), n.flags.value, time_text(n.time)),
                            want: format!("{}/{:#04x}/{}", norm(&dbg(&d)), fl, time_text(native_time(&t))),
                        }
                    }),
                });
            }
        }
    }
    // flags and time stamps on their own, both directions
    for fl in 0..=255u8 {
        v.push(Case {
            clause: "C20.S1",
            conv: "impl From<&ffi::Flags> for Flags".into(),
            input: format!("{fl:#04x}"),
            run: Box::new(move || {
                let n: Flags = (&ffi::Flags { value: fl }).into();
                Outcome { got: format!("{:#04x}", n.value), want: format!("{fl:#04x}") }
            }),
        });
        v.push(Case {
            clause: "C20.S1",
            conv: "impl From<Flags> for ffi::Flags".into(),
            input: format!("{fl:#04x}"),
            run: Box::new(move || {
                let f: ffi::Flags = Flags { value: fl }.into();
                Outcome { got: format!("{:#04x}", f.value), want: format!("{fl:#04x}") }
            }),
        });
    }
    for t in ffi_times("thorough") {
        v.push(Case {
            clause: "C20.S1",
            conv: "impl From<&ffi::Timestamp> for Option<Time>".into(),
            input: ffi_time_text(&t),
            run: Box::new(move || {
                let n: Option<Time> = (&t).into();
                // the native instant is 48 bits wide by construction (Timestamp::new masks)
                Outcome { got: time_text(n), want: time_text(native_time(&t)) }
            }),
        });
    }
    for t in native_times("thorough") {
        v.push(Case {
            clause: "C20.S1",
            conv: "impl From<Option<Time>> for ffi::Timestamp".into(),
            input: time_text(t),
            run: Box::new(move || {
                let f: ffi::Timestamp = t.into();
                Outcome { got: ffi_time_text(&f), want: time_text(t) }
            }),
        });
    }
    for valid in [false, true] {
        for &t in &INSTANTS {
            v.push(Case {
                clause: "C20.S1",
                conv: "impl From<ffi::UtcTimestamp> for Option<Timestamp>".into(),
                input: format!("value={t} is_valid={valid}"),
                run: Box::new(move || {
                    let n: Option<Timestamp> = ffi::UtcTimestamp { value: t, is_valid: valid }.into();
                    Outcome { got: dbg(&n.map(|x| x.raw_value())), want: dbg(&if valid { Some(Timestamp::new(t).raw_value()) } else { None }) }
                }),
            });
        }
    }

    // ---- update options ------------------------------------------------------------------
    for us in [false, true] {
        for m in variants::<ffi::EventMode>() {
            v.push(Case {
                clause: "C20.S2",
                conv: "impl From<ffi::UpdateOptions> for UpdateOptions".into(),
                input: format!("update_static={us} event_mode={m:?}"),
                run: Box::new(move || {
                    let n: UpdateOptions = ffi::UpdateOptions { update_static: us, event_mode: m.into() }.into();
                    let mode = match norm(&dbg(&m)).as_str() {
                        "detect" => EventMode::Detect,
                        "force" => EventMode::Force,
                        "suppress" => EventMode::Suppress,
                        o => panic!("unknown event mode {o}"),
                    };
                    Outcome { got: dbg(&n), want: dbg(&UpdateOptions::new(us, mode)) }
                }),
            });
        }
    }

    // ---- point configurations --------------------------------------------------------------
    config_f2n!(v, BinaryInputConfig, BinaryInputConfig, StaticBinaryInputVariation, EventBinaryInputVariation);
    config_f2n!(v, DoubleBitBinaryInputConfig, DoubleBitBinaryInputConfig, StaticDoubleBitBinaryInputVariation, EventDoubleBitBinaryInputVariation);
    config_f2n!(v, BinaryOutputStatusConfig, BinaryOutputStatusConfig, StaticBinaryOutputStatusVariation, EventBinaryOutputStatusVariation);
    config_f2n!(v, CounterConfig, CounterConfig, StaticCounterVariation, EventCounterVariation, [0u32, 1, 0xFFFF, u32::MAX]);
    config_f2n!(v, FrozenCounterConfig, FrozenCounterConfig, StaticFrozenCounterVariation, EventFrozenCounterVariation, [0u32, 1, 0xFFFF, u32::MAX]);
    config_f2n!(v, AnalogInputConfig, AnalogInputConfig, StaticAnalogInputVariation, EventAnalogInputVariation, [0.0f64, 0.5, 1e9, f64::MAX]);
    config_f2n!(
        v,
        AnalogOutputStatusConfig,
        AnalogOutputStatusConfig,
        StaticAnalogOutputStatusVariation,
        EventAnalogOutputStatusVariation,
        [0.0f64, 0.5, 1e9, f64::MAX]
    );

    // ---- event buffer / class zero / features / application IIN ------------------------------
    // each field gets a distinct value so that a swap of two fields shows
    for rot in 0..8u16 {
        let vals: Vec<u16> = (0..8u16).map(|i| 10 + ((i + rot) % 8) * 7 + if i == rot { 60000 } else { 0 }).collect();
        let vv = vals.clone();
        v.push(Case {
            clause: "C20.S2",
            conv: "impl From<&ffi::EventBufferConfig> for EventBufferConfig".into(),
            input: format!("{vals:?}"),
            run: Box::new(move || {
                let f = ffi::EventBufferConfig {
                    max_binary: vv[0],
                    max_double_bit_binary: vv[1],
                    max_binary_output_status: vv[2],
                    max_counter: vv[3],
                    max_frozen_counter: vv[4],
                    max_analog: vv[5],
                    max_analog_output_status: vv[6],
                    max_octet_string: vv[7],
                };
                let n: EventBufferConfig = (&f).into();
                Outcome { got: dbg(&n), want: dbg(&EventBufferConfig::new(vv[0], vv[1], vv[2], vv[3], vv[4], vv[5], vv[6], vv[7])) }
            }),
        });
        let vv = vals.clone();
        v.push(Case {
            clause: "C20.S2",
            conv: "impl From<EventBufferConfig> for ffi::EventBufferConfig".into(),
            input: format!("{vals:?}"),
            run: Box::new(move || {
                let f: ffi::EventBufferConfig = EventBufferConfig::new(vv[0], vv[1], vv[2], vv[3], vv[4], vv[5], vv[6], vv[7]).into();
                let got = vec![
                    f.max_binary,
                    f.max_double_bit_binary,
                    f.max_binary_output_status,
                    f.max_counter,
                    f.max_frozen_counter,
                    f.max_analog,
                    f.max_analog_output_status,
                    f.max_octet_string,
                ];
                Outcome { got: dbg(&got), want: dbg(&vv) }
            }),
        });
    }
    for n in 0..256usize {
        v.push(Case {
            clause: "C20.S2",
            conv: "impl From<ffi::ClassZeroConfig> for ClassZeroConfig".into(),
            input: format!("{n:#010b}"),
            run: Box::new(move || {
                let f = ffi::ClassZeroConfig {
                    binary: bits(n, 0),
                    double_bit_binary: bits(n, 1),
                    binary_output_status: bits(n, 2),
                    counter: bits(n, 3),
                    frozen_counter: bits(n, 4),
                    analog: bits(n, 5),
                    analog_output_status: bits(n, 6),
                    octet_string: bits(n, 7),
                };
                let c: ClassZeroConfig = f.into();
                let want = ClassZeroConfig::new(bits(n, 0), bits(n, 1), bits(n, 2), bits(n, 3), bits(n, 4), bits(n, 5), bits(n, 6), bits(n, 7));
                Outcome { got: dbg(&c), want: dbg(&want) }
            }),
        });
    }
    for n in 0..16usize {
        v.push(Case {
            clause: "C20.S2",
            conv: "impl From<&ffi::OutstationFeatures> for Features".into(),
            input: format!("{n:#06b}"),
            run: Box::new(move || {
                let f = ffi::OutstationFeatures { self_address: bits(n, 0), broadcast: bits(n, 1), unsolicited: bits(n, 2), respond_to_any_master: bits(n, 3) };
                let x: Features = (&f).into();
                let ft = |b: bool| if b { "Enabled" } else { "Disabled" };
                Outcome {
                    got: format!("{:?}/{:?}/{:?}/{:?}", x.self_address, x.broadcast, x.unsolicited, x.respond_to_any_master),
                    want: format!("{}/{}/{}/{}", ft(bits(n, 0)), ft(bits(n, 1)), ft(bits(n, 2)), ft(bits(n, 3))),
                }
            }),
        });
        v.push(Case {
            clause: "C20.S2",
            conv: "impl From<ffi::ApplicationIin> for ApplicationIin".into(),
            input: format!("{n:#06b}"),
            run: Box::new(move || {
                let f = ffi::ApplicationIin { need_time: bits(n, 0), local_control: bits(n, 1), device_trouble: bits(n, 2), config_corrupt: bits(n, 3) };
                let x: ApplicationIin = f.into();
                Outcome {
                    got: format!("{}/{}/{}/{}", x.need_time, x.local_control, x.device_trouble, x.config_corrupt),
                    want: format!("{}/{}/{}/{}", bits(n, 0), bits(n, 1), bits(n, 2), bits(n, 3)),
                }
            }),
        });
    }

    // ---- restart delay, both directions --------------------------------------------------------
    for ty in variants::<ffi::RestartDelayType>() {
        for val in [0u16, 1, 1000, 65535] {
            v.push(Case {
                clause: "C20.S2",
                conv: "impl From<ffi::RestartDelay> for Option<RestartDelay>".into(),
                input: format!("{ty:?} {val}"),
                run: Box::new(move || {
                    let n: Option<RestartDelay> = ffi::RestartDelay { restart_type: ty.into(), value: val }.into();
                    let want = match norm(&dbg(&ty)).as_str() {
                        "notsupported" => "None".to_string(),
                        "seconds" => format!("Some(Seconds({val}))"),
                        "milliseconds" => format!("Some(Milliseconds({val}))"),
                        o => panic!("unknown restart delay type {o}"),
                    };
                    Outcome { got: dbg(&n), want }
                }),
            });
        }
    }
    for val in [0u16, 1, 1000, 65535] {
        for (n, name) in [(None, "notsupported"), (Some(RestartDelay::Seconds(val)), "seconds"), (Some(RestartDelay::Milliseconds(val)), "milliseconds")] {
            v.push(Case {
                clause: "C20.S2",
                conv: "impl From<Option<RestartDelay>> for ffi::RestartDelay".into(),
                input: dbg(&n),
                run: Box::new(move || {
                    let f: ffi::RestartDelay = n.into();
                    Outcome {
                        got: format!("{}:{}", crate::cases::name_of::<ffi::RestartDelayType>(f.restart_type), f.value),
                        want: format!("{name}:{}", if n.is_some() { val } else { 0 }),
                    }
                }),
            });
        }
    }

    // ---- control codes: every octet, both directions -----------------------------------------------
    for x in 0..=255u8 {
        v.push(Case {
            clause: "C20.S3",
            conv: "impl From<ControlCode> for ffi::ControlCode".into(),
            input: format!("{x:#04x}"),
            run: Box::new(move || {
                let n = dnp3::verif::seams::control_code_from(x);
                let f: ffi::ControlCode = n.into();
                let tcc = if dbg(&n.tcc).starts_with("Unknown") { "nul".to_string() } else { norm(&dbg(&n.tcc)) };
                let op = if dbg(&n.op_type).starts_with("Unknown") { "nul".to_string() } else { norm(&dbg(&n.op_type)) };
                Outcome {
                    got: format!("{}/{}/{}/{}", crate::cases::name_of::<ffi::TripCloseCode>(f.tcc), f.clear, f.queue, crate::cases::name_of::<ffi::OpType>(f.op_type)),
                    want: format!("{}/{}/{}/{}", tcc, n.clear, n.queue, op),
                }
            }),
        });
    }
    for tcc in variants::<ffi::TripCloseCode>() {
        for op in variants::<ffi::OpType>() {
            for n in 0..4usize {
                v.push(Case {
                    clause: "C20.S3",
                    conv: "impl From<ffi::ControlCode> for ControlCode".into(),
                    input: format!("{tcc:?}/{}/{}/{op:?}", bits(n, 0), bits(n, 1)),
                    run: Box::new(move || {
                        let f = ffi::ControlCode { tcc: tcc.into(), clear: bits(n, 0), queue: bits(n, 1), op_type: op.into() };
                        let c: ControlCode = f.into();
                        Outcome {
                            got: format!("{}/{}/{}/{}", norm(&dbg(&c.tcc)), c.clear, c.queue, norm(&dbg(&c.op_type))),
                            want: format!("{}/{}/{}/{}", norm(&dbg(&tcc)), bits(n, 0), bits(n, 1), norm(&dbg(&op))),
                        }
                    }),
                });
                for (count, on, off) in [(0u8, 0u32, u32::MAX), (1, 1000, 2000), (255, u32::MAX, 0)] {
                    v.push(Case {
                        clause: "C20.S3",
                        conv: "impl From<ffi::Group12Var1> for Group12Var1".into(),
                        input: format!("{tcc:?}/{}/{}/{op:?} count={count} on={on} off={off}", bits(n, 0), bits(n, 1)),
                        run: Box::new(move || {
                            let f = ffi::Group12Var1 {
                                code: ffi::ControlCode { tcc: tcc.into(), clear: bits(n, 0), queue: bits(n, 1), op_type: op.into() },
                                count,
                                on_time: on,
                                off_time: off,
                            };
                            let c: Group12Var1 = f.into();
                            Outcome {
                                got: format!(
                                    "{}/{}/{}/{} count={} on={} off={} status={:?}",
                                    norm(&dbg(&c.code.tcc)),
                                    c.code.clear,
                                    c.code.queue,
                                    norm(&dbg(&c.code.op_type)),
                                    c.count,
                                    c.on_time,
                                    c.off_time,
                                    c.status
                                ),
                                want: format!(
                                    "{}/{}/{}/{} count={count} on={on} off={off} status=Success",
                                    norm(&dbg(&tcc)),
                                    bits(n, 0),
                                    bits(n, 1),
                                    norm(&dbg(&op))
                                ),
                            }
                        }),
                    });
                }
            }
        }
    }
    for x in [0x00u8, 0x01, 0x03, 0x04, 0x41, 0x81, 0xC3, 0xFF] {
        for (count, on, off) in [(0u8, 0u32, u32::MAX), (1, 1000, 2000), (255, u32::MAX, 0)] {
            v.push(Case {
                clause: "C20.S3",
                conv: "impl From<Group12Var1> for ffi::Group12Var1".into(),
                input: format!("code={x:#04x} count={count} on={on} off={off}"),
                run: Box::new(move || {
                    let code = dnp3::verif::seams::control_code_from(x);
                    let f: ffi::Group12Var1 = Group12Var1::new(code, count, on, off).into();
                    let c2: ffi::ControlCode = code.into();
                    Outcome {
                        got: format!("{}/{}/{}/{} count={} on={} off={}", f.code.tcc, f.code.clear, f.code.queue, f.code.op_type, f.count, f.on_time, f.off_time),
                        want: format!("{}/{}/{}/{} count={count} on={on} off={off}", c2.tcc, c2.clear, c2.queue, c2.op_type),
                    }
                }),
            });
        }
    }

    // ---- decode levels, both directions: every combination -------------------------------------------
    for a in variants::<ffi::AppDecodeLevel>() {
        for t in variants::<ffi::TransportDecodeLevel>() {
            for l in variants::<ffi::LinkDecodeLevel>() {
                for p in variants::<ffi::PhysDecodeLevel>() {
                    v.push(Case {
                        clause: "C20.S2",
                        conv: "impl From<ffi::DecodeLevel> for DecodeLevel (and back)".into(),
                        input: format!("{a:?}/{t:?}/{l:?}/{p:?}"),
                        run: Box::new(move || {
                            let f = ffi::DecodeLevel { application: a.into(), transport: t.into(), link: l.into(), physical: p.into() };
                            let n: DecodeLevel = f.into();
                            let back: ffi::DecodeLevel = n.into();
                            Outcome {
                                got: format!(
                                    "{:?}/{:?}/{:?}/{:?} back={}/{}/{}/{}",
                                    n.application, n.transport, n.link, n.physical, back.application, back.transport, back.link, back.physical
                                ),
                                want: format!(
                                    "{a:?}/{t:?}/{l:?}/{p:?} back={}/{}/{}/{}",
                                    c_int::from(a),
                                    c_int::from(t),
                                    c_int::from(l),
                                    c_int::from(p)
                                ),
                            }
                        }),
                    });
                }
            }
        }
    }

    // ---- file permissions, both directions: all 512 combinations -----------------------------------------
    for n in 0..512usize {
        let set = move |k: u32| (bits(n, k), bits(n, k + 1), bits(n, k + 2));
        v.push(Case {
            clause: "C20.S2",
            conv: "impl From<ffi::Permissions> for Permissions".into(),
            input: format!("{n:#011b}"),
            run: Box::new(move || {
                let ps = |(e, w, r): (bool, bool, bool)| ffi::PermissionSet { execute: e, write: w, read: r };
                let f = ffi::Permissions { world: ps(set(0)), group: ps(set(3)), owner: ps(set(6)) };
                let p: Permissions = f.into();
                let t = |s: &PermissionSet| (s.execute, s.write, s.read);
                Outcome { got: dbg(&(t(&p.world), t(&p.group), t(&p.owner))), want: dbg(&(set(0), set(3), set(6))) }
            }),
        });
        v.push(Case {
            clause: "C20.S2",
            conv: "impl From<Permissions> for ffi::Permissions".into(),
            input: format!("{n:#011b}"),
            run: Box::new(move || {
                let ps = |(e, w, r): (bool, bool, bool)| PermissionSet { execute: e, write: w, read: r };
                let p = Permissions { world: ps(set(0)), group: ps(set(3)), owner: ps(set(6)) };
                let f: ffi::Permissions = p.into();
                let t = |s: &ffi::PermissionSet| (s.execute, s.write, s.read);
                Outcome { got: dbg(&(t(&f.world), t(&f.group), t(&f.owner))), want: dbg(&(set(0), set(3), set(6))) }
            }),
        });
    }

    // ---- IIN octets, control fields and headers -------------------------------------------------------------
    for x in 0..=255u8 {
        v.push(Case {
            clause: "C20.S4",
            conv: "impl From<Iin1> for ffi::Iin1".into(),
            input: format!("{x:#04x}"),
            run: Box::new(move || {
                let f: ffi::Iin1 = Iin1::new(x).into();
                let got = [f.broadcast, f.class_1_events, f.class_2_events, f.class_3_events, f.need_time, f.local_control, f.device_trouble, f.device_restart];
                let want: Vec<bool> = (0..8).map(|k| (x >> k) & 1 == 1).collect();
                Outcome { got: dbg(&got), want: dbg(&want) }
            }),
        });
        v.push(Case {
            clause: "C20.S4",
            conv: "impl From<Iin2> for ffi::Iin2".into(),
            input: format!("{x:#04x}"),
            run: Box::new(move || {
                let f: ffi::Iin2 = Iin2::new(x).into();
                let got = [
                    f.no_func_code_support,
                    f.object_unknown,
                    f.parameter_error,
                    f.event_buffer_overflow,
                    f.already_executing,
                    f.config_corrupt,
                    f.reserved_2,
                    f.reserved_1,
                ];
                let want: Vec<bool> = (0..8).map(|k| (x >> k) & 1 == 1).collect();
                Outcome { got: dbg(&got), want: dbg(&want) }
            }),
        });
        v.push(Case {
            clause: "C20.S4",
            conv: "impl From<ControlField> for ffi::ControlField".into(),
            input: format!("{x:#04x}"),
            run: Box::new(move || {
                let c = dnp3::verif::seams::control_field(x);
                let f: ffi::ControlField = c.into();
                Outcome {
                    got: format!("{}/{}/{}/{}/{}", f.fir, f.fin, f.con, f.uns, f.seq),
                    want: format!("{}/{}/{}/{}/{}", x & 0x80 != 0, x & 0x40 != 0, x & 0x20 != 0, x & 0x10 != 0, x & 0x0F),
                }
            }),
        });
    }
    for fc in (0..=255u8).filter_map(FunctionCode::from) {
        for x in [0xC0u8, 0x3F, 0xA5] {
            v.push(Case {
                clause: "C20.S4",
                conv: "impl From<RequestHeader> for ffi::RequestHeader".into(),
                input: format!("control={x:#04x} function={fc:?}"),
                run: Box::new(move || {
                    let f: ffi::RequestHeader = RequestHeader { control: dnp3::verif::seams::control_field(x), function: fc }.into();
                    Outcome {
                        got: format!(
                            "{}/{}/{}/{}/{} {}",
                            f.control_field.fir,
                            f.control_field.fin,
                            f.control_field.con,
                            f.control_field.uns,
                            f.control_field.seq,
                            crate::cases::name_of::<ffi::FunctionCode>(f.function)
                        ),
                        want: format!("{}/{}/{}/{}/{} {}", x & 0x80 != 0, x & 0x40 != 0, x & 0x20 != 0, x & 0x10 != 0, x & 0x0F, norm(&dbg(&fc))),
                    }
                }),
            });
        }
    }

    // ---- update info ---------------------------------------------------------------------------------------------
    for (n, want) in [
        (UpdateInfo::NoPoint, "nopoint/0/0".to_string()),
        (UpdateInfo::NoEvent, "noevent/0/0".to_string()),
        (UpdateInfo::Created(0), "created/0/0".to_string()),
        (UpdateInfo::Created(u64::MAX), format!("created/{}/0", u64::MAX)),
        (UpdateInfo::Overflow { created: 7, discarded: 3 }, "overflow/7/3".to_string()),
        (UpdateInfo::Overflow { created: u64::MAX, discarded: u64::MAX - 1 }, format!("overflow/{}/{}", u64::MAX, u64::MAX - 1)),
    ] {
        v.push(Case {
            clause: "C20.S2",
            conv: "impl From<UpdateInfo> for ffi::UpdateInfo".into(),
            input: dbg(&n),
            run: Box::new(move || {
                let f: ffi::UpdateInfo = n.into();
                Outcome { got: format!("{}/{}/{}", crate::cases::name_of::<ffi::UpdateResult>(f.result), f.created, f.discarded), want: want.clone() }
            }),
        });
    }

    // ---- buffer state ------------------------------------------------------------------------------------------------
    for rot in 0..11usize {
        let vals: Vec<usize> = (0..11usize).map(|i| 3 + ((i + rot) % 11) * 5 + if i == rot { 4_000_000_000 } else { 0 }).collect();
        let vv = vals.clone();
        v.push(Case {
            clause: "C20.S2",
            conv: "impl From<BufferState> for ffi::BufferState".into(),
            input: format!("{vals:?}"),
            run: Box::new(move || {
                let n = BufferState {
                    classes: ClassCount { num_class_1: vv[0], num_class_2: vv[1], num_class_3: vv[2] },
                    types: TypeCount {
                        num_binary_input: vv[3],
                        num_double_bit_binary_input: vv[4],
                        num_binary_output_status: vv[5],
                        num_counter: vv[6],
                        num_frozen_counter: vv[7],
                        num_analog: vv[8],
                        num_analog_output_status: vv[9],
                        num_octet_string: vv[10],
                    },
                };
                let f: ffi::BufferState = n.into();
                let got = vec![
                    f.classes.num_class_1,
                    f.classes.num_class_2,
                    f.classes.num_class_3,
                    f.types.num_binary_input,
                    f.types.num_double_bit_binary_input,
                    f.types.num_binary_output_status,
                    f.types.num_counter,
                    f.types.num_frozen_counter,
                    f.types.num_analog,
                    f.types.num_analog_output_status,
                    f.types.num_octet_string,
                ];
                let want: Vec<u32> = vv.iter().map(|x| *x as u32).collect();
                Outcome { got: dbg(&got), want: dbg(&want) }
            }),
        });
    }

    // ---- master-side configuration structs -------------------------------------------------------------------------------
    for (bs, fs) in [(0u16, 0u32), (1, 1), (2048, 1 << 20), (u16::MAX, u32::MAX)] {
        v.push(Case {
            clause: "C20.S2",
            conv: "impl From<ffi::FileReadConfig> for FileReadConfig".into(),
            input: format!("max_block_size={bs} max_file_size={fs}"),
            run: Box::new(move || {
                let n: FileReadConfig = ffi::FileReadConfig { max_block_size: bs, max_file_size: fs }.into();
                Outcome { got: format!("{}/{}", n.max_block_size, n.max_file_size), want: format!("{bs}/{fs}") }
            }),
        });
        v.push(Case {
            clause: "C20.S2",
            conv: "impl From<ffi::DirReadConfig> for DirReadConfig".into(),
            input: format!("max_block_size={bs} max_file_size={fs}"),
            run: Box::new(move || {
                let n: DirReadConfig = ffi::DirReadConfig { max_block_size: bs, max_file_size: fs }.into();
                Outcome { got: format!("{}/{}", n.max_block_size, n.max_file_size), want: format!("{bs}/{fs}") }
            }),
        });
    }
    for (a, b, c) in [(1u64, 2u64, 3u64), (1000, 10_000, 5000), (0, u32::MAX as u64, 7)] {
        v.push(Case {
            clause: "C20.S2",
            conv: "impl From<ffi::ConnectStrategy> for ConnectStrategy".into(),
            input: format!("min={a}ms max={b}ms reconnect={c}ms"),
            run: Box::new(move || {
                let f = ffi::ConnectStrategy { min_connect_delay: a, max_connect_delay: b, reconnect_delay: c };
                let n: ConnectStrategy = f.into();
                let want = ConnectStrategy::new(Duration::from_millis(a), Duration::from_millis(b), Duration::from_millis(c));
                Outcome { got: dbg(&n), want: dbg(&want) }
            }),
        });
        v.push(Case {
            clause: "C20.S2",
            conv: "impl From<ffi::RetryStrategy> for RetryStrategy".into(),
            input: format!("min={a}ms max={b}ms"),
            run: Box::new(move || {
                let f = ffi::RetryStrategy { min_delay: a, max_delay: b };
                let n: RetryStrategy = f.into();
                let want = RetryStrategy::new(Duration::from_millis(a), Duration::from_millis(b));
                Outcome { got: dbg(&n), want: dbg(&want) }
            }),
        });
    }
    for db in variants::<ffi::DataBits>() {
        for fc in variants::<ffi::FlowControl>() {
            for pa in variants::<ffi::Parity>() {
                for sb in variants::<ffi::StopBits>() {
                    v.push(Case {
                        clause: "C20.S2",
                        conv: "impl From<ffi::SerialSettings> for SerialSettings".into(),
                        input: format!("{db:?}/{fc:?}/{pa:?}/{sb:?}"),
                        run: Box::new(move || {
                            let f = ffi::SerialSettings { baud_rate: 19200, data_bits: db.into(), flow_control: fc.into(), parity: pa.into(), stop_bits: sb.into() };
                            let n: dnp3::serial::SerialSettings = f.into();
                            Outcome {
                                got: format!("{}/{:?}/{:?}/{:?}/{:?}", n.baud_rate, n.data_bits, n.flow_control, n.parity, n.stop_bits),
                                want: format!("19200/{db:?}/{fc:?}/{pa:?}/{sb:?}"),
                            }
                        }),
                    });
                }
            }
        }
    }

    // ---- outstation configuration (hook H7: the conversion is a private function) -------------------------
    {
        #[derive(Clone, Copy)]
        struct P {
            oa: u16,
            ma: u16,
            sol: u16,
            uns: u16,
            rx: u16,
            confirm: u64,
            select: u64,
            feat: usize,
            retries: u32,
            retry_delay: u64,
            keep_alive: u64,
            read_headers: u16,
            controls: u16,
            cz: usize,
            ev: usize,
        }
        let base = P { oa: 1024, ma: 1, sol: 2048, uns: 2048, rx: 2048, confirm: 5000, select: 5000, feat: 0b0110, retries: 5, retry_delay: 5000, keep_alive: 60_000, read_headers: 64, controls: 8, cz: 0xFF, ev: 0 };
        let mut ps: Vec<(String, P)> = vec![("base".into(), base)];
        for x in [0u16, 1, 0xFFEF, 0xFFF0, 0xFFFF] {
            ps.push((format!("outstation_address={x}"), P { oa: x, ..base }));
            ps.push((format!("master_address={x}"), P { ma: x, ..base }));
        }
        for x in [248u16, 249, 250, 2047, 2048, 2049, 65535] {
            ps.push((format!("solicited_buffer_size={x}"), P { sol: x, ..base }));
            ps.push((format!("unsolicited_buffer_size={x}"), P { uns: x, ..base }));
            ps.push((format!("rx_buffer_size={x}"), P { rx: x, ..base }));
        }
        for x in [0u64, 1, 999, 1000, 3_600_000, 3_600_001] {
            ps.push((format!("confirm_timeout={x}ms"), P { confirm: x, ..base }));
            ps.push((format!("select_timeout={x}ms"), P { select: x, ..base }));
        }
        for x in 0..16usize {
            ps.push((format!("features={x:04b}"), P { feat: x, ..base }));
        }
        for x in [0u32, 1, 65535, u32::MAX] {
            ps.push((format!("max_unsolicited_retries={x}"), P { retries: x, ..base }));
        }
        for x in [0u64, 1, 999, 1000, 1001, 1500, 60_000, u32::MAX as u64] {
            ps.push((format!("unsolicited_retry_delay={x}ms"), P { retry_delay: x, ..base }));
            ps.push((format!("keep_alive_timeout={x}ms"), P { keep_alive: x, ..base }));
        }
        for x in [0u16, 1, 64, 65, 65535] {
            ps.push((format!("max_read_request_headers={x}"), P { read_headers: x, ..base }));
            ps.push((format!("max_controls_per_request={x}"), P { controls: x, ..base }));
        }
        for k in 0..8usize {
            ps.push((format!("class_zero without type {k}"), P { cz: 0xFF & !(1 << k), ..base }));
            ps.push((format!("class_zero only type {k}"), P { cz: 1 << k, ..base }));
            ps.push((format!("event buffer rotation {k}"), P { ev: k + 1, ..base }));
        }
        for (label, p) in ps {
            v.push(Case {
                clause: "C20.S3",
                conv: "fn convert_outstation_config(ffi::OutstationConfig) (hook H7)".into(),
                input: label,
                run: Box::new(move || {
                    let evs: [u16; 8] = std::array::from_fn(|i| if p.ev == 0 { 5 } else { [1u16, 2, 3, 4, 5, 6, 7, 8][(i + p.ev) % 8] });
                    let f = ffi::OutstationConfig {
                        outstation_address: p.oa,
                        master_address: p.ma,
                        event_buffer_config: ffi::EventBufferConfig {
                            max_binary: evs[0],
                            max_double_bit_binary: evs[1],
                            max_binary_output_status: evs[2],
                            max_counter: evs[3],
                            max_frozen_counter: evs[4],
                            max_analog: evs[5],
                            max_analog_output_status: evs[6],
                            max_octet_string: evs[7],
                        },
                        solicited_buffer_size: p.sol,
                        unsolicited_buffer_size: p.uns,
                        rx_buffer_size: p.rx,
                        decode_level: ffi::DecodeLevel {
                            application: ffi::AppDecodeLevel::ObjectValues.into(),
                            transport: ffi::TransportDecodeLevel::Header.into(),
                            link: ffi::LinkDecodeLevel::Payload.into(),
                            physical: ffi::PhysDecodeLevel::Length.into(),
                        },
                        confirm_timeout: p.confirm,
                        select_timeout: p.select,
                        features: ffi::OutstationFeatures { self_address: bits(p.feat, 0), broadcast: bits(p.feat, 1), unsolicited: bits(p.feat, 2), respond_to_any_master: bits(p.feat, 3) },
                        max_unsolicited_retries: p.retries,
                        unsolicited_retry_delay: p.retry_delay,
                        keep_alive_timeout: p.keep_alive,
                        max_read_request_headers: p.read_headers,
                        max_controls_per_request: p.controls,
                        class_zero: ffi::ClassZeroConfig {
                            binary: bits(p.cz, 0),
                            double_bit_binary: bits(p.cz, 1),
                            binary_output_status: bits(p.cz, 2),
                            counter: bits(p.cz, 3),
                            frozen_counter: bits(p.cz, 4),
                            analog: bits(p.cz, 5),
                            analog_output_status: bits(p.cz, 6),
                            octet_string: bits(p.cz, 7),
                        },
                    };
                    let got = match dnp3_ffi::verif_convert_outstation_config(f) {
                        Ok(n) => dbg(&n),
                        Err(_) => "Err".to_string(),
                    };
                    let feature = |b: bool| if b { Feature::Enabled } else { Feature::Disabled };
                    let native = (|| -> Option<OutstationConfig> {
                        let mut n = OutstationConfig::new(
                            EndpointAddress::try_new(p.oa).ok()?,
                            EndpointAddress::try_new(p.ma).ok()?,
                            EventBufferConfig::new(evs[0], evs[1], evs[2], evs[3], evs[4], evs[5], evs[6], evs[7]),
                        );
                        n.solicited_buffer_size = BufferSize::new(p.sol as usize).ok()?;
                        n.unsolicited_buffer_size = BufferSize::new(p.uns as usize).ok()?;
                        n.rx_buffer_size = BufferSize::new(p.rx as usize).ok()?;
                        n.decode_level = DecodeLevel { application: AppDecodeLevel::ObjectValues, transport: TransportDecodeLevel::Header, link: LinkDecodeLevel::Payload, physical: PhysDecodeLevel::Length };
                        n.confirm_timeout = Timeout::from_millis(p.confirm).ok()?;
                        n.select_timeout = Timeout::from_millis(p.select).ok()?;
                        n.features = Features { self_address: feature(bits(p.feat, 0)), broadcast: feature(bits(p.feat, 1)), unsolicited: feature(bits(p.feat, 2)), respond_to_any_master: feature(bits(p.feat, 3)) };
                        n.max_unsolicited_retries = Some(p.retries as usize);
                        n.unsolicited_retry_delay = Duration::from_millis(p.retry_delay);
                        n.keep_alive_timeout = if p.keep_alive == 0 { None } else { Some(Duration::from_millis(p.keep_alive)) };
                        n.max_read_request_headers = Some(p.read_headers);
                        n.max_controls_per_request = Some(p.controls);
                        n.class_zero = ClassZeroConfig::new(bits(p.cz, 0), bits(p.cz, 1), bits(p.cz, 2), bits(p.cz, 3), bits(p.cz, 4), bits(p.cz, 5), bits(p.cz, 6), bits(p.cz, 7));
                        Some(n)
                    })();
                    Outcome { got, want: native.map(|n| dbg(&n)).unwrap_or_else(|| "Err".to_string()) }
                }),
            });
        }
    }
    // ---- configuration structures with fallible conversions (TryFrom) ----------------------------------
    for (h, size, blk) in [(0u32, 0u32, 0u16), (1, 2, 3), (u32::MAX, 7, 9), (5, u32::MAX, 11), (13, 17, u16::MAX), (0x01020304, 0x05060708, 0x090A)] {
        v.push(Case {
            clause: "C20.S2",
            conv: "impl From<OpenFile> for ffi::OpenFile".into(),
            input: format!("handle={h} size={size} max_block={blk}"),
            run: Box::new(move || {
                let n = OpenFile { file_handle: FileHandle::new(h), file_size: size, max_block_size: blk };
                let f: ffi::OpenFile = n.into();
                Outcome { got: format!("{}/{}/{}", f.file_handle, f.file_size, f.max_block_size), want: format!("{h}/{size}/{blk}") }
            }),
        });
    }
    for addr in [0u16, 1, 1024, 0xFFEF, 0xFFF0, 0xFFFC, 0xFFFF] {
        for tx in [248u16, 249, 500, 2048, 4096, 65535] {
            for rx in [249u16, 2047, 2048, 4096, 8192, 65535] {
                v.push(Case {
                    clause: "C20.S3",
                    conv: "impl TryFrom<ffi::MasterChannelConfig> for MasterChannelConfig".into(),
                    input: format!("address={addr} tx={tx} rx={rx}"),
                    run: Box::new(move || {
                        let level = ffi::DecodeLevel {
                            application: ffi::AppDecodeLevel::ObjectValues.into(),
                            transport: ffi::TransportDecodeLevel::Header.into(),
                            link: ffi::LinkDecodeLevel::Payload.into(),
                            physical: ffi::PhysDecodeLevel::Length.into(),
                        };
                        let f = ffi::MasterChannelConfig { address: addr, decode_level: level, tx_buffer_size: tx, rx_buffer_size: rx };
                        let got = match MasterChannelConfig::try_from(f) {
                            Ok(n) => format!(
                                "Ok(address={} tx={} rx={} decode={:?}/{:?}/{:?}/{:?})",
                                n.master_address.raw_value(),
                                n.tx_buffer_size.value(),
                                n.rx_buffer_size.value(),
                                n.decode_level.application,
                                n.decode_level.transport,
                                n.decode_level.link,
                                n.decode_level.physical
                            ),
                            Err(_) => "Err".to_string(),
                        };
                        let a = EndpointAddress::try_new(addr);
                        let t = BufferSize::<249, 2048>::new(tx as usize);
                        let r = BufferSize::<2048, 2048>::new(rx as usize);
                        let want = match (a, t, r) {
                            (Ok(a), Ok(t), Ok(r)) => format!("Ok(address={} tx={} rx={} decode=ObjectValues/Header/Payload/Length)", a.raw_value(), t.value(), r.value()),
                            _ => "Err".to_string(),
                        };
                        Outcome { got, want }
                    }),
                });
            }
        }
    }
    for rt in [0u64, 1, 5000, 3_600_000, 3_600_001] {
        for ec in 0..8usize {
            for cl in 0..16usize {
                for ats in variants::<ffi::AutoTimeSync>() {
                    for ka in [0u64, 60] {
                        for ovf in [false, true] {
                            for mq in [0u16, 16, 65535] {
                                v.push(Case {
                                    clause: "C20.S3",
                                    conv: "impl TryFrom<ffi::AssociationConfig> for AssociationConfig".into(),
                                    input: format!("response_timeout={rt} event-classes#{ec} classes#{cl} {ats:?} keep_alive={ka}s overflow_scan={ovf} max_queued={mq}"),
                                    run: Box::new(move || {
                                        let fe = |k: usize| ffi::EventClasses { class1: bits(k, 0), class2: bits(k, 1), class3: bits(k, 2) };
                                        let ne = |k: usize| EventClasses::new(bits(k, 0), bits(k, 1), bits(k, 2));
                                        let (d, e, sc) = (ec, (ec + 3) % 8, (ec + 5) % 8);
                                        let f = ffi::AssociationConfig {
                                            response_timeout: rt,
                                            disable_unsol_classes: fe(d),
                                            enable_unsol_classes: fe(e),
                                            startup_integrity_classes: ffi::Classes { class0: bits(cl, 0), class1: bits(cl, 1), class2: bits(cl, 2), class3: bits(cl, 3) },
                                            auto_time_sync: ats.into(),
                                            auto_tasks_retry_strategy: ffi::RetryStrategy { min_delay: 1500, max_delay: 70_000 },
                                            keep_alive_timeout: ka,
                                            auto_integrity_scan_on_buffer_overflow: ovf,
                                            event_scan_on_events_available: fe(sc),
                                            max_queued_user_requests: mq,
                                        };
                                        let got = match AssociationConfig::try_from(f) {
                                            Ok(n) => dbg(&n),
                                            Err(_) => "Err".to_string(),
                                        };
                                        let want = match Timeout::from_millis(rt) {
                                            Err(_) => "Err".to_string(),
                                            Ok(t) => {
                                                let mut n = AssociationConfig::quiet();
                                                n.response_timeout = t;
                                                n.disable_unsol_classes = ne(d);
                                                n.enable_unsol_classes = ne(e);
                                                n.startup_integrity_classes = Classes::new(bits(cl, 0), ne(cl >> 1));
                                                n.auto_time_sync = match ats {
                                                    ffi::AutoTimeSync::None => None,
                                                    ffi::AutoTimeSync::Lan => Some(TimeSyncProcedure::Lan),
                                                    ffi::AutoTimeSync::NonLan => Some(TimeSyncProcedure::NonLan),
                                                    ffi::AutoTimeSync::DirectWriteAbsTime => Some(TimeSyncProcedure::DirectWriteAbsTime),
                                                };
                                                n.auto_tasks_retry_strategy = RetryStrategy::new(Duration::from_millis(1500), Duration::from_millis(70_000));
                                                n.keep_alive_timeout = if ka == 0 { None } else { Some(Duration::from_secs(ka)) };
                                                n.auto_integrity_scan_on_buffer_overflow = ovf;
                                                n.event_scan_on_events_available = ne(sc);
                                                n.max_queued_user_requests = mq as usize;
                                                dbg(&n)
                                            }
                                        };
                                        Outcome { got, want }
                                    }),
                                });
                            }
                        }
                    }
                }
            }
        }
    }
    v
}

// ---------------------------------------------------------------------------------------
// census of `impl From<` in the binding crate against what this engine drives
// ---------------------------------------------------------------------------------------

/// impls that are present in the source but deliberately not driven, with the reason
/// impls exercised only inside a larger conversion or callback adapter that a case does name
const DRIVEN_INDIRECTLY: [(&str, &str); 16] = [
    ("impl From<AttrItem> for ffi::AttrItem", "ReadHandler device-attribute callbacks"),
    ("impl From<BoolAttr> for ffi::BoolAttr", "ReadHandler device-attribute callbacks"),
    ("impl From<FloatAttr> for ffi::FloatAttr", "ReadHandler device-attribute callbacks"),
    ("impl From<OctetStringAttr> for ffi::OctetStringAttr", "ReadHandler device-attribute callbacks"),
    ("impl From<StringAttr> for ffi::StringAttr", "ReadHandler device-attribute callbacks"),
    ("impl From<TimeAttr> for ffi::TimeAttr", "ReadHandler device-attribute callbacks"),
    ("impl From<UIntAttr> for ffi::UintAttr", "ReadHandler device-attribute callbacks"),
    ("impl From<VariationListAttr> for ffi::VariationListAttr", "ReadHandler device-attribute callbacks"),
    ("impl From<ResponseHeader> for ffi::ResponseHeader", "ReadHandler::begin_fragment / end_fragment"),
    ("impl From<TaskError> for ffi::$name", "macro body; every expansion is driven as its own enumeration conversion"),
    ("impl From<dnp3::app::PermissionSet> for ffi::PermissionSet", "inside Permissions, all 512 combinations"),
    ("impl From<ffi::PermissionSet> for PermissionSet", "inside Permissions, all 512 combinations"),
    ("impl From<dnp3::outstation::ClassCount> for ffi::ClassCount", "inside BufferState"),
    ("impl From<dnp3::outstation::TypeCount> for ffi::TypeCount", "inside BufferState"),
    ("impl From<ffi::CertificateMode> for CertificateMode", "enumeration conversion, named with its full path"),
    ("impl From<ffi::MinTlsVersion> for MinTlsVersion", "enumeration conversion, named with its full path"),
];

const NOT_DRIVEN: [(&str, &str); 11] = [
    ("impl From<TimeoutRangeError> for ffi::ParamError", "unit mapping; the source type has no public constructor"),
    ("impl From<crate::TracingInitError> for std::os::raw::c_int", "source type private to dnp3-ffi"),
    ("impl From<crate::runtime::RuntimeError> for std::os::raw::c_int", "source type private to dnp3-ffi"),
    ("impl From<RuntimeError> for crate::ffi::ParamError", "source type private to dnp3-ffi"),
    ("impl From<BadIpv4Wildcard> for ffi::ParamError", "unit mapping; the source type has no public constructor"),
    ("impl From<FilterError> for ffi::ParamError", "unit mapping"),
    ("impl From<std::io::Error> for ffi::ParamError", "unit mapping (any I/O error -> ServerBindError)"),
    ("impl From<&AddressFilter> for dnp3::tcp::AddressFilter", "source type private to dnp3-ffi; identity on its three variants"),
    ("impl From<ffi::LinkIdConfig> for LinkIdConfig", "target has no observable accessors outside the crate"),
    ("impl TryFrom<ffi::TlsClientConfig> for TlsClientConfig", "reads certificate and key files"),
    ("fn convert_udp_config(ffi::OutstationUdpConfig)", "private function, reachable only by creating a live UDP outstation"),
];

pub fn impl_census(driven: &[String]) -> Value {
    let mut found: Vec<String> = Vec::new();
    fn walk(dir: &std::path::Path, out: &mut Vec<String>) {
        if let Ok(rd) = std::fs::read_dir(dir) {
            for e in rd.flatten() {
                let p = e.path();
                if p.is_dir() {
                    walk(&p, out);
                } else if p.extension().map(|x| x == "rs").unwrap_or(false) {
                    if let Ok(s) = std::fs::read_to_string(&p) {
                        for l in s.lines() {
                            let t = l.trim();
                            if t.starts_with("impl From<") || t.starts_with("impl TryFrom<") || t.starts_with("impl<'a> From<") {
                                out.push(t.trim_end_matches('{').trim().to_string());
                            }
                        }
                    }
                }
            }
        }
    }
    walk(std::path::Path::new("/repo/ffi/dnp3-ffi/src"), &mut found);
    found.sort();
    // an impl counts as driven when a case names it (path prefixes, lifetimes and blanks ignored)
    fn key(s: &str) -> String {
        let mut t = s.replace("<'a>", "").replace("<'_>", "").replace("&'a ", "&").replace(' ', "");
        for p in ["crate::ffi::", "ffi::", "crate::", "dnp3::app::attr::", "dnp3::app::measurement::", "dnp3::app::control::", "dnp3::app::", "dnp3::master::", "dnp3::outstation::database::", "dnp3::outstation::", "dnp3::link::", "dnp3::decode::", "dnp3::tcp::", "dnp3::serial::", "dnp3::udp::", "std::os::raw::", "std::time::"] {
            t = t.replace(p, "");
        }
        t
    }
    let driven_keys: Vec<String> = driven.iter().map(|d| key(d)).collect();
    let listed: Vec<String> = NOT_DRIVEN.iter().chain(DRIVEN_INDIRECTLY.iter()).map(|(a, _)| key(a)).collect();
    let mut unmatched: Vec<String> = Vec::new();
    let mut n_driven = 0usize;
    for f in &found {
        let k = key(f);
        if driven_keys.iter().any(|d| d.contains(&k)) {
            n_driven += 1;
        } else if !listed.iter().any(|l| l.contains(&k) || k.contains(l.as_str())) {
            unmatched.push(f.clone());
        }
    }
    json!({
        "census": {
            "from_impls_in_binding_source": found.len(),
            "named_by_a_driven_case": n_driven,
            "not_driven": NOT_DRIVEN.iter().map(|(a, b)| json!({"impl": a, "reason": b})).collect::<Vec<_>>(),
            "driven_indirectly": DRIVEN_INDIRECTLY.iter().map(|(a, b)| json!({"impl": a, "through": b})).collect::<Vec<_>>(),
            "neither_named_nor_listed": unmatched,
        }
    })
}
