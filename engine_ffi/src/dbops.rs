//! C20 part 4: a database operation invoked through the binding layer has exactly the effect
//! of the corresponding native call with the same arguments.
//!
//! Two real outstations per history: on A every operation goes through the exported
//! `dnp3_database_*` functions (what C / .NET / Java call), on B through the native traits.
//! Oracle: identical return values, then byte-identical class 1/2/3 and class 0 READ responses.

use std::fmt::Debug;
use std::os::raw::c_int;

use dnp3::app::measurement::*;
use dnp3::app::Timestamp;
use dnp3::outstation::database::*;
use dnp3_ffi::ffi;

use crate::cases::{dbg, name_of, norm, variants};
use crate::explore::{fnv_str, CaseSpace, Hasher, RunResult, Violation};
use crate::kernel;
use crate::osim::{OCfg, OSim, Tx};
use crate::wire::app::{self, fc};

#[derive(Clone, Debug, PartialEq)]
pub enum Op {
    Add { idx: u16, class: usize, sv: usize, ev: usize, db: usize },
    Remove { idx: u16 },
    Update { idx: u16, val: usize, flags: u8, time: usize, us: bool, mode: usize, two: bool },
    UpdateFlags { idx: u16, flags: u8, time: usize, us: bool, mode: usize },
    Get { idx: u16 },
}

const CLASSES: [&str; 4] = ["none", "class1", "class2", "class3"];
const MODES: [&str; 3] = ["detect", "force", "suppress"];
/// (quality name, instant)
const TIMES: [(&str, u64); 5] =
    [("invalidtime", 0), ("synchronizedtime", 1000), ("unsynchronizedtime", 5), ("synchronizedtime", (1 << 48) - 1), ("synchronizedtime", 0)];

fn by_name<E: From<c_int> + Into<c_int> + Debug + Copy + 'static>(name: &str) -> c_int {
    for v in variants::<E>() {
        if norm(&dbg(&v)) == name {
            return v.into();
        }
    }
    panic!("the binding enumeration has no variant named {name}");
}

fn ffi_class(i: usize) -> c_int {
    by_name::<ffi::EventClass>(CLASSES[i])
}
fn native_class(i: usize) -> Option<EventClass> {
    [None, Some(EventClass::Class1), Some(EventClass::Class2), Some(EventClass::Class3)][i]
}
fn ffi_time(i: usize) -> ffi::Timestamp {
    ffi::Timestamp { value: TIMES[i].1, quality: by_name::<ffi::TimeQuality>(TIMES[i].0) }
}
fn native_time(i: usize) -> Option<Time> {
    match TIMES[i].0 {
        "invalidtime" => None,
        "synchronizedtime" => Some(Time::Synchronized(Timestamp::new(TIMES[i].1))),
        _ => Some(Time::Unsynchronized(Timestamp::new(TIMES[i].1))),
    }
}
fn ffi_options(us: bool, mode: usize) -> ffi::UpdateOptions {
    ffi::UpdateOptions { update_static: us, event_mode: by_name::<ffi::EventMode>(MODES[mode]) }
}
fn native_options(us: bool, mode: usize) -> UpdateOptions {
    UpdateOptions::new(us, [EventMode::Detect, EventMode::Force, EventMode::Suppress][mode])
}
fn info_text_ffi(i: &ffi::UpdateInfo) -> String {
    format!("{}/{}/{}", name_of::<ffi::UpdateResult>(i.result), i.created, i.discarded)
}
fn info_text_native(i: UpdateInfo) -> String {
    match i {
        UpdateInfo::NoPoint => "nopoint/0/0".into(),
        UpdateInfo::NoEvent => "noevent/0/0".into(),
        UpdateInfo::Created(id) => format!("created/{id}/0"),
        UpdateInfo::Overflow { created, discarded } => format!("overflow/{created}/{discarded}"),
    }
}
fn time_text_ffi(t: &ffi::Timestamp) -> String {
    format!("{}:{}", name_of::<ffi::TimeQuality>(t.quality), t.value)
}
fn time_text_native(t: Option<Time>) -> String {
    crate::conv::time_text(t)
}

/// one point type: how to run an `Op` on either side
pub trait PointType: Sync {
    fn name(&self) -> &'static str;
    /// sizes of the menus: static variations, event variations, dead-bands, values
    fn menus(&self) -> (usize, usize, usize, usize);
    fn has_flags_update(&self) -> bool {
        true
    }
    fn has_get(&self) -> bool {
        true
    }
    unsafe fn ffi(&self, db: *mut Database, op: &Op) -> String;
    fn native(&self, db: &mut Database, op: &Op) -> String;
}

macro_rules! point_type {
    (
        $S:ident, $name:expr, $N:ident, $NC:ident, $F:ident, $FC:ident, $FSV:ident, $FEV:ident, $NSV:ident, $NEV:ident,
        $add:ident, $remove:ident, $update:ident, $update2:ident, $get:ident, $flags_type:ident,
        svars: [$($sv:ident),*], evars: [$($ev:ident),*],
        deadbands: $dbs:expr, cfg_ffi: |$fs:ident, $fe:ident, $fd:ident| $cfg_ffi:expr, cfg_native: |$ns:ident, $ne:ident, $nd:ident| $cfg_native:expr,
        values: $vals:expr, to_ffi: |$tv:ident| $to_ffi:expr, to_native: |$nv:ident| $to_native:expr, show_ffi: |$sf:ident| $show_ffi:expr, show_native: |$sn:ident| $show_native:expr
    ) => {
        pub struct $S;
        impl $S {
            fn svars() -> Vec<$NSV> {
                vec![$($NSV::$sv),*]
            }
            fn evars() -> Vec<$NEV> {
                vec![$($NEV::$ev),*]
            }
        }
        impl PointType for $S {
            fn name(&self) -> &'static str {
                $name
            }
            fn menus(&self) -> (usize, usize, usize, usize) {
                (Self::svars().len(), Self::evars().len(), $dbs.len(), $vals.len())
            }
            unsafe fn ffi(&self, db: *mut Database, op: &Op) -> String {
                match op {
                    Op::Add { idx, class, sv, ev, db: d } => {
                        let $fs: c_int = by_name::<ffi::$FSV>(&norm(&dbg(&Self::svars()[*sv])));
                        let $fe: c_int = by_name::<ffi::$FEV>(&norm(&dbg(&Self::evars()[*ev])));
                        let $fd = $dbs[*d];
                        let _ = $fd;
                        let cfg: ffi::$FC = $cfg_ffi;
                        format!("{}", ffi::$add(db, *idx, ffi_class(*class), cfg))
                    }
                    Op::Remove { idx } => format!("{}", ffi::$remove(db, *idx)),
                    Op::Update { idx, val, flags, time, us, mode, two } => {
                        let $tv = $vals[*val];
                        let m = ffi::$F { index: *idx, value: $to_ffi, flags: ffi::Flags { value: *flags }, time: ffi_time(*time) };
                        if *two {
                            info_text_ffi(&ffi::$update2(db, m, ffi_options(*us, *mode)))
                        } else {
                            format!("{}", ffi::$update(db, m, ffi_options(*us, *mode)))
                        }
                    }
                    Op::UpdateFlags { idx, flags, time, us, mode } => info_text_ffi(&ffi::dnp3_database_update_flags(
                        db,
                        *idx,
                        by_name::<ffi::UpdateFlagsType>(&norm(stringify!($flags_type))),
                        ffi::Flags { value: *flags },
                        ffi_time(*time),
                        ffi_options(*us, *mode),
                    )),
                    Op::Get { idx } => {
                        let mut out = std::mem::MaybeUninit::<ffi::$F>::uninit();
                        let code = ffi::$get(db, *idx, out.as_mut_ptr());
                        let code_name = name_of::<ffi::ParamError>(code);
                        if code_name == "ok" {
                            let $sf = out.assume_init();
                            format!("ok {} {} {:#04x} {}", $sf.index, $show_ffi, $sf.flags.value, time_text_ffi(&$sf.time))
                        } else {
                            code_name
                        }
                    }
                }
            }
            fn native(&self, db: &mut Database, op: &Op) -> String {
                match op {
                    Op::Add { idx, class, sv, ev, db: d } => {
                        let $ns = Self::svars()[*sv];
                        let $ne = Self::evars()[*ev];
                        let $nd = $dbs[*d];
                        let _ = $nd;
                        let cfg: $NC = $cfg_native;
                        format!("{}", db.add(*idx, native_class(*class), cfg))
                    }
                    Op::Remove { idx } => format!("{}", Remove::<$N>::remove(db, *idx)),
                    Op::Update { idx, val, flags, time, us, mode, two } => {
                        let $nv = $vals[*val];
                        let m = $N { value: $to_native, flags: Flags { value: *flags }, time: native_time(*time) };
                        if *two {
                            info_text_native(db.update2(*idx, &m, native_options(*us, *mode)))
                        } else {
                            format!("{}", db.update(*idx, &m, native_options(*us, *mode)))
                        }
                    }
                    Op::UpdateFlags { idx, flags, time, us, mode } => info_text_native(db.update_flags(
                        *idx,
                        UpdateFlagsType::$flags_type,
                        Flags { value: *flags },
                        native_time(*time),
                        native_options(*us, *mode),
                    )),
                    Op::Get { idx } => match Get::<$N>::get(db, *idx) {
                        Some($sn) => format!("ok {} {} {:#04x} {}", idx, $show_native, $sn.flags.value, time_text_native($sn.time)),
                        None => "pointdoesnotexist".to_string(),
                    },
                }
            }
        }
    };
}

const NO_DB: [u8; 1] = [0];
const U32_DB: [u32; 3] = [0, 10, u32::MAX];
const F64_DB: [f64; 3] = [0.0, 10.0, f64::MAX];
const BOOLS: [bool; 2] = [false, true];
const COUNTS: [u32; 5] = [0, 5, 20, 0xFFFF_FFF0, u32::MAX];
const ANALOGS: [f64; 7] = [0.0, 5.0, 20.5, -40000.0, 3e9, 1e300, f64::NAN];
const DOUBLES: [&str; 4] = ["intermediate", "determinedoff", "determinedon", "indeterminate"];

fn native_double(name: &str) -> DoubleBit {
    match name {
        "intermediate" => DoubleBit::Intermediate,
        "determinedoff" => DoubleBit::DeterminedOff,
        "determinedon" => DoubleBit::DeterminedOn,
        _ => DoubleBit::Indeterminate,
    }
}

point_type!(
    BinaryT, "binary_input", BinaryInput, BinaryInputConfig, BinaryInput, BinaryInputConfig,
    StaticBinaryInputVariation, EventBinaryInputVariation, StaticBinaryInputVariation, EventBinaryInputVariation,
    dnp3_database_add_binary_input, dnp3_database_remove_binary_input, dnp3_database_update_binary_input, dnp3_database_update_binary_input_2, dnp3_database_get_binary_input, BinaryInput,
    svars: [Group1Var1, Group1Var2], evars: [Group2Var1, Group2Var2, Group2Var3],
    deadbands: NO_DB, cfg_ffi: |s, e, d| ffi::BinaryInputConfig { static_variation: s, event_variation: e }, cfg_native: |s, e, d| BinaryInputConfig { s_var: s, e_var: e },
    values: BOOLS, to_ffi: |v| v, to_native: |v| v, show_ffi: |m| m.value, show_native: |m| m.value
);
point_type!(
    DoubleT, "double_bit_binary_input", DoubleBitBinaryInput, DoubleBitBinaryInputConfig, DoubleBitBinaryInput, DoubleBitBinaryInputConfig,
    StaticDoubleBitBinaryInputVariation, EventDoubleBitBinaryInputVariation, StaticDoubleBitBinaryInputVariation, EventDoubleBitBinaryInputVariation,
    dnp3_database_add_double_bit_binary_input, dnp3_database_remove_double_bit_binary_input, dnp3_database_update_double_bit_binary_input, dnp3_database_update_double_bit_binary_input_2, dnp3_database_get_double_bit_binary_input, DoubleBitBinaryInput,
    svars: [Group3Var1, Group3Var2], evars: [Group4Var1, Group4Var2, Group4Var3],
    deadbands: NO_DB, cfg_ffi: |s, e, d| ffi::DoubleBitBinaryInputConfig { static_variation: s, event_variation: e }, cfg_native: |s, e, d| DoubleBitBinaryInputConfig { s_var: s, e_var: e },
    values: DOUBLES, to_ffi: |v| by_name::<ffi::DoubleBit>(v), to_native: |v| native_double(v), show_ffi: |m| name_of::<ffi::DoubleBit>(m.value), show_native: |m| norm(&dbg(&m.value))
);
point_type!(
    BoStatusT, "binary_output_status", BinaryOutputStatus, BinaryOutputStatusConfig, BinaryOutputStatus, BinaryOutputStatusConfig,
    StaticBinaryOutputStatusVariation, EventBinaryOutputStatusVariation, StaticBinaryOutputStatusVariation, EventBinaryOutputStatusVariation,
    dnp3_database_add_binary_output_status, dnp3_database_remove_binary_output_status, dnp3_database_update_binary_output_status, dnp3_database_update_binary_output_status_2, dnp3_database_get_binary_output_status, BinaryOutputStatus,
    svars: [Group10Var1, Group10Var2], evars: [Group11Var1, Group11Var2],
    deadbands: NO_DB, cfg_ffi: |s, e, d| ffi::BinaryOutputStatusConfig { static_variation: s, event_variation: e }, cfg_native: |s, e, d| BinaryOutputStatusConfig { s_var: s, e_var: e },
    values: BOOLS, to_ffi: |v| v, to_native: |v| v, show_ffi: |m| m.value, show_native: |m| m.value
);
point_type!(
    CounterT, "counter", Counter, CounterConfig, Counter, CounterConfig,
    StaticCounterVariation, EventCounterVariation, StaticCounterVariation, EventCounterVariation,
    dnp3_database_add_counter, dnp3_database_remove_counter, dnp3_database_update_counter, dnp3_database_update_counter_2, dnp3_database_get_counter, Counter,
    svars: [Group20Var1, Group20Var2, Group20Var5, Group20Var6], evars: [Group22Var1, Group22Var2, Group22Var5, Group22Var6],
    deadbands: U32_DB, cfg_ffi: |s, e, d| ffi::CounterConfig { static_variation: s, event_variation: e, deadband: d }, cfg_native: |s, e, d| CounterConfig { s_var: s, e_var: e, deadband: d },
    values: COUNTS, to_ffi: |v| v, to_native: |v| v, show_ffi: |m| m.value, show_native: |m| m.value
);
point_type!(
    FrozenT, "frozen_counter", FrozenCounter, FrozenCounterConfig, FrozenCounter, FrozenCounterConfig,
    StaticFrozenCounterVariation, EventFrozenCounterVariation, StaticFrozenCounterVariation, EventFrozenCounterVariation,
    dnp3_database_add_frozen_counter, dnp3_database_remove_frozen_counter, dnp3_database_update_frozen_counter, dnp3_database_update_frozen_counter_2, dnp3_database_get_frozen_counter, FrozenCounter,
    svars: [Group21Var1, Group21Var2, Group21Var5, Group21Var6, Group21Var9, Group21Var10], evars: [Group23Var1, Group23Var2, Group23Var5, Group23Var6],
    deadbands: U32_DB, cfg_ffi: |s, e, d| ffi::FrozenCounterConfig { static_variation: s, event_variation: e, deadband: d }, cfg_native: |s, e, d| FrozenCounterConfig { s_var: s, e_var: e, deadband: d },
    values: COUNTS, to_ffi: |v| v, to_native: |v| v, show_ffi: |m| m.value, show_native: |m| m.value
);
point_type!(
    AnalogT, "analog_input", AnalogInput, AnalogInputConfig, AnalogInput, AnalogInputConfig,
    StaticAnalogInputVariation, EventAnalogInputVariation, StaticAnalogInputVariation, EventAnalogInputVariation,
    dnp3_database_add_analog_input, dnp3_database_remove_analog_input, dnp3_database_update_analog_input, dnp3_database_update_analog_input_2, dnp3_database_get_analog_input, AnalogInput,
    svars: [Group30Var1, Group30Var2, Group30Var3, Group30Var4, Group30Var5, Group30Var6],
    evars: [Group32Var1, Group32Var2, Group32Var3, Group32Var4, Group32Var5, Group32Var6, Group32Var7, Group32Var8],
    deadbands: F64_DB, cfg_ffi: |s, e, d| ffi::AnalogInputConfig { static_variation: s, event_variation: e, deadband: d }, cfg_native: |s, e, d| AnalogInputConfig { s_var: s, e_var: e, deadband: d },
    values: ANALOGS, to_ffi: |v| v, to_native: |v| v, show_ffi: |m| format!("{:#018x}", m.value.to_bits()), show_native: |m| format!("{:#018x}", m.value.to_bits())
);
point_type!(
    AoStatusT, "analog_output_status", AnalogOutputStatus, AnalogOutputStatusConfig, AnalogOutputStatus, AnalogOutputStatusConfig,
    StaticAnalogOutputStatusVariation, EventAnalogOutputStatusVariation, StaticAnalogOutputStatusVariation, EventAnalogOutputStatusVariation,
    dnp3_database_add_analog_output_status, dnp3_database_remove_analog_output_status, dnp3_database_update_analog_output_status, dnp3_database_update_analog_output_status_2, dnp3_database_get_analog_output_status, AnalogOutputStatus,
    svars: [Group40Var1, Group40Var2, Group40Var3, Group40Var4],
    evars: [Group42Var1, Group42Var2, Group42Var3, Group42Var4, Group42Var5, Group42Var6, Group42Var7, Group42Var8],
    deadbands: F64_DB, cfg_ffi: |s, e, d| ffi::AnalogOutputStatusConfig { static_variation: s, event_variation: e, deadband: d }, cfg_native: |s, e, d| AnalogOutputStatusConfig { s_var: s, e_var: e, deadband: d },
    values: ANALOGS, to_ffi: |v| v, to_native: |v| v, show_ffi: |m| format!("{:#018x}", m.value.to_bits()), show_native: |m| format!("{:#018x}", m.value.to_bits())
);

/// octet strings: no configuration, no flags, no get
pub struct OctetT;
const OCTETS: [&[u8]; 4] = [&[0x41], &[1, 2, 3], &[], &[0xFF; 255]];
impl PointType for OctetT {
    fn name(&self) -> &'static str {
        "octet_string"
    }
    fn menus(&self) -> (usize, usize, usize, usize) {
        (1, 1, 1, OCTETS.len())
    }
    fn has_flags_update(&self) -> bool {
        false
    }
    fn has_get(&self) -> bool {
        false
    }
    unsafe fn ffi(&self, db: *mut Database, op: &Op) -> String {
        match op {
            Op::Add { idx, class, .. } => format!("{}", ffi::dnp3_database_add_octet_string(db, *idx, ffi_class(*class))),
            Op::Remove { idx } => format!("{}", ffi::dnp3_database_remove_octet_string(db, *idx)),
            Op::Update { idx, val, us, mode, two, .. } => {
                let v = ffi::dnp3_octet_string_value_create();
                for b in OCTETS[*val] {
                    ffi::dnp3_octet_string_value_add(v, *b);
                }
                let r = if *two {
                    info_text_ffi(&ffi::dnp3_database_update_octet_string_2(db, *idx, v, ffi_options(*us, *mode)))
                } else {
                    format!("{}", ffi::dnp3_database_update_octet_string(db, *idx, v, ffi_options(*us, *mode)))
                };
                ffi::dnp3_octet_string_value_destroy(v);
                r
            }
            _ => "n/a".into(),
        }
    }
    fn native(&self, db: &mut Database, op: &Op) -> String {
        match op {
            Op::Add { idx, class, .. } => format!("{}", db.add(*idx, native_class(*class), OctetStringConfig)),
            Op::Remove { idx } => format!("{}", Remove::<OctetString>::remove(db, *idx)),
            Op::Update { idx, val, us, mode, two, .. } => match OctetString::new(OCTETS[*val]) {
                Ok(s) => {
                    if *two {
                        info_text_native(db.update2(*idx, &s, native_options(*us, *mode)))
                    } else {
                        format!("{}", db.update(*idx, &s, native_options(*us, *mode)))
                    }
                }
                // a value the native type cannot hold: the documented result of the binding is "no point"
                Err(_) => {
                    if *two {
                        "nopoint/0/0".into()
                    } else {
                        "false".into()
                    }
                }
            },
            _ => "n/a".into(),
        }
    }
}

pub fn types() -> Vec<Box<dyn PointType>> {
    vec![Box::new(BinaryT), Box::new(DoubleT), Box::new(BoStatusT), Box::new(CounterT), Box::new(FrozenT), Box::new(AnalogT), Box::new(AoStatusT), Box::new(OctetT)]
}

// ---------------------------------------------------------------------------------------
// histories
// ---------------------------------------------------------------------------------------

pub struct History {
    ty: usize,
    family: &'static str,
    ops: Vec<Op>,
}

fn upd(idx: u16, val: usize) -> Op {
    Op::Update { idx, val, flags: 0x01, time: 1, us: true, mode: 0, two: true }
}

fn build(tier: &str) -> Vec<History> {
    let quick = tier == "quick";
    let mut out = Vec::new();
    let tys = types();
    for (ti, t) in tys.iter().enumerate() {
        let (nsv, nev, ndb, nval) = t.menus();
        // family "config": every class x static variation x event variation x dead-band,
        // two updates (the second one may or may not exceed the dead-band), get
        for class in 0..4 {
            for sv in 0..nsv {
                for ev in 0..nev {
                    for db in 0..ndb {
                        for (a, b) in [(0usize, 1usize), (1, 2 % nval), (nval - 1, 0)] {
                            if quick && (a, b) != (0, 1) && !(sv == 0 && ev == 0) {
                                continue;
                            }
                            out.push(History {
                                ty: ti,
                                family: "config",
                                ops: vec![Op::Add { idx: 5, class, sv, ev, db }, upd(5, a), upd(5, b), Op::Get { idx: 5 }],
                            });
                        }
                    }
                }
            }
        }
        // family "update": every value x flags x time x options x function, after a baseline
        let flags: Vec<u8> = if quick { vec![0x01, 0x00, 0x81, 0xFF] } else { vec![0x01, 0x00, 0x02, 0x04, 0x08, 0x10, 0x20, 0x40, 0x80, 0x81, 0xFF] };
        for val in 0..nval {
            for &fl in &flags {
                for time in 0..TIMES.len() {
                    for us in [true, false] {
                        for mode in 0..3 {
                            for two in [true, false] {
                                if quick && !two && !(fl == 0x01 && time == 1) {
                                    continue;
                                }
                                out.push(History {
                                    ty: ti,
                                    family: "update",
                                    ops: vec![
                                        Op::Add { idx: 0, class: 1, sv: nsv - 1, ev: nev - 1, db: 0 },
                                        upd(0, 0),
                                        Op::Update { idx: 0, val, flags: fl, time, us, mode, two },
                                        Op::Get { idx: 0 },
                                    ],
                                });
                                if t.has_flags_update() && two && val == 0 {
                                    out.push(History {
                                        ty: ti,
                                        family: "update_flags",
                                        ops: vec![
                                            Op::Add { idx: 0, class: 2, sv: nsv - 1, ev: nev - 1, db: 0 },
                                            upd(0, 1),
                                            Op::UpdateFlags { idx: 0, flags: fl, time, us, mode },
                                            Op::Get { idx: 0 },
                                        ],
                                    });
                                }
                            }
                        }
                    }
                }
            }
        }
        // family "sequence": every sequence up to the depth over a small alphabet that collides
        // on two indices (one of them possibly absent) and overflows a 2-event buffer
        let mut alpha: Vec<Op> = vec![
            Op::Add { idx: 0, class: 1, sv: 0, ev: 0, db: 0 },
            Op::Add { idx: 1, class: 3, sv: nsv - 1, ev: nev - 1, db: ndb - 1 },
            Op::Add { idx: 0, class: 0, sv: 0, ev: 0, db: 0 },
            Op::Remove { idx: 0 },
            upd(0, 1),
            Op::Update { idx: 0, val: 0, flags: 0x81, time: 3, us: true, mode: 1, two: true },
            Op::Update { idx: 1, val: nval - 1, flags: 0x01, time: 2, us: false, mode: 0, two: false },
            Op::Update { idx: 0, val: 2 % nval, flags: 0x01, time: 0, us: true, mode: 2, two: true },
        ];
        if t.has_flags_update() {
            alpha.push(Op::UpdateFlags { idx: 0, flags: 0x41, time: 1, us: true, mode: 0 });
            alpha.push(Op::UpdateFlags { idx: 1, flags: 0x01, time: 0, us: false, mode: 1 });
        }
        if t.has_get() {
            alpha.push(Op::Get { idx: 0 });
        }
        let depth = if quick { 3 } else { 5 };
        let mut stack: Vec<Vec<usize>> = vec![vec![]];
        while let Some(p) = stack.pop() {
            if !p.is_empty() {
                out.push(History { ty: ti, family: "sequence", ops: p.iter().map(|i| alpha[*i].clone()).collect() });
            }
            if p.len() < depth {
                for i in (0..alpha.len()).rev() {
                    // a trailing Get is observed anyway; Get in the middle changes nothing
                    let mut q = p.clone();
                    q.push(i);
                    stack.push(q);
                }
            }
        }
    }
    out
}

pub struct DbOps {
    tier: String,
    histories: Vec<History>,
    attrs: Vec<AttrCase>,
}

impl DbOps {
    pub fn new(tier: &str) -> Self {
        Self { tier: tier.to_string(), histories: build(tier), attrs: attr_cases() }
    }
}

fn read_all(sim: &mut OSim, seq: u8) -> Vec<Vec<u8>> {
    sim.take_out();
    // class 1, 2, 3 events, then class 0; no confirmation is sent, so nothing is cleared
    sim.send(&app::request(seq, fc::READ, &app::class_headers(true, true, true, false)));
    let mut frags: Vec<Vec<u8>> = sim.take_out().iter().filter_map(|t| t.frag().map(|f| f.to_vec())).collect();
    // let the confirm wait run out, then read the static data
    sim.advance(10_000);
    sim.take_out();
    sim.send(&app::request(seq.wrapping_add(1) & 0x0F, fc::READ, &app::class_headers(false, false, false, true)));
    frags.extend(sim.take_out().iter().filter_map(|t| t.frag().map(|f| f.to_vec())));
    frags
}

fn cfg() -> OCfg {
    // two events per type: the third update overflows
    OCfg { event_buf: [2; 8], class_zero_octet_strings: true, ..Default::default() }
}

impl CaseSpace for DbOps {
    fn name(&self) -> String {
        format!("database-ops-{}", self.tier)
    }
    fn total(&self) -> usize {
        self.histories.len() + self.attrs.len()
    }
    fn run(&self, index: usize, transcript: bool) -> RunResult {
        if index >= self.histories.len() {
            return run_attr(&self.attrs[index - self.histories.len()], transcript);
        }
        let h = &self.histories[index];
        let tys = types();
        let t = &tys[h.ty];
        let mut res = RunResult::default();
        let mut obs = Hasher::default();
        obs.add_str(t.name());
        let mut a = OSim::new(&cfg(), 1);
        let mut b = OSim::new(&cfg(), 1);
        if transcript {
            res.transcript.push(format!("point type {} ({} family)", t.name(), h.family));
        }
        for op in &h.ops {
            res.transitions += 1;
            let rb = b.db(|db| t.native(db, op));
            let ra = match kernel::guarded(|| a.db(|db| unsafe { t.ffi(db as *mut Database, op) })) {
                Ok(x) => x,
                Err(p) => {
                    res.violation = Some(Violation::new("C20.P0", format!("dnp3_database_* {} {}", t.name(), op_kind(op)), format!("{op:?} through the binding panics: {p}")));
                    return res;
                }
            };
            obs.add_str(&ra);
            res.model_states.push(fnv_str(&rb));
            if transcript {
                res.transcript.push(format!("{op:?}: binding -> {ra}; native -> {rb}"));
            }
            if ra != rb {
                res.violation = Some(Violation::new(
                    "C20.D1",
                    format!("dnp3_database_* {} {}", t.name(), op_kind(op)),
                    format!("{} {op:?}: the binding returned {ra}, the native call {rb} (after {:?})", t.name(), h.ops),
                ));
                return res;
            }
            if ra != "false" && ra != "nopoint/0/0" && ra != "pointdoesnotexist" {
                res.nontrivial = true;
            }
        }
        let fa = read_all(&mut a, 1);
        let fb = read_all(&mut b, 1);
        for f in &fa {
            obs.add(f);
        }
        if transcript {
            for (x, y) in fa.iter().zip(fb.iter()) {
                res.transcript.push(format!("binding side reports {}", app::hex(x)));
                res.transcript.push(format!("native side reports  {}", app::hex(y)));
            }
        }
        if fa != fb {
            res.violation = Some(Violation::new(
                "C20.D2",
                format!("dnp3_database_* {} effect", t.name()),
                format!(
                    "{} after {:?}: the outstation driven through the binding reports {:?}, the natively driven one {:?}",
                    t.name(),
                    h.ops,
                    fa.iter().map(|f| app::hex(f)).collect::<Vec<_>>(),
                    fb.iter().map(|f| app::hex(f)).collect::<Vec<_>>()
                ),
            ));
        }
        if let Some(f) = a.failure().or(b.failure()) {
            res.violation = Some(Violation::new("C20.P0", format!("dnp3_database_* {} outstation", t.name()), f));
        }
        res.obs = obs.0;
        res
    }
}

fn op_kind(op: &Op) -> &'static str {
    match op {
        Op::Add { .. } => "add",
        Op::Remove { .. } => "remove",
        Op::Update { two: false, .. } => "update",
        Op::Update { two: true, .. } => "update_2",
        Op::UpdateFlags { .. } => "update_flags",
        Op::Get { .. } => "get",
    }
}

// ---------------------------------------------------------------------------------------
// device attributes
// ---------------------------------------------------------------------------------------

#[derive(Clone, Debug)]
pub struct AttrCase {
    kind: usize,
    set: u8,
    writable: bool,
    variation: u8,
    second: bool,
}

fn attr_cases() -> Vec<AttrCase> {
    let mut out = Vec::new();
    for kind in 0..7 {
        for set in [0u8, 1, 255] {
            for writable in [false, true] {
                for variation in 0..=255u8 {
                    out.push(AttrCase { kind, set, writable, variation, second: false });
                }
            }
        }
        // defining the same attribute twice
        out.push(AttrCase { kind, set: 1, writable: true, variation: 7, second: true });
    }
    out
}

fn run_attr(c: &AttrCase, transcript: bool) -> RunResult {
    use dnp3::app::attr::*;
    let mut res = RunResult::default();
    let mut a = OSim::new(&cfg(), 1);
    let mut b = OSim::new(&cfg(), 1);
    let text = std::ffi::CString::new("unit 7").unwrap();
    let native_value = || match c.kind {
        0 => OwnedAttrValue::VisibleString("unit 7".to_string()),
        1 => OwnedAttrValue::UnsignedInt(4_000_000_000),
        2 => OwnedAttrValue::SignedInt(-5),
        3 => OwnedAttrValue::Dnp3Time(Timestamp::new(1_600_000_000_789)),
        4 => OwnedAttrValue::SignedInt(1),
        5 => OwnedAttrValue::FloatingPoint(FloatType::F32(-2.5)),
        _ => OwnedAttrValue::FloatingPoint(FloatType::F64(1e100)),
    };
    let names = ["string", "uint", "int", "time", "bool", "float", "double"];
    let reps = if c.second { 2 } else { 1 };
    let mut ra = String::new();
    let mut rb = String::new();
    for _ in 0..reps {
        res.transitions += 1;
        rb = b.db(|db| {
            let prop = if c.writable { AttrProp::writable() } else { AttrProp::default() };
            match db.define_attr(prop, OwnedAttribute::new(AttrSet::new(c.set), c.variation, native_value())) {
                Ok(()) => "ok".to_string(),
                Err(e) => norm(&dbg(&e)),
            }
        });
        let r = kernel::guarded(|| {
            a.db(|db| unsafe {
                let db = db as *mut Database;
                let code = match c.kind {
                    0 => ffi::dnp3_database_define_string_attr(db, c.set, c.writable, c.variation, text.as_ptr()),
                    1 => ffi::dnp3_database_define_uint_attr(db, c.set, c.writable, c.variation, 4_000_000_000),
                    2 => ffi::dnp3_database_define_int_attr(db, c.set, c.writable, c.variation, -5),
                    3 => ffi::dnp3_database_define_time_attr(db, c.set, c.writable, c.variation, 1_600_000_000_789),
                    4 => ffi::dnp3_database_define_bool_attr(db, c.set, c.writable, c.variation, true),
                    5 => ffi::dnp3_database_define_float_attr(db, c.set, c.writable, c.variation, -2.5),
                    _ => ffi::dnp3_database_define_double_attr(db, c.set, c.writable, c.variation, 1e100),
                };
                name_of::<ffi::AttrDefError>(code)
            })
        });
        ra = match r {
            Ok(x) => x,
            Err(p) => {
                res.violation = Some(Violation::new("C20.P0", format!("dnp3_database_define_{}_attr", names[c.kind]), format!("{c:?} panics: {p}")));
                return res;
            }
        };
    }
    res.model_states.push(fnv_str(&rb));
    res.nontrivial = rb == "ok";
    if transcript {
        res.transcript.push(format!("{c:?}: binding -> {ra}; native -> {rb}"));
    }
    if ra != rb {
        res.violation = Some(Violation::new(
            "C20.D1",
            format!("dnp3_database_define_{}_attr", names[c.kind]),
            format!("{c:?}: the binding returned {ra}, the native call {rb}"),
        ));
        return res;
    }
    // read all attributes of the set back
    let req = app::request(1, fc::READ, &[0, 254, 0x00, c.set, c.set]);
    let mut frags = Vec::new();
    for s in [&mut a, &mut b] {
        s.take_out();
        s.send(&req);
        let f: Vec<Vec<u8>> = s.take_out().iter().filter_map(|t: &Tx| t.frag().map(|f| f.to_vec())).collect();
        frags.push(f);
    }
    res.obs = fnv_str(&format!("{c:?} {ra} {:?}", frags[0]));
    if transcript {
        res.transcript.push(format!("binding side reports {:?}", frags[0].iter().map(|f| app::hex(f)).collect::<Vec<_>>()));
        res.transcript.push(format!("native side reports  {:?}", frags[1].iter().map(|f| app::hex(f)).collect::<Vec<_>>()));
    }
    if frags[0] != frags[1] {
        res.violation = Some(Violation::new(
            "C20.D2",
            format!("dnp3_database_define_{}_attr effect", names[c.kind]),
            format!("{c:?}: attribute read-back differs: binding {:?}, native {:?}", frags[0], frags[1]),
        ));
    }
    res
}
