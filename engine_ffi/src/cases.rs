//! a finite table of executable conversion cases

use std::fmt::Debug;
use std::os::raw::c_int;

use crate::explore::{fnv_str, CaseSpace, RunResult, Violation};
use crate::kernel;

pub struct Outcome {
    pub got: String,
    pub want: String,
}

pub struct Case {
    /// clause of the property the case belongs to
    pub clause: &'static str,
    /// the conversion (impl or exported function) being driven
    pub conv: String,
    /// printable input
    pub input: String,
    pub run: Box<dyn Fn() -> Outcome + Send + Sync>,
}

pub struct Table {
    name: String,
    cases: Vec<Case>,
}

impl Table {
    pub fn new(name: &str, cases: Vec<Case>) -> Self {
        Self { name: name.to_string(), cases }
    }
}

impl CaseSpace for Table {
    fn name(&self) -> String {
        self.name.clone()
    }
    fn total(&self) -> usize {
        self.cases.len()
    }
    fn run(&self, index: usize, transcript: bool) -> RunResult {
        let c = &self.cases[index];
        let mut res = RunResult::default();
        res.transitions = 1;
        res.obs = fnv_str(&format!("{}|{}", c.conv, c.input));
        match kernel::guarded(|| (c.run)()) {
            Ok(o) => {
                res.nontrivial = true;
                res.model_states.push(fnv_str(&o.want));
                if transcript {
                    res.transcript.push(format!("conversion: {}", c.conv));
                    res.transcript.push(format!("input:      {}", c.input));
                    res.transcript.push(format!("expected:   {}", o.want));
                    res.transcript.push(format!("observed:   {}", o.got));
                }
                if o.got != o.want {
                    res.violation = Some(Violation::new(
                        c.clause,
                        c.conv.clone(),
                        format!("{}: input {} gave {} but its namesake is {}", c.conv, c.input, o.got, o.want),
                    ));
                }
            }
            Err(p) => {
                if transcript {
                    res.transcript.push(format!("conversion: {}", c.conv));
                    res.transcript.push(format!("input:      {}", c.input));
                    res.transcript.push(format!("panic:      {p}"));
                }
                res.violation = Some(Violation::new(
                    "C20.P0",
                    c.conv.clone(),
                    format!("{}: input {} panics: {p}", c.conv, c.input),
                ));
            }
        }
        res
    }
}

/// every variant of a generated ffi enumeration, discovered through its own From<c_int>
/// (which panics for a number that is no variant); scanned once per type
pub fn variants<E: From<c_int> + Copy + 'static>() -> Vec<E> {
    use std::any::TypeId;
    use std::collections::HashMap;
    use std::sync::{Mutex, OnceLock};
    static CACHE: OnceLock<Mutex<HashMap<TypeId, Vec<c_int>>>> = OnceLock::new();
    let cache = CACHE.get_or_init(Default::default);
    let id = TypeId::of::<E>();
    let known = cache.lock().unwrap().get(&id).cloned();
    let ints = match known {
        Some(v) => v,
        None => {
            let v: Vec<c_int> = (0..=4096).filter(|i| kernel::guarded(|| E::from(*i)).is_ok()).collect();
            cache.lock().unwrap().insert(id, v.clone());
            v
        }
    };
    ints.into_iter().map(E::from).collect()
}

/// leading identifier of a Debug rendering, lower-cased, without separators:
/// `WaitAfterDisconnect(5s)` -> `waitafterdisconnect`
pub fn norm(s: &str) -> String {
    s.chars()
        .take_while(|c| c.is_ascii_alphanumeric() || *c == '_')
        .filter(|c| *c != '_')
        .map(|c| c.to_ascii_lowercase())
        .collect()
}

pub fn dbg<T: Debug>(v: &T) -> String {
    format!("{v:?}")
}

/// name of an ffi enumeration value carried as a c_int
pub fn name_of<E: From<c_int> + Debug + Copy + 'static>(v: c_int) -> String {
    match kernel::guarded(|| E::from(v)) {
        Ok(e) => norm(&dbg(&e)),
        Err(_) => format!("<{v} is no variant>"),
    }
}
