//! C20 part 3: native values pushed through the real `impl <native trait> for ffi::<interface>`
//! adapters into recording `extern "C"` callbacks (what a C / .NET / Java application sees).

use std::ffi::CStr;
use std::future::Future;
use std::os::raw::{c_char, c_int, c_void};

use dnp3::app::attr::*;
use dnp3::app::control::*;
use dnp3::app::measurement::*;
use dnp3::app::*;
use dnp3::master::{AssociationHandler, AssociationInformation, HeaderInfo, ReadHandler, ReadType, TaskType};
use dnp3::outstation::database::DatabaseHandle;
use dnp3::outstation::*;
use dnp3_ffi::ffi;

use crate::cases::{dbg, name_of, norm, variants, Case, Outcome};
use crate::conv::{ffi_time_text, native_times, time_text, ANALOGS, COUNTS, INSTANTS};
use crate::osim::{OCfg, OSim};

type Log = Vec<String>;

fn log(ctx: *mut c_void, s: String) {
    unsafe { (*(ctx as *mut Log)).push(s) }
}

fn info_text(i: &ffi::HeaderInfo) -> String {
    format!("{}/{}/{}/{}", name_of::<ffi::Variation>(i.variation), name_of::<ffi::QualifierCode>(i.qualifier), i.is_event, i.has_flags)
}

fn native_info_text(i: &HeaderInfo) -> String {
    format!("{}/{}/{}/{}", norm(&dbg(&i.variation)), norm(&dbg(&i.qualifier)), i.is_event, i.has_flags)
}

fn header_text(h: &ffi::ResponseHeader) -> String {
    let c = &h.control_field;
    let a = &h.iin.iin1;
    let b = &h.iin.iin2;
    format!(
        "{}/{}/{}/{}/{} {} iin1={:?} iin2={:?}",
        c.fir,
        c.fin,
        c.con,
        c.uns,
        c.seq,
        name_of::<ffi::ResponseFunction>(h.func),
        [a.broadcast, a.class_1_events, a.class_2_events, a.class_3_events, a.need_time, a.local_control, a.device_trouble, a.device_restart],
        [
            b.no_func_code_support,
            b.object_unknown,
            b.parameter_error,
            b.event_buffer_overflow,
            b.already_executing,
            b.config_corrupt,
            b.reserved_2,
            b.reserved_1
        ]
    )
}

fn native_header_text(ctrl: u8, func: ResponseFunction, i1: u8, i2: u8) -> String {
    let bits = |x: u8| -> Vec<bool> { (0..8).map(|k| (x >> k) & 1 == 1).collect() };
    format!(
        "{}/{}/{}/{}/{} {} iin1={:?} iin2={:?}",
        ctrl & 0x80 != 0,
        ctrl & 0x40 != 0,
        ctrl & 0x20 != 0,
        ctrl & 0x10 != 0,
        ctrl & 0x0F,
        norm(&dbg(&func)),
        bits(i1),
        bits(i2)
    )
}

// ---------------------------------------------------------------------------------------
// recording read handler
// ---------------------------------------------------------------------------------------

extern "C" fn rh_begin(read_type: c_int, header: ffi::ResponseHeader, ctx: *mut c_void) {
    log(ctx, format!("begin {} {}", name_of::<ffi::ReadType>(read_type), header_text(&header)));
}
extern "C" fn rh_end(read_type: c_int, header: ffi::ResponseHeader, ctx: *mut c_void) {
    log(ctx, format!("end {} {}", name_of::<ffi::ReadType>(read_type), header_text(&header)));
}

macro_rules! rh_iter {
    ($fname:ident, $it:ident, $next:ident, $label:expr, |$x:ident| $fmt:expr) => {
        extern "C" fn $fname(info: ffi::HeaderInfo, values: *mut dnp3_ffi::$it, ctx: *mut c_void) {
            log(ctx, format!("{} {}", $label, info_text(&info)));
            loop {
                let p = unsafe { ffi::$next(values) };
                if p.is_null() {
                    break;
                }
                let $x = unsafe { &*p };
                log(ctx, $fmt);
            }
        }
    };
}

rh_iter!(rh_binary, BinaryInputIterator, dnp3_binary_input_iterator_next, "binary", |x| format!(
    "{} {} {:#04x} {}",
    x.index,
    x.value,
    x.flags.value,
    ffi_time_text(&x.time)
));
rh_iter!(rh_double, DoubleBitBinaryInputIterator, dnp3_double_bit_binary_input_iterator_next, "double", |x| format!(
    "{} {} {:#04x} {}",
    x.index,
    name_of::<ffi::DoubleBit>(x.value),
    x.flags.value,
    ffi_time_text(&x.time)
));
rh_iter!(rh_bos, BinaryOutputStatusIterator, dnp3_binary_output_status_iterator_next, "bostatus", |x| format!(
    "{} {} {:#04x} {}",
    x.index,
    x.value,
    x.flags.value,
    ffi_time_text(&x.time)
));
rh_iter!(rh_counter, CounterIterator, dnp3_counter_iterator_next, "counter", |x| format!(
    "{} {} {:#04x} {}",
    x.index,
    x.value,
    x.flags.value,
    ffi_time_text(&x.time)
));
rh_iter!(rh_frozen, FrozenCounterIterator, dnp3_frozen_counter_iterator_next, "frozen", |x| format!(
    "{} {} {:#04x} {}",
    x.index,
    x.value,
    x.flags.value,
    ffi_time_text(&x.time)
));
rh_iter!(rh_analog, AnalogInputIterator, dnp3_analog_input_iterator_next, "analog", |x| format!(
    "{} {:#018x} {:#04x} {}",
    x.index,
    x.value.to_bits(),
    x.flags.value,
    ffi_time_text(&x.time)
));
rh_iter!(rh_frozen_analog, FrozenAnalogInputIterator, dnp3_frozen_analog_input_iterator_next, "frozenanalog", |x| format!(
    "{} {:#018x} {:#04x} {}",
    x.index,
    x.value.to_bits(),
    x.flags.value,
    ffi_time_text(&x.time)
));
rh_iter!(rh_aos, AnalogOutputStatusIterator, dnp3_analog_output_status_iterator_next, "aostatus", |x| format!(
    "{} {:#018x} {:#04x} {}",
    x.index,
    x.value.to_bits(),
    x.flags.value,
    ffi_time_text(&x.time)
));
rh_iter!(rh_boce, BinaryOutputCommandEventIterator, dnp3_binary_output_command_event_iterator_next, "bocommand", |x| format!(
    "{} {} {} {}",
    x.index,
    name_of::<ffi::CommandStatus>(x.status),
    x.commanded_state,
    ffi_time_text(&x.time)
));
rh_iter!(rh_aoce, AnalogOutputCommandEventIterator, dnp3_analog_output_command_event_iterator_next, "aocommand", |x| format!(
    "{} {} {:#018x} {} {}",
    x.index,
    name_of::<ffi::CommandStatus>(x.status),
    x.commanded_value.to_bits(),
    name_of::<ffi::AnalogCommandType>(x.command_type),
    ffi_time_text(&x.time)
));
rh_iter!(rh_uint, UnsignedIntegerIterator, dnp3_unsigned_integer_iterator_next, "uint", |x| format!("{} {}", x.index, x.value));

fn drain_bytes(it: *mut dnp3_ffi::ByteIterator<'_>) -> Vec<u8> {
    let mut out = Vec::new();
    loop {
        let p = unsafe { ffi::dnp3_byte_iterator_next(it as *mut _) };
        if p.is_null() {
            break;
        }
        out.push(unsafe { *p });
    }
    out
}

extern "C" fn rh_octets<'a>(info: ffi::HeaderInfo, values: *mut dnp3_ffi::OctetStringIterator<'a>, ctx: *mut c_void) {
    log(ctx, format!("octets {}", info_text(&info)));
    loop {
        let p = unsafe { ffi::dnp3_octet_string_iterator_next(values as *mut _) };
        if p.is_null() {
            break;
        }
        let x = unsafe { &*p };
        let bytes = drain_bytes(x.value as *mut _);
        log(ctx, format!("{} {:?}", x.index, bytes));
    }
}
extern "C" fn rh_abs_time(info: ffi::HeaderInfo, time: ffi::Timestamp, ctx: *mut c_void) {
    log(ctx, format!("abstime {} {}", info_text(&info), ffi_time_text(&time)));
}
extern "C" fn rh_string_attr(info: ffi::HeaderInfo, attr: c_int, set: u8, variation: u8, value: *const c_char, ctx: *mut c_void) {
    let s = unsafe { CStr::from_ptr(value) }.to_string_lossy().to_string();
    log(ctx, format!("attr {} string {} {set} {variation} {s:?}", info_text(&info), name_of::<ffi::StringAttr>(attr)));
}
extern "C" fn rh_list_attr(info: ffi::HeaderInfo, attr: c_int, set: u8, variation: u8, value: *mut dnp3_ffi::AttrItemIter, ctx: *mut c_void) {
    let mut items = Vec::new();
    loop {
        let p = unsafe { ffi::dnp3_attr_item_iter_next(value as *mut _) };
        if p.is_null() {
            break;
        }
        let x = unsafe { &*p };
        items.push((x.variation, x.properties.is_writable));
    }
    log(ctx, format!("attr {} list {} {set} {variation} {items:?}", info_text(&info), name_of::<ffi::VariationListAttr>(attr)));
}
extern "C" fn rh_uint_attr(info: ffi::HeaderInfo, attr: c_int, set: u8, variation: u8, value: u32, ctx: *mut c_void) {
    log(ctx, format!("attr {} uint {} {set} {variation} {value}", info_text(&info), name_of::<ffi::UintAttr>(attr)));
}
extern "C" fn rh_bool_attr(info: ffi::HeaderInfo, attr: c_int, set: u8, variation: u8, value: bool, ctx: *mut c_void) {
    log(ctx, format!("attr {} bool {} {set} {variation} {value}", info_text(&info), name_of::<ffi::BoolAttr>(attr)));
}
extern "C" fn rh_int_attr(info: ffi::HeaderInfo, attr: c_int, set: u8, variation: u8, value: i32, ctx: *mut c_void) {
    log(ctx, format!("attr {} int {} {set} {variation} {value}", info_text(&info), name_of::<ffi::IntAttr>(attr)));
}
extern "C" fn rh_time_attr(info: ffi::HeaderInfo, attr: c_int, set: u8, variation: u8, value: u64, ctx: *mut c_void) {
    log(ctx, format!("attr {} time {} {set} {variation} {value}", info_text(&info), name_of::<ffi::TimeAttr>(attr)));
}
extern "C" fn rh_float_attr(info: ffi::HeaderInfo, attr: c_int, set: u8, variation: u8, value: f64, ctx: *mut c_void) {
    log(ctx, format!("attr {} float {} {set} {variation} {:#018x}", info_text(&info), name_of::<ffi::FloatAttr>(attr), value.to_bits()));
}
extern "C" fn rh_octet_attr<'a>(info: ffi::HeaderInfo, attr: c_int, set: u8, variation: u8, value: *mut dnp3_ffi::ByteIterator<'a>, ctx: *mut c_void) {
    let b = drain_bytes(value);
    log(ctx, format!("attr {} octets {} {set} {variation} {b:?}", info_text(&info), name_of::<ffi::OctetStringAttr>(attr)));
}
extern "C" fn rh_bits_attr<'a>(info: ffi::HeaderInfo, attr: c_int, set: u8, variation: u8, value: *mut dnp3_ffi::ByteIterator<'a>, ctx: *mut c_void) {
    let b = drain_bytes(value);
    log(ctx, format!("attr {} bits {} {set} {variation} {b:?}", info_text(&info), name_of::<ffi::BitStringAttr>(attr)));
}

fn read_handler(log: &mut Log) -> ffi::ReadHandler {
    ffi::ReadHandler {
        begin_fragment: Some(rh_begin),
        end_fragment: Some(rh_end),
        handle_binary_input: Some(rh_binary),
        handle_double_bit_binary_input: Some(rh_double),
        handle_binary_output_status: Some(rh_bos),
        handle_counter: Some(rh_counter),
        handle_frozen_counter: Some(rh_frozen),
        handle_analog_input: Some(rh_analog),
        handle_frozen_analog_input: Some(rh_frozen_analog),
        handle_analog_output_status: Some(rh_aos),
        handle_binary_output_command_event: Some(rh_boce),
        handle_analog_output_command_event: Some(rh_aoce),
        handle_unsigned_integer: Some(rh_uint),
        handle_octet_string: Some(rh_octets),
        handle_abs_time: Some(rh_abs_time),
        handle_string_attr: Some(rh_string_attr),
        handle_variation_list_attr: Some(rh_list_attr),
        handle_uint_attr: Some(rh_uint_attr),
        handle_bool_attr: Some(rh_bool_attr),
        handle_int_attr: Some(rh_int_attr),
        handle_time_attr: Some(rh_time_attr),
        handle_float_attr: Some(rh_float_attr),
        handle_octet_string_attr: Some(rh_octet_attr),
        handle_bit_string_attr: Some(rh_bits_attr),
        on_destroy: None,
        ctx: log as *mut Log as *mut c_void,
    }
}

fn hinfo(v: Variation) -> HeaderInfo {
    HeaderInfo { variation: v, qualifier: QualifierCode::Range16, is_event: false, has_flags: true }
}

fn flags_menu(tier: &str) -> Vec<u8> {
    if tier == "quick" {
        vec![0x00, 0x01, 0x02, 0x04, 0x08, 0x10, 0x20, 0x40, 0x80, 0xFF]
    } else {
        (0..=255u8).collect()
    }
}

fn status_name(s: CommandStatus) -> String {
    norm(&dbg(&s))
}

macro_rules! meas_cases {
    ($v:ident, $tier:ident, $method:ident, $T:ident, $label:expr, $var:expr, $vals:expr, |$val:ident| $mk:expr, |$w:ident| $wtext:expr) => {{
        let variation: Variation = $var;
        for $val in $vals {
            for fl in flags_menu($tier) {
                for t in native_times($tier) {
                    let input = format!("value={:?} flags={fl:#04x} time={}", $val, time_text(t));
                    $v.push(Case {
                        clause: "C20.H1",
                        conv: format!("ReadHandler::{} for ffi::ReadHandler ({} -> ffi::{})", stringify!($method), stringify!($T), stringify!($T)),
                        input,
                        run: Box::new(move || {
                            let mut log = Log::new();
                            let mut h = read_handler(&mut log);
                            let m = $T { value: $mk, flags: Flags { value: fl }, time: t };
                            // two objects with different indices: order and index must survive
                            let items = vec![(m, 7u16), (m, 65535u16)];
                            let info = hinfo(variation);
                            ReadHandler::$method(&mut h, info, &mut items.into_iter());
                            let $w = $val;
                            let text = $wtext;
                            let want = vec![
                                format!("{} {}", $label, native_info_text(&info)),
                                format!("7 {} {fl:#04x} {}", text, time_text(t)),
                                format!("65535 {} {fl:#04x} {}", text, time_text(t)),
                            ];
                            Outcome { got: dbg(&log), want: dbg(&want) }
                        }),
                    });
                }
            }
        }
    }};
}

// ---------------------------------------------------------------------------------------
// recording control handler / application / information
// ---------------------------------------------------------------------------------------

struct Ret {
    log: Log,
    /// value the callback answers with (a c_int of the proper ffi enumeration)
    answer: c_int,
    delay: Option<ffi::RestartDelay>,
    iin: usize,
}

fn rlog(ctx: *mut c_void, s: String) -> c_int {
    let r = unsafe { &mut *(ctx as *mut Ret) };
    r.log.push(s);
    r.answer
}

fn g12_text(v: &ffi::Group12Var1) -> String {
    format!(
        "{}/{}/{}/{} count={} on={} off={}",
        name_of::<ffi::TripCloseCode>(v.code.tcc),
        v.code.clear,
        v.code.queue,
        name_of::<ffi::OpType>(v.code.op_type),
        v.count,
        v.on_time,
        v.off_time
    )
}

extern "C" fn ch_begin(ctx: *mut c_void) {
    rlog(ctx, "begin".into());
}
extern "C" fn ch_end(_db: *mut DatabaseHandle, ctx: *mut c_void) {
    rlog(ctx, "end".into());
}
extern "C" fn ch_sel_g12(value: ffi::Group12Var1, index: u16, _db: *mut DatabaseHandle, ctx: *mut c_void) -> c_int {
    rlog(ctx, format!("select g12v1 {} {index}", g12_text(&value)))
}
extern "C" fn ch_op_g12(value: ffi::Group12Var1, index: u16, op: c_int, _db: *mut DatabaseHandle, ctx: *mut c_void) -> c_int {
    rlog(ctx, format!("operate g12v1 {} {index} {}", g12_text(&value), name_of::<ffi::OperateType>(op)))
}
macro_rules! ch_analog {
    ($sel:ident, $op:ident, $T:ty, $label:expr) => {
        extern "C" fn $sel(value: $T, index: u16, _db: *mut DatabaseHandle, ctx: *mut c_void) -> c_int {
            rlog(ctx, format!("select {} {:?} {index}", $label, value))
        }
        extern "C" fn $op(value: $T, index: u16, op: c_int, _db: *mut DatabaseHandle, ctx: *mut c_void) -> c_int {
            rlog(ctx, format!("operate {} {:?} {index} {}", $label, value, name_of::<ffi::OperateType>(op)))
        }
    };
}
ch_analog!(ch_sel_41v1, ch_op_41v1, i32, "g41v1");
ch_analog!(ch_sel_41v2, ch_op_41v2, i16, "g41v2");
ch_analog!(ch_sel_41v3, ch_op_41v3, f32, "g41v3");
ch_analog!(ch_sel_41v4, ch_op_41v4, f64, "g41v4");

fn control_handler(r: &mut Ret) -> ffi::ControlHandler {
    ffi::ControlHandler {
        begin_fragment: Some(ch_begin),
        end_fragment: Some(ch_end),
        select_g12v1: Some(ch_sel_g12),
        operate_g12v1: Some(ch_op_g12),
        select_g41v1: Some(ch_sel_41v1),
        operate_g41v1: Some(ch_op_41v1),
        select_g41v2: Some(ch_sel_41v2),
        operate_g41v2: Some(ch_op_41v2),
        select_g41v3: Some(ch_sel_41v3),
        operate_g41v3: Some(ch_op_41v3),
        select_g41v4: Some(ch_sel_41v4),
        operate_g41v4: Some(ch_op_41v4),
        on_destroy: None,
        ctx: r as *mut Ret as *mut c_void,
    }
}

extern "C" fn oa_delay(_ctx: *mut c_void) -> u16 {
    4321
}
extern "C" fn oa_write_time(time: u64, ctx: *mut c_void) -> c_int {
    rlog(ctx, format!("write_absolute_time {time}"))
}
extern "C" fn oa_iin(ctx: *mut c_void) -> ffi::ApplicationIin {
    let r = unsafe { &mut *(ctx as *mut Ret) };
    let n = r.iin;
    ffi::ApplicationIin { need_time: n & 1 != 0, local_control: n & 2 != 0, device_trouble: n & 4 != 0, config_corrupt: n & 8 != 0 }
}
extern "C" fn oa_cold(ctx: *mut c_void) -> ffi::RestartDelay {
    let r = unsafe { &mut *(ctx as *mut Ret) };
    r.log.push("cold_restart".into());
    r.delay.clone().unwrap()
}
extern "C" fn oa_warm(ctx: *mut c_void) -> ffi::RestartDelay {
    let r = unsafe { &mut *(ctx as *mut Ret) };
    r.log.push("warm_restart".into());
    r.delay.clone().unwrap()
}
extern "C" fn oa_freeze_all(freeze_type: c_int, _db: *mut DatabaseHandle, ctx: *mut c_void) -> c_int {
    rlog(ctx, format!("freeze all {}", name_of::<ffi::FreezeType>(freeze_type)))
}
extern "C" fn oa_freeze_all_at(_db: *mut DatabaseHandle, time: u64, interval: u32, ctx: *mut c_void) -> c_int {
    rlog(ctx, format!("freeze all at {time} {interval}"))
}
extern "C" fn oa_freeze_range(start: u16, stop: u16, freeze_type: c_int, _db: *mut DatabaseHandle, ctx: *mut c_void) -> c_int {
    rlog(ctx, format!("freeze range {start} {stop} {}", name_of::<ffi::FreezeType>(freeze_type)))
}
extern "C" fn oa_freeze_range_at(start: u16, stop: u16, _db: *mut DatabaseHandle, time: u64, interval: u32, ctx: *mut c_void) -> c_int {
    rlog(ctx, format!("freeze range {start} {stop} at {time} {interval}"))
}
extern "C" fn oa_support_db(_ctx: *mut c_void) -> bool {
    true
}
extern "C" fn oa_begin_db(ctx: *mut c_void) {
    rlog(ctx, "begin_write_analog_dead_bands".into());
}
extern "C" fn oa_write_db(index: u16, dead_band: f64, ctx: *mut c_void) {
    rlog(ctx, format!("write_analog_dead_band {index} {:#018x}", dead_band.to_bits()));
}
extern "C" fn oa_end_db(ctx: *mut c_void) {
    rlog(ctx, "end_write_analog_dead_bands".into());
}
extern "C" fn oa_w_string(set: u8, variation: u8, attr: c_int, value: *const c_char, ctx: *mut c_void) -> bool {
    let s = unsafe { CStr::from_ptr(value) }.to_string_lossy().to_string();
    rlog(ctx, format!("write string {} {set} {variation} {s:?}", name_of::<ffi::StringAttr>(attr)));
    true
}
extern "C" fn oa_w_float(set: u8, variation: u8, attr: c_int, value: f32, ctx: *mut c_void) -> bool {
    rlog(ctx, format!("write float {} {set} {variation} {:#010x}", name_of::<ffi::FloatAttr>(attr), value.to_bits()));
    true
}
extern "C" fn oa_w_double(set: u8, variation: u8, attr: c_int, value: f64, ctx: *mut c_void) -> bool {
    rlog(ctx, format!("write double {} {set} {variation} {:#018x}", name_of::<ffi::FloatAttr>(attr), value.to_bits()));
    true
}
extern "C" fn oa_w_uint(set: u8, variation: u8, attr: c_int, value: u32, ctx: *mut c_void) -> bool {
    rlog(ctx, format!("write uint {} {set} {variation} {value}", name_of::<ffi::UintAttr>(attr)));
    true
}
extern "C" fn oa_w_int(set: u8, variation: u8, attr: c_int, value: i32, ctx: *mut c_void) -> bool {
    rlog(ctx, format!("write int {} {set} {variation} {value}", name_of::<ffi::IntAttr>(attr)));
    true
}
extern "C" fn oa_w_octets<'a>(set: u8, variation: u8, attr: c_int, value: *mut dnp3_ffi::ByteIterator<'a>, ctx: *mut c_void) -> bool {
    let b = drain_bytes(value);
    rlog(ctx, format!("write octets {} {set} {variation} {b:?}", name_of::<ffi::OctetStringAttr>(attr)));
    true
}
extern "C" fn oa_w_bits<'a>(set: u8, variation: u8, attr: c_int, value: *mut dnp3_ffi::ByteIterator<'a>, ctx: *mut c_void) -> bool {
    let b = drain_bytes(value);
    rlog(ctx, format!("write bits {} {set} {variation} {b:?}", name_of::<ffi::BitStringAttr>(attr)));
    true
}
extern "C" fn oa_w_time(set: u8, variation: u8, attr: c_int, value: u64, ctx: *mut c_void) -> bool {
    rlog(ctx, format!("write time {} {set} {variation} {value}", name_of::<ffi::TimeAttr>(attr)));
    true
}
extern "C" fn oa_begin_confirm(ctx: *mut c_void) {
    rlog(ctx, "begin_confirm".into());
}
extern "C" fn oa_event_cleared(id: u64, ctx: *mut c_void) {
    rlog(ctx, format!("event_cleared {id}"));
}
extern "C" fn oa_end_confirm(state: ffi::BufferState, ctx: *mut c_void) {
    rlog(
        ctx,
        format!(
            "end_confirm {:?}",
            [
                state.classes.num_class_1,
                state.classes.num_class_2,
                state.classes.num_class_3,
                state.types.num_binary_input,
                state.types.num_double_bit_binary_input,
                state.types.num_binary_output_status,
                state.types.num_counter,
                state.types.num_frozen_counter,
                state.types.num_analog,
                state.types.num_analog_output_status,
                state.types.num_octet_string
            ]
        ),
    );
}

fn application(r: &mut Ret) -> ffi::OutstationApplication {
    ffi::OutstationApplication {
        get_processing_delay_ms: Some(oa_delay),
        write_absolute_time: Some(oa_write_time),
        get_application_iin: Some(oa_iin),
        cold_restart: Some(oa_cold),
        warm_restart: Some(oa_warm),
        freeze_counters_all: Some(oa_freeze_all),
        freeze_counters_all_at_time: Some(oa_freeze_all_at),
        freeze_counters_range: Some(oa_freeze_range),
        freeze_counters_range_at_time: Some(oa_freeze_range_at),
        support_write_analog_dead_bands: Some(oa_support_db),
        begin_write_analog_dead_bands: Some(oa_begin_db),
        write_analog_dead_band: Some(oa_write_db),
        end_write_analog_dead_bands: Some(oa_end_db),
        write_string_attr: Some(oa_w_string),
        write_float_attr: Some(oa_w_float),
        write_double_attr: Some(oa_w_double),
        write_uint_attr: Some(oa_w_uint),
        write_int_attr: Some(oa_w_int),
        write_octet_string_attr: Some(oa_w_octets),
        write_bit_string_attr: Some(oa_w_bits),
        write_time_attr: Some(oa_w_time),
        begin_confirm: Some(oa_begin_confirm),
        event_cleared: Some(oa_event_cleared),
        end_confirm: Some(oa_end_confirm),
        on_destroy: None,
        ctx: r as *mut Ret as *mut c_void,
    }
}

extern "C" fn oi_idle(header: ffi::RequestHeader, ctx: *mut c_void) {
    let c = &header.control_field;
    rlog(ctx, format!("process_request_from_idle {}/{}/{}/{}/{} {}", c.fir, c.fin, c.con, c.uns, c.seq, name_of::<ffi::FunctionCode>(header.function)));
}
extern "C" fn oi_broadcast(function_code: c_int, action: c_int, ctx: *mut c_void) {
    rlog(ctx, format!("broadcast_received {} {}", name_of::<ffi::FunctionCode>(function_code), name_of::<ffi::BroadcastAction>(action)));
}
extern "C" fn oi_u8_a(x: u8, ctx: *mut c_void) {
    rlog(ctx, format!("enter_solicited_confirm_wait {x}"));
}
extern "C" fn oi_u8_b(x: u8, ctx: *mut c_void) {
    rlog(ctx, format!("solicited_confirm_timeout {x}"));
}
extern "C" fn oi_u8_c(x: u8, ctx: *mut c_void) {
    rlog(ctx, format!("solicited_confirm_received {x}"));
}
extern "C" fn oi_none_a(ctx: *mut c_void) {
    rlog(ctx, "solicited_confirm_wait_new_request".into());
}
extern "C" fn oi_wrong(ecsn: u8, seq: u8, ctx: *mut c_void) {
    rlog(ctx, format!("wrong_solicited_confirm_seq {ecsn} {seq}"));
}
extern "C" fn oi_unexpected(uns: bool, seq: u8, ctx: *mut c_void) {
    rlog(ctx, format!("unexpected_confirm {uns} {seq}"));
}
extern "C" fn oi_u8_d(x: u8, ctx: *mut c_void) {
    rlog(ctx, format!("enter_unsolicited_confirm_wait {x}"));
}
extern "C" fn oi_uns_to(ecsn: u8, retry: bool, ctx: *mut c_void) {
    rlog(ctx, format!("unsolicited_confirm_timeout {ecsn} {retry}"));
}
extern "C" fn oi_u8_e(x: u8, ctx: *mut c_void) {
    rlog(ctx, format!("unsolicited_confirmed {x}"));
}
extern "C" fn oi_none_b(ctx: *mut c_void) {
    rlog(ctx, "clear_restart_iin".into());
}

fn information(r: &mut Ret) -> ffi::OutstationInformation {
    ffi::OutstationInformation {
        process_request_from_idle: Some(oi_idle),
        broadcast_received: Some(oi_broadcast),
        enter_solicited_confirm_wait: Some(oi_u8_a),
        solicited_confirm_timeout: Some(oi_u8_b),
        solicited_confirm_received: Some(oi_u8_c),
        solicited_confirm_wait_new_request: Some(oi_none_a),
        wrong_solicited_confirm_seq: Some(oi_wrong),
        unexpected_confirm: Some(oi_unexpected),
        enter_unsolicited_confirm_wait: Some(oi_u8_d),
        unsolicited_confirm_timeout: Some(oi_uns_to),
        unsolicited_confirmed: Some(oi_u8_e),
        clear_restart_iin: Some(oi_none_b),
        on_destroy: None,
        ctx: r as *mut Ret as *mut c_void,
    }
}

extern "C" fn ai_start(task: c_int, fc: c_int, seq: u8, ctx: *mut c_void) {
    rlog(ctx, format!("task_start {} {} {seq}", name_of::<ffi::TaskType>(task), name_of::<ffi::FunctionCode>(fc)));
}
extern "C" fn ai_success(task: c_int, fc: c_int, seq: u8, ctx: *mut c_void) {
    rlog(ctx, format!("task_success {} {} {seq}", name_of::<ffi::TaskType>(task), name_of::<ffi::FunctionCode>(fc)));
}
extern "C" fn ai_fail(task: c_int, err: c_int, ctx: *mut c_void) {
    rlog(ctx, format!("task_fail {} {}", name_of::<ffi::TaskType>(task), name_of::<ffi::TaskError>(err)));
}
extern "C" fn ai_unsol(dup: bool, seq: u8, ctx: *mut c_void) {
    rlog(ctx, format!("unsolicited_response {dup} {seq}"));
}

fn association_information(r: &mut Ret) -> ffi::AssociationInformation {
    ffi::AssociationInformation {
        task_start: Some(ai_start),
        task_success: Some(ai_success),
        task_fail: Some(ai_fail),
        unsolicited_response: Some(ai_unsol),
        on_destroy: None,
        ctx: r as *mut Ret as *mut c_void,
    }
}

struct Clock {
    value: u64,
    valid: bool,
}
extern "C" fn ah_time(ctx: *mut c_void) -> ffi::UtcTimestamp {
    let c = unsafe { &*(ctx as *mut Clock) };
    ffi::UtcTimestamp { value: c.value, is_valid: c.valid }
}

/// the value of a `MaybeAsync` that is ready (the adapters only build ready ones)
fn now<T>(m: MaybeAsync<T>) -> Option<T> {
    let mut fut = std::pin::pin!(m.get());
    let mut cx = std::task::Context::from_waker(std::task::Waker::noop());
    match fut.as_mut().poll(&mut cx) {
        std::task::Poll::Ready(x) => Some(x),
        std::task::Poll::Pending => None,
    }
}

fn db_handle() -> DatabaseHandle {
    let sim = OSim::new(&OCfg::default(), 1);
    sim.handle.get_database_handle()
}

fn ret(answer: c_int) -> Ret {
    Ret { log: Vec::new(), answer, delay: None, iin: 0 }
}

fn task_types() -> Vec<TaskType> {
    vec![
        TaskType::UserRead,
        TaskType::PeriodicPoll,
        TaskType::StartupIntegrity,
        TaskType::AutoEventScan,
        TaskType::Command,
        TaskType::ClearRestartBit,
        TaskType::EnableUnsolicited,
        TaskType::DisableUnsolicited,
        TaskType::TimeSync,
        TaskType::Restart,
        TaskType::WriteDeadBands,
        TaskType::GenericEmptyResponse(FunctionCode::Write),
        TaskType::FileRead,
        TaskType::FileAuth,
        TaskType::FileOpen,
        TaskType::FileWriteBlock,
        TaskType::FileClose,
        TaskType::GetFileInfo,
    ]
}

// ---------------------------------------------------------------------------------------
// the case table
// ---------------------------------------------------------------------------------------

pub fn cases(tier: &str) -> Vec<Case> {
    let mut v: Vec<Case> = Vec::new();
    let vars = dnp3::verif::seams::all_variations();
    let vars2 = vars.clone();
    let var_of = move |g: u8, x: u8| vars2.iter().find(|v| v.0 == g && v.1 == x).map(|v| v.2).expect("variation exists");

    // ---- measurement values -----------------------------------------------------------
    meas_cases!(v, tier, handle_binary_input, BinaryInput, "binary", var_of(1, 2), [false, true], |val| val, |w| format!("{w}"));
    meas_cases!(v, tier, handle_binary_output_status, BinaryOutputStatus, "bostatus", var_of(10, 2), [false, true], |val| val, |w| format!("{w}"));
    meas_cases!(
        v,
        tier,
        handle_double_bit_binary_input,
        DoubleBitBinaryInput,
        "double",
        var_of(3, 2),
        [DoubleBit::Intermediate, DoubleBit::DeterminedOff, DoubleBit::DeterminedOn, DoubleBit::Indeterminate],
        |val| val,
        |w| norm(&dbg(&w))
    );
    meas_cases!(v, tier, handle_counter, Counter, "counter", var_of(20, 1), COUNTS, |val| val, |w| format!("{w}"));
    meas_cases!(v, tier, handle_frozen_counter, FrozenCounter, "frozen", var_of(21, 1), COUNTS, |val| val, |w| format!("{w}"));
    meas_cases!(v, tier, handle_analog_input, AnalogInput, "analog", var_of(30, 6), ANALOGS, |val| val, |w| format!("{:#018x}", w.to_bits()));
    meas_cases!(
        v,
        tier,
        handle_frozen_analog_input,
        FrozenAnalogInput,
        "frozenanalog",
        var_of(31, 8),
        ANALOGS,
        |val| val,
        |w| format!("{:#018x}", w.to_bits())
    );
    meas_cases!(
        v,
        tier,
        handle_analog_output_status,
        AnalogOutputStatus,
        "aostatus",
        var_of(40, 4),
        ANALOGS,
        |val| val,
        |w| format!("{:#018x}", w.to_bits())
    );

    // command events: every status octet x state x time
    for s in 0..=255u8 {
        for state in [false, true] {
            for t in native_times("quick") {
                v.push(Case {
                    clause: "C20.H1",
                    conv: "ReadHandler::handle_binary_output_command_event for ffi::ReadHandler".into(),
                    input: format!("status={s} state={state} time={}", time_text(t)),
                    run: Box::new(move || {
                        let mut log = Log::new();
                        let mut h = read_handler(&mut log);
                        let st = CommandStatus::from(s);
                        let m = BinaryOutputCommandEvent { commanded_state: state, status: st, time: t };
                        let info = hinfo(dnp3::verif::seams::all_variations().iter().find(|v| v.0 == 13 && v.1 == 2).unwrap().2);
                        ReadHandler::handle_binary_output_command_event(&mut h, info, &mut vec![(m, 9u16)].into_iter());
                        let want = vec![format!("bocommand {}", native_info_text(&info)), format!("9 {} {state} {}", status_name(st), time_text(t))];
                        Outcome { got: dbg(&log), want: dbg(&want) }
                    }),
                });
            }
        }
    }
    {
        let mut values: Vec<(AnalogCommandValue, f64, &'static str)> = Vec::new();
        for x in [0i16, 1, -1, i16::MAX, i16::MIN] {
            values.push((AnalogCommandValue::I16(x), x as f64, "i16"));
        }
        for x in [0i32, 1, -1, i32::MAX, i32::MIN] {
            values.push((AnalogCommandValue::I32(x), x as f64, "i32"));
        }
        for x in [0.0f32, -1.5, f32::MAX, f32::MIN_POSITIVE, f32::INFINITY, f32::NEG_INFINITY] {
            values.push((AnalogCommandValue::F32(x), x as f64, "f32"));
        }
        for x in ANALOGS {
            values.push((AnalogCommandValue::F64(x), x, "f64"));
        }
        for (val, as_f64, ty) in values {
            for s in [0u8, 1, 4, 19, 126, 127, 255] {
                for t in native_times("quick") {
                    v.push(Case {
                        clause: "C20.H1",
                        conv: "ReadHandler::handle_analog_output_command_event for ffi::ReadHandler".into(),
                        input: format!("value={val:?} status={s} time={}", time_text(t)),
                        run: Box::new(move || {
                            let mut log = Log::new();
                            let mut h = read_handler(&mut log);
                            let st = CommandStatus::from(s);
                            let m = AnalogOutputCommandEvent { status: st, commanded_value: val, time: t };
                            let info = hinfo(dnp3::verif::seams::all_variations().iter().find(|v| v.0 == 43 && v.1 == 8).unwrap().2);
                            ReadHandler::handle_analog_output_command_event(&mut h, info, &mut vec![(m, 9u16)].into_iter());
                            let want = vec![
                                format!("aocommand {}", native_info_text(&info)),
                                format!("9 {} {:#018x} {ty} {}", status_name(st), as_f64.to_bits(), time_text(t)),
                            ];
                            Outcome { got: dbg(&log), want: dbg(&want) }
                        }),
                    });
                }
            }
        }
    }
    for x in 0..=255u8 {
        v.push(Case {
            clause: "C20.H1",
            conv: "ReadHandler::handle_unsigned_integer for ffi::ReadHandler".into(),
            input: format!("{x}"),
            run: Box::new(move || {
                let mut log = Log::new();
                let mut h = read_handler(&mut log);
                let info = hinfo(dnp3::verif::seams::all_variations().iter().find(|v| v.0 == 102 && v.1 == 1).unwrap().2);
                ReadHandler::handle_unsigned_integer(&mut h, info, &mut vec![(UnsignedInteger { value: x }, 3u16)].into_iter());
                let want = vec![format!("uint {}", native_info_text(&info)), format!("3 {x}")];
                Outcome { got: dbg(&log), want: dbg(&want) }
            }),
        });
    }
    for data in [vec![], vec![0u8], vec![1, 2, 3], (0..=254u8).collect::<Vec<u8>>()] {
        v.push(Case {
            clause: "C20.H1",
            conv: "ReadHandler::handle_octet_string for ffi::ReadHandler".into(),
            input: format!("{} octets", data.len()),
            run: Box::new(move || {
                let mut log = Log::new();
                let mut h = read_handler(&mut log);
                let info = hinfo(dnp3::verif::seams::all_variations().iter().find(|v| v.0 == 110).unwrap().2);
                let other = [9u8, 8];
                let items: Vec<(&[u8], u16)> = vec![(&data, 2u16), (&other, 65535u16)];
                ReadHandler::handle_octet_string(&mut h, info, &mut items.into_iter());
                let want = vec![format!("octets {}", native_info_text(&info)), format!("2 {:?}", data), format!("65535 {:?}", other)];
                Outcome { got: dbg(&log), want: dbg(&want) }
            }),
        });
    }
    for &t in &INSTANTS {
        v.push(Case {
            clause: "C20.H1",
            conv: "ReadHandler::handle_abs_time for ffi::ReadHandler".into(),
            input: format!("{t}"),
            run: Box::new(move || {
                let mut log = Log::new();
                let mut h = read_handler(&mut log);
                let info = hinfo(dnp3::verif::seams::all_variations().iter().find(|v| v.0 == 50 && v.1 == 1).unwrap().2);
                ReadHandler::handle_abs_time(&mut h, info, Timestamp::new(t));
                let want = vec![format!("abstime {} synchronizedtime:{}", native_info_text(&info), Timestamp::new(t).raw_value())];
                Outcome { got: dbg(&log), want: dbg(&want) }
            }),
        });
    }

    // ---- header info: every variation x every qualifier x event x flags -------------------
    let quals: Vec<QualifierCode> = (0..=255u8).filter_map(QualifierCode::from).collect();
    for (g, x, var) in vars.clone() {
        for q in quals.clone() {
            for n in 0..4usize {
                v.push(Case {
                    clause: "C20.H2",
                    conv: "impl From<HeaderInfo> for ffi::HeaderInfo (through ReadHandler::handle_counter)".into(),
                    input: format!("g{g}v{x} {q:?} is_event={} has_flags={}", n & 1 != 0, n & 2 != 0),
                    run: Box::new(move || {
                        let mut log = Log::new();
                        let mut h = read_handler(&mut log);
                        let info = HeaderInfo { variation: var, qualifier: q, is_event: n & 1 != 0, has_flags: n & 2 != 0 };
                        ReadHandler::handle_counter(&mut h, info, &mut Vec::new().into_iter());
                        let want = vec![format!("counter {}", native_info_text(&info))];
                        Outcome { got: dbg(&log), want: dbg(&want) }
                    }),
                });
            }
        }
    }

    // ---- response headers --------------------------------------------------------------------
    {
        let mut octets: Vec<(u8, u8, u8)> = Vec::new();
        for c in 0..=255u8 {
            octets.push((c, 0, 0));
        }
        for i in 0..=255u8 {
            octets.push((0xC0, i, 0));
            octets.push((0xC0, 0, i));
        }
        for (c, i1, i2) in octets {
            for func in [ResponseFunction::Response, ResponseFunction::UnsolicitedResponse] {
                for rt in [ReadType::StartupIntegrity, ReadType::Unsolicited, ReadType::SinglePoll, ReadType::PeriodicPoll] {
                    if tier == "quick" && rt != ReadType::SinglePoll && !(c == 0xC0 && i1 == 0 && i2 == 0) {
                        continue;
                    }
                    v.push(Case {
                        clause: "C20.H2",
                        conv: "ReadHandler::begin_fragment/end_fragment for ffi::ReadHandler (ResponseHeader)".into(),
                        input: format!("{rt:?} control={c:#04x} {func:?} iin1={i1:#04x} iin2={i2:#04x}"),
                        run: Box::new(move || {
                            let mut log = Log::new();
                            let mut h = read_handler(&mut log);
                            let header = ResponseHeader { control: dnp3::verif::seams::control_field(c), function: func, iin: Iin::new(Iin1::new(i1), Iin2::new(i2)) };
                            let _ = ReadHandler::begin_fragment(&mut h, rt, header);
                            let _ = ReadHandler::end_fragment(&mut h, rt, header);
                            let text = native_header_text(c, func, i1, i2);
                            let want = vec![format!("begin {} {text}", norm(&dbg(&rt))), format!("end {} {text}", norm(&dbg(&rt)))];
                            Outcome { got: dbg(&log), want: dbg(&want) }
                        }),
                    });
                }
            }
        }
    }

    // ---- device attributes: every variation x every value type, default and private set ----------
    for set in [0u8, 1] {
        for var in 0..=255u8 {
            for ty in 0..9usize {
                v.push(Case {
                    clause: "C20.H3",
                    conv: "ReadHandler::handle_device_attribute for ffi::ReadHandler".into(),
                    input: format!("set={set} variation={var} type#{ty}"),
                    run: Box::new(move || attr_case(set, var, ty, false)),
                });
                v.push(Case {
                    clause: "C20.H3",
                    conv: "OutstationApplication::write_device_attr for ffi::OutstationApplication".into(),
                    input: format!("set={set} variation={var} type#{ty}"),
                    run: Box::new(move || attr_case(set, var, ty, true)),
                });
            }
        }
    }

    // ---- controls --------------------------------------------------------------------------------
    let statuses = variants::<ffi::CommandStatus>();
    for code in 0..=255u8 {
        for (k, answer) in statuses.iter().enumerate() {
            // every control code octet with a rotating answer, every answer with code 0x41
            if tier == "quick" && !(code == 0x41 || k == code as usize % statuses.len()) {
                continue;
            }
            let answer = *answer;
            for op in [None, Some(OperateType::SelectBeforeOperate), Some(OperateType::DirectOperate), Some(OperateType::DirectOperateNoAck)] {
                v.push(Case {
                    clause: "C20.H4",
                    conv: "ControlSupport<Group12Var1> for ffi::ControlHandler".into(),
                    input: format!("code={code:#04x} op={op:?} answer={answer:?}"),
                    run: Box::new(move || {
                        let mut r = ret(answer.into());
                        let mut h = control_handler(&mut r);
                        let mut db = db_handle();
                        let cc = dnp3::verif::seams::control_code_from(code);
                        let g = Group12Var1::new(cc, 3, 1000, u32::MAX);
                        let tcc = if dbg(&cc.tcc).starts_with("Unknown") { "nul".to_string() } else { norm(&dbg(&cc.tcc)) };
                        let opn = if dbg(&cc.op_type).starts_with("Unknown") { "nul".to_string() } else { norm(&dbg(&cc.op_type)) };
                        let text = format!("{}/{}/{}/{} count=3 on=1000 off={}", tcc, cc.clear, cc.queue, opn, u32::MAX);
                        let (status, want_log) = match op {
                            None => (ControlSupport::<Group12Var1>::select(&mut h, g, 65535, &mut db), format!("select g12v1 {text} 65535")),
                            Some(o) => (
                                ControlSupport::<Group12Var1>::operate(&mut h, g, 65535, o, &mut db),
                                format!("operate g12v1 {text} 65535 {}", norm(&dbg(&o))),
                            ),
                        };
                        Outcome { got: format!("{:?} -> {}", r.log, norm(&dbg(&status))), want: format!("{:?} -> {}", vec![want_log], norm(&dbg(&answer))) }
                    }),
                });
            }
        }
    }
    macro_rules! analog_controls {
        ($G:ident, $label:expr, $vals:expr) => {
            for val in $vals {
                for op in [None, Some(OperateType::SelectBeforeOperate), Some(OperateType::DirectOperate), Some(OperateType::DirectOperateNoAck)] {
                    for answer in statuses.clone() {
                        v.push(Case {
                            clause: "C20.H4",
                            conv: format!("ControlSupport<{}> for ffi::ControlHandler", stringify!($G)),
                            input: format!("value={val:?} op={op:?} answer={answer:?}"),
                            run: Box::new(move || {
                                let mut r = ret(answer.into());
                                let mut h = control_handler(&mut r);
                                let mut db = db_handle();
                                let g = $G::new(val);
                                let (status, want_log) = match op {
                                    None => (ControlSupport::<$G>::select(&mut h, g, 7, &mut db), format!("select {} {:?} 7", $label, val)),
                                    Some(o) => (ControlSupport::<$G>::operate(&mut h, g, 7, o, &mut db), format!("operate {} {:?} 7 {}", $label, val, norm(&dbg(&o)))),
                                };
                                Outcome { got: format!("{:?} -> {}", r.log, norm(&dbg(&status))), want: format!("{:?} -> {}", vec![want_log], norm(&dbg(&answer))) }
                            }),
                        });
                    }
                }
            }
        };
    }
    analog_controls!(Group41Var1, "g41v1", [0i32, 1, -1, i32::MAX, i32::MIN]);
    analog_controls!(Group41Var2, "g41v2", [0i16, 1, -1, i16::MAX, i16::MIN]);
    analog_controls!(Group41Var3, "g41v3", [0.0f32, -1.5, f32::MAX, f32::INFINITY]);
    analog_controls!(Group41Var4, "g41v4", [0.0f64, -1.5, f64::MAX, f64::NEG_INFINITY]);

    // ---- outstation application ---------------------------------------------------------------------
    for &t in &INSTANTS {
        for answer in variants::<ffi::WriteTimeResult>() {
            v.push(Case {
                clause: "C20.H5",
                conv: "OutstationApplication::write_absolute_time for ffi::OutstationApplication".into(),
                input: format!("{t} answer={answer:?}"),
                run: Box::new(move || {
                    let mut r = ret(answer.into());
                    let mut a = application(&mut r);
                    let res = OutstationApplication::write_absolute_time(&mut a, Timestamp::new(t));
                    let want_res = match norm(&dbg(&answer)).as_str() {
                        "ok" => "Ok(())".to_string(),
                        "parametererror" => "Err(ParameterError)".to_string(),
                        "notsupported" => "Err(NotSupported)".to_string(),
                        o => format!("<unknown answer {o}>"),
                    };
                    Outcome {
                        got: format!("{:?} -> {:?}", r.log, res),
                        want: format!("{:?} -> {}", vec![format!("write_absolute_time {}", Timestamp::new(t).raw_value())], want_res),
                    }
                }),
            });
        }
    }
    for n in 0..16usize {
        v.push(Case {
            clause: "C20.H5",
            conv: "OutstationApplication::get_application_iin for ffi::OutstationApplication".into(),
            input: format!("{n:#06b}"),
            run: Box::new(move || {
                let mut r = ret(0);
                r.iin = n;
                let a = application(&mut r);
                let x = OutstationApplication::get_application_iin(&a);
                Outcome {
                    got: format!("{}/{}/{}/{}", x.need_time, x.local_control, x.device_trouble, x.config_corrupt),
                    want: format!("{}/{}/{}/{}", n & 1 != 0, n & 2 != 0, n & 4 != 0, n & 8 != 0),
                }
            }),
        });
    }
    for ty in variants::<ffi::RestartDelayType>() {
        for val in [0u16, 1, 65535] {
            for cold in [false, true] {
                v.push(Case {
                    clause: "C20.H5",
                    conv: "OutstationApplication::cold_restart/warm_restart for ffi::OutstationApplication".into(),
                    input: format!("cold={cold} {ty:?} {val}"),
                    run: Box::new(move || {
                        let mut r = ret(0);
                        r.delay = Some(ffi::RestartDelay { restart_type: ty.into(), value: val });
                        let mut a = application(&mut r);
                        let res = if cold { OutstationApplication::cold_restart(&mut a) } else { OutstationApplication::warm_restart(&mut a) };
                        let want = match norm(&dbg(&ty)).as_str() {
                            "notsupported" => "None".to_string(),
                            "seconds" => format!("Some(Seconds({val}))"),
                            "milliseconds" => format!("Some(Milliseconds({val}))"),
                            o => format!("<unknown {o}>"),
                        };
                        Outcome {
                            got: format!("{:?} -> {:?}", r.log, res),
                            want: format!("{:?} -> {}", vec![if cold { "cold_restart" } else { "warm_restart" }], want),
                        }
                    }),
                });
            }
        }
    }
    {
        let ts = Timestamp::new(1_600_000_000_123);
        let freezes: Vec<(FreezeType, String)> = vec![
            (FreezeType::ImmediateFreeze, "immediatefreeze".into()),
            (FreezeType::FreezeAndClear, "freezeandclear".into()),
            (FreezeType::FreezeAtTime(FreezeInterval::FreezeOnceImmediately), "at 0 0".into()),
            (FreezeType::FreezeAtTime(FreezeInterval::FreezeOnceAtTime(ts)), "at 1600000000123 0".into()),
            (FreezeType::FreezeAtTime(FreezeInterval::PeriodicallyFreeze(ts, 60_000)), "at 1600000000123 60000".into()),
            (FreezeType::FreezeAtTime(FreezeInterval::PeriodicallyFreezeRelative(u32::MAX)), format!("at 0 {}", u32::MAX)),
        ];
        for (ft, text) in freezes {
            for ind in [FreezeIndices::All, FreezeIndices::Range(0, 0), FreezeIndices::Range(3, 65535)] {
                for answer in variants::<ffi::FreezeResult>() {
                    let text = text.clone();
                    v.push(Case {
                        clause: "C20.H5",
                        conv: "OutstationApplication::freeze_counter for ffi::OutstationApplication".into(),
                        input: format!("{ind:?} {ft:?} answer={answer:?}"),
                        run: Box::new(move || {
                            let mut r = ret(answer.into());
                            let mut a = application(&mut r);
                            let mut db = db_handle();
                            let res = OutstationApplication::freeze_counter(&mut a, ind, ft, &mut db);
                            let want_log = match ind {
                                FreezeIndices::All => format!("freeze all {text}"),
                                FreezeIndices::Range(s, e) => format!("freeze range {s} {e} {text}"),
                            };
                            let want_res = match norm(&dbg(&answer)).as_str() {
                                "ok" => "Ok(())".to_string(),
                                "parametererror" => "Err(ParameterError)".to_string(),
                                "notsupported" => "Err(NotSupported)".to_string(),
                                o => format!("<unknown answer {o}>"),
                            };
                            Outcome { got: format!("{:?} -> {:?}", r.log, res), want: format!("{:?} -> {}", vec![want_log], want_res) }
                        }),
                    });
                }
            }
        }
    }
    for rot in 0..11usize {
        let vals: Vec<usize> = (0..11usize).map(|i| 3 + ((i + rot) % 11) * 5).collect();
        v.push(Case {
            clause: "C20.H5",
            conv: "OutstationApplication::end_confirm for ffi::OutstationApplication (BufferState)".into(),
            input: format!("{vals:?}"),
            run: Box::new(move || {
                let mut r = ret(0);
                let mut a = application(&mut r);
                let n = BufferState {
                    classes: ClassCount { num_class_1: vals[0], num_class_2: vals[1], num_class_3: vals[2] },
                    types: TypeCount {
                        num_binary_input: vals[3],
                        num_double_bit_binary_input: vals[4],
                        num_binary_output_status: vals[5],
                        num_counter: vals[6],
                        num_frozen_counter: vals[7],
                        num_analog: vals[8],
                        num_analog_output_status: vals[9],
                        num_octet_string: vals[10],
                    },
                };
                OutstationApplication::begin_confirm(&mut a);
                OutstationApplication::event_cleared(&mut a, u64::MAX - rot as u64);
                let _ = OutstationApplication::end_confirm(&mut a, n);
                let want = vec!["begin_confirm".to_string(), format!("event_cleared {}", u64::MAX - rot as u64), format!("end_confirm {:?}", vals)];
                Outcome { got: dbg(&r.log), want: dbg(&want) }
            }),
        });
    }
    for (idx, db) in [(0u16, 0.0f64), (65535, 1.5), (7, f64::MAX)] {
        v.push(Case {
            clause: "C20.H5",
            conv: "OutstationApplication::write_analog_dead_band for ffi::OutstationApplication".into(),
            input: format!("{idx} {db}"),
            run: Box::new(move || {
                let mut r = ret(0);
                let mut a = application(&mut r);
                let s = OutstationApplication::support_write_analog_dead_bands(&mut a);
                OutstationApplication::begin_write_analog_dead_bands(&mut a);
                OutstationApplication::write_analog_dead_band(&mut a, idx, db);
                let _ = OutstationApplication::end_write_analog_dead_bands(&mut a);
                let d = OutstationApplication::get_processing_delay_ms(&a);
                let want = vec![
                    "begin_write_analog_dead_bands".to_string(),
                    format!("write_analog_dead_band {idx} {:#018x}", db.to_bits()),
                    "end_write_analog_dead_bands".to_string(),
                ];
                Outcome { got: format!("{s} {d} {:?}", r.log), want: format!("true 4321 {:?}", want) }
            }),
        });
    }

    // ---- outstation information ----------------------------------------------------------------------------
    for fc in (0..=255u8).filter_map(FunctionCode::from) {
        for c in [0xC0u8, 0x3F, 0x95] {
            v.push(Case {
                clause: "C20.H6",
                conv: "OutstationInformation::process_request_from_idle for ffi::OutstationInformation".into(),
                input: format!("control={c:#04x} {fc:?}"),
                run: Box::new(move || {
                    let mut r = ret(0);
                    let mut i = information(&mut r);
                    OutstationInformation::process_request_from_idle(&mut i, RequestHeader { control: dnp3::verif::seams::control_field(c), function: fc });
                    let want = vec![format!(
                        "process_request_from_idle {}/{}/{}/{}/{} {}",
                        c & 0x80 != 0,
                        c & 0x40 != 0,
                        c & 0x20 != 0,
                        c & 0x10 != 0,
                        c & 0x0F,
                        norm(&dbg(&fc))
                    )];
                    Outcome { got: dbg(&r.log), want: dbg(&want) }
                }),
            });
        }
        for action in [
            BroadcastAction::Processed,
            BroadcastAction::IgnoredByConfiguration,
            BroadcastAction::BadObjectHeaders,
            BroadcastAction::UnsupportedFunction(FunctionCode::Read),
        ] {
            v.push(Case {
                clause: "C20.H6",
                conv: "OutstationInformation::broadcast_received for ffi::OutstationInformation".into(),
                input: format!("{fc:?} {action:?}"),
                run: Box::new(move || {
                    let mut r = ret(0);
                    let mut i = information(&mut r);
                    OutstationInformation::broadcast_received(&mut i, fc, action);
                    let want = vec![format!("broadcast_received {} {}", norm(&dbg(&fc)), norm(&dbg(&action)))];
                    Outcome { got: dbg(&r.log), want: dbg(&want) }
                }),
            });
        }
    }
    for s in 0..16u8 {
        v.push(Case {
            clause: "C20.H6",
            conv: "OutstationInformation (sequence-number callbacks) for ffi::OutstationInformation".into(),
            input: format!("seq={s}"),
            run: Box::new(move || {
                let mut r = ret(0);
                let mut i = information(&mut r);
                let q = dnp3::verif::seams::control_field(s).seq;
                let o = dnp3::verif::seams::control_field(15 - s).seq;
                OutstationInformation::enter_solicited_confirm_wait(&mut i, q);
                OutstationInformation::solicited_confirm_timeout(&mut i, q);
                OutstationInformation::solicited_confirm_received(&mut i, q);
                OutstationInformation::solicited_confirm_wait_new_request(&mut i);
                OutstationInformation::wrong_solicited_confirm_seq(&mut i, q, o);
                OutstationInformation::unexpected_confirm(&mut i, s % 2 == 0, q);
                OutstationInformation::enter_unsolicited_confirm_wait(&mut i, q);
                OutstationInformation::unsolicited_confirm_timeout(&mut i, q, s % 2 == 1);
                OutstationInformation::unsolicited_confirmed(&mut i, q);
                OutstationInformation::clear_restart_iin(&mut i);
                let want = vec![
                    format!("enter_solicited_confirm_wait {s}"),
                    format!("solicited_confirm_timeout {s}"),
                    format!("solicited_confirm_received {s}"),
                    "solicited_confirm_wait_new_request".to_string(),
                    format!("wrong_solicited_confirm_seq {s} {}", 15 - s),
                    format!("unexpected_confirm {} {s}", s % 2 == 0),
                    format!("enter_unsolicited_confirm_wait {s}"),
                    format!("unsolicited_confirm_timeout {s} {}", s % 2 == 1),
                    format!("unsolicited_confirmed {s}"),
                    "clear_restart_iin".to_string(),
                ];
                Outcome { got: dbg(&r.log), want: dbg(&want) }
            }),
        });
    }

    // ---- association information / handler -----------------------------------------------------------------------
    for tt in task_types() {
        for fc in (0..=255u8).filter_map(FunctionCode::from) {
            v.push(Case {
                clause: "C20.H6",
                conv: "AssociationInformation::task_start/task_success for ffi::AssociationInformation".into(),
                input: format!("{tt:?} {fc:?}"),
                run: Box::new(move || {
                    let mut r = ret(0);
                    let mut i = association_information(&mut r);
                    let q = dnp3::verif::seams::control_field(11).seq;
                    AssociationInformation::task_start(&mut i, tt, fc, q);
                    AssociationInformation::task_success(&mut i, tt, fc, q);
                    AssociationInformation::unsolicited_response(&mut i, true, q);
                    let want = vec![
                        format!("task_start {} {} 11", norm(&dbg(&tt)), norm(&dbg(&fc))),
                        format!("task_success {} {} 11", norm(&dbg(&tt)), norm(&dbg(&fc))),
                        "unsolicited_response true 11".to_string(),
                    ];
                    Outcome { got: dbg(&r.log), want: dbg(&want) }
                }),
            });
        }
        for e in crate::conv::task_errors() {
            v.push(Case {
                clause: "C20.H6",
                conv: "AssociationInformation::task_fail for ffi::AssociationInformation".into(),
                input: format!("{tt:?} {e:?}"),
                run: Box::new(move || {
                    let mut r = ret(0);
                    let mut i = association_information(&mut r);
                    AssociationInformation::task_fail(&mut i, tt, e);
                    let want = vec![format!("task_fail {} {}", norm(&dbg(&tt)), crate::conv::task_error_name(&e))];
                    Outcome { got: dbg(&r.log), want: dbg(&want) }
                }),
            });
        }
    }
    for valid in [false, true] {
        for &t in &INSTANTS {
            v.push(Case {
                clause: "C20.H6",
                conv: "AssociationHandler::get_current_time for ffi::AssociationHandler".into(),
                input: format!("value={t} is_valid={valid}"),
                run: Box::new(move || {
                    let mut c = Clock { value: t, valid };
                    let h = ffi::AssociationHandler { get_current_time: Some(ah_time), on_destroy: None, ctx: &mut c as *mut Clock as *mut c_void };
                    let got = AssociationHandler::get_current_time(&h).map(|x| x.raw_value());
                    Outcome { got: dbg(&got), want: dbg(&if valid { Some(Timestamp::new(t).raw_value()) } else { None }) }
                }),
            });
        }
    }
    v
}

/// one attribute through the read handler (master side) or the application (outstation side)
fn attr_case(set: u8, var: u8, ty: usize, write: bool) -> Outcome {
    let list_bytes = [254u8, 6, 10, 1, 20, 0, 30, 1];
    let octets = [1u8, 2, 3, 250];
    let value = match ty {
        0 => AttrValue::VisibleString("abc xyz"),
        1 => AttrValue::UnsignedInt(4_000_000_000),
        2 => AttrValue::SignedInt(-77),
        3 => AttrValue::FloatingPoint(FloatType::F32(-1.25)),
        4 => AttrValue::FloatingPoint(FloatType::F64(6.02e23)),
        5 => AttrValue::OctetString(&octets),
        6 => AttrValue::Dnp3Time(Timestamp::new(1_600_000_000_456)),
        7 => AttrValue::BitString(&octets),
        _ => match dnp3::verif::seams::variation_list(&list_bytes) {
            Some(l) => AttrValue::AttrList(l),
            None => return Outcome { got: "no list".into(), want: "no list".into() },
        },
    };
    let attr = Attribute { set: AttrSet::new(set), variation: var, value };
    let any = match AnyAttribute::try_from(&attr) {
        Ok(a) => a,
        // the library itself rejects this (variation, type) pair: nothing crosses the boundary
        Err(_) => {
            if write {
                let mut r = ret(0);
                let mut a = application(&mut r);
                let res = now(OutstationApplication::write_device_attr(&mut a, attr)).unwrap_or(true);
                return Outcome { got: format!("{res} {:?}", r.log), want: "false []".into() };
            }
            return Outcome { got: "rejected by AnyAttribute".into(), want: "rejected by AnyAttribute".into() };
        }
    };
    // name of the known attribute, if any, from the native side
    let known_name = match &any {
        AnyAttribute::Other(_) => "unknown".to_string(),
        AnyAttribute::Known(k) => match k {
            KnownAttribute::AttributeList(e, _) => norm(&dbg(e)),
            KnownAttribute::String(e, _) => norm(&dbg(e)),
            KnownAttribute::Float(e, _) => norm(&dbg(e)),
            KnownAttribute::UInt(e, _) => norm(&dbg(e)),
            KnownAttribute::Bool(e, _) => norm(&dbg(e)),
            KnownAttribute::OctetString(e, _) => norm(&dbg(e)),
            KnownAttribute::DNP3Time(e, _) => norm(&dbg(e)),
        },
    };
    let is_bool = matches!(&any, AnyAttribute::Known(KnownAttribute::Bool(_, _)));
    let bool_value = if let AnyAttribute::Known(KnownAttribute::Bool(_, b)) = &any { *b } else { false };
    if write {
        let mut r = ret(0);
        let mut a = application(&mut r);
        let res = now(OutstationApplication::write_device_attr(&mut a, attr)).unwrap_or(false);
        let want: (bool, Vec<String>) = if is_bool || ty == 8 {
            (false, vec![])
        } else {
            let line = match ty {
                0 => format!("write string {known_name} {set} {var} {:?}", "abc xyz"),
                1 => format!("write uint {known_name} {set} {var} 4000000000"),
                2 => format!("write int unknown {set} {var} -77"),
                3 => format!("write float {known_name} {set} {var} {:#010x}", (-1.25f32).to_bits()),
                4 => format!("write double {known_name} {set} {var} {:#018x}", 6.02e23f64.to_bits()),
                5 => format!("write octets {known_name} {set} {var} {:?}", octets),
                6 => format!("write time {known_name} {set} {var} 1600000000456"),
                _ => format!("write bits unknown {set} {var} {:?}", octets),
            };
            (true, vec![line])
        };
        return Outcome { got: format!("{res} {:?}", r.log), want: format!("{} {:?}", want.0, want.1) };
    }
    let mut log = Log::new();
    let mut h = read_handler(&mut log);
    let info = HeaderInfo {
        variation: dnp3::verif::seams::all_variations().iter().find(|v| v.0 == 0 && v.1 == 254).map(|v| v.2).unwrap_or(Variation::Group0(var)),
        qualifier: QualifierCode::FreeFormat16,
        is_event: false,
        has_flags: false,
    };
    ReadHandler::handle_device_attribute(&mut h, info, any.clone());
    let it = native_info_text(&info);
    let line = if is_bool {
        format!("attr {it} bool {known_name} {set} {var} {bool_value}")
    } else {
        match ty {
            0 => format!("attr {it} string {known_name} {set} {var} {:?}", "abc xyz"),
            1 => format!("attr {it} uint {known_name} {set} {var} 4000000000"),
            2 => format!("attr {it} int unknown {set} {var} -77"),
            3 => format!("attr {it} float {known_name} {set} {var} {:#018x}", (-1.25f64).to_bits()),
            4 => format!("attr {it} float {known_name} {set} {var} {:#018x}", 6.02e23f64.to_bits()),
            5 => format!("attr {it} octets {known_name} {set} {var} {:?}", octets),
            6 => format!("attr {it} time {known_name} {set} {var} 1600000000456"),
            7 => format!("attr {it} bits unknown {set} {var} {:?}", octets),
            _ => format!("attr {it} list {known_name} {set} {var} {:?}", vec![(10u8, true), (20u8, false), (30u8, true)]),
        }
    };
    Outcome { got: dbg(&log), want: dbg(&vec![line]) }
}
