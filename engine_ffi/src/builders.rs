//! C20 part 5: the stateful request builders of the binding layer (dead-band request, command
//! set, read / header request), driven through the exported functions; what they hand to the
//! library (hook H7 for the two whose product is crate-private) must be what the same calls build
//! natively.

use std::ffi::CString;

use dnp3::app::attr::*;
use dnp3::app::control::*;
use dnp3::app::{Timestamp, Variation};
use dnp3::master::*;
use dnp3_ffi::ffi;

use crate::cases::{dbg, variants, Case, Outcome};

/// every sequence of 1..=depth choices over n letters
fn sequences(n: usize, depth: usize) -> Vec<Vec<usize>> {
    let mut out: Vec<Vec<usize>> = Vec::new();
    let mut layer: Vec<Vec<usize>> = vec![vec![]];
    for _ in 0..depth {
        let mut next = Vec::new();
        for s in &layer {
            for k in 0..n {
                let mut t = s.clone();
                t.push(k);
                next.push(t);
            }
        }
        out.extend(next.iter().cloned());
        layer = next;
    }
    out
}

// ---- dead-band request --------------------------------------------------------------------

const DB_OPS: [&str; 7] = ["g34v1_u8", "g34v1_u16", "g34v2_u8", "g34v2_u16", "g34v3_u8", "g34v3_u16", "finish_header"];

fn dead_band_native(seq: &[usize]) -> Vec<DeadBandHeader> {
    #[derive(Clone)]
    enum H {
        A(Vec<(u8, u16)>),
        B(Vec<(u16, u16)>),
        C(Vec<(u8, u32)>),
        D(Vec<(u16, u32)>),
        E(Vec<(u8, f32)>),
        F(Vec<(u16, f32)>),
    }
    let mut headers: Vec<H> = Vec::new();
    let mut cur: Option<H> = None;
    for (p, op) in seq.iter().enumerate() {
        let p = p as u16;
        let (i8_, i16_) = (10 + p as u8, 300 + p);
        let item = match op {
            0 => H::A(vec![(i8_, 1000 + p)]),
            1 => H::B(vec![(i16_, 1000 + p)]),
            2 => H::C(vec![(i8_, 100_000 + p as u32)]),
            3 => H::D(vec![(i16_, 100_000 + p as u32)]),
            4 => H::E(vec![(i8_, 1.5 + p as f32)]),
            5 => H::F(vec![(i16_, 1.5 + p as f32)]),
            _ => {
                if let Some(c) = cur.take() {
                    headers.push(c);
                }
                continue;
            }
        };
        cur = Some(match (cur.take(), item) {
            (Some(H::A(mut v)), H::A(x)) => {
                v.extend(x);
                H::A(v)
            }
            (Some(H::B(mut v)), H::B(x)) => {
                v.extend(x);
                H::B(v)
            }
            (Some(H::C(mut v)), H::C(x)) => {
                v.extend(x);
                H::C(v)
            }
            (Some(H::D(mut v)), H::D(x)) => {
                v.extend(x);
                H::D(v)
            }
            (Some(H::E(mut v)), H::E(x)) => {
                v.extend(x);
                H::E(v)
            }
            (Some(H::F(mut v)), H::F(x)) => {
                v.extend(x);
                H::F(v)
            }
            (Some(old), new) => {
                headers.push(old);
                new
            }
            (None, new) => new,
        });
    }
    if let Some(c) = cur {
        headers.push(c);
    }
    headers
        .into_iter()
        .map(|h| match h {
            H::A(v) => DeadBandHeader::group34_var1_u8(v),
            H::B(v) => DeadBandHeader::group34_var1_u16(v),
            H::C(v) => DeadBandHeader::group34_var2_u8(v),
            H::D(v) => DeadBandHeader::group34_var2_u16(v),
            H::E(v) => DeadBandHeader::group34_var3_u8(v),
            H::F(v) => DeadBandHeader::group34_var3_u16(v),
        })
        .collect()
}

fn dead_band_ffi(seq: &[usize]) -> Vec<DeadBandHeader> {
    unsafe {
        let r = ffi::dnp3_write_dead_band_request_create();
        for (p, op) in seq.iter().enumerate() {
            let p = p as u16;
            let (i8_, i16_) = (10 + p as u8, 300 + p);
            match op {
                0 => ffi::dnp3_write_dead_band_request_add_g34v1_u8(r, i8_, 1000 + p),
                1 => ffi::dnp3_write_dead_band_request_add_g34v1_u16(r, i16_, 1000 + p),
                2 => ffi::dnp3_write_dead_band_request_add_g34v2_u8(r, i8_, 100_000 + p as u32),
                3 => ffi::dnp3_write_dead_band_request_add_g34v2_u16(r, i16_, 100_000 + p as u32),
                4 => ffi::dnp3_write_dead_band_request_add_g34v3_u8(r, i8_, 1.5 + p as f32),
                5 => ffi::dnp3_write_dead_band_request_add_g34v3_u16(r, i16_, 1.5 + p as f32),
                _ => ffi::dnp3_write_dead_band_request_finish_header(r),
            }
        }
        let built = dnp3_ffi::verif::dead_band_headers(r);
        ffi::dnp3_write_dead_band_request_destroy(r);
        built
    }
}

// ---- command set ------------------------------------------------------------------------------

const CS_OPS: [&str; 11] = ["g12v1_u8", "g12v1_u16", "g41v1_u8", "g41v1_u16", "g41v2_u8", "g41v2_u16", "g41v3_u8", "g41v3_u16", "g41v4_u8", "g41v4_u16", "finish_header"];

fn crob_pair(p: u32) -> (ffi::Group12Var1, Group12Var1) {
    let f = ffi::Group12Var1 {
        code: ffi::ControlCode { tcc: ffi::TripCloseCode::Close.into(), clear: p % 2 == 1, queue: false, op_type: ffi::OpType::PulseOn.into() },
        count: 1 + p as u8,
        on_time: 1000 + p,
        off_time: 2000 + p,
    };
    let n = Group12Var1::new(ControlCode::new(TripCloseCode::Close, OpType::PulseOn, p % 2 == 1), 1 + p as u8, 1000 + p, 2000 + p);
    (f, n)
}

fn command_set_native(seq: &[usize]) -> CommandBuilder {
    let mut b = CommandBuilder::new();
    for (p, op) in seq.iter().enumerate() {
        let p = p as u32;
        let (i8_, i16_) = (20 + p as u8, 400 + p as u16);
        match op {
            0 => b.add_u8(crob_pair(p).1, i8_),
            1 => b.add_u16(crob_pair(p).1, i16_),
            2 => b.add_u8(Group41Var1::new(-7 - p as i32), i8_),
            3 => b.add_u16(Group41Var1::new(-7 - p as i32), i16_),
            4 => b.add_u8(Group41Var2::new(-9 - p as i16), i8_),
            5 => b.add_u16(Group41Var2::new(-9 - p as i16), i16_),
            6 => b.add_u8(Group41Var3::new(2.5 + p as f32), i8_),
            7 => b.add_u16(Group41Var3::new(2.5 + p as f32), i16_),
            8 => b.add_u8(Group41Var4::new(-3.25 - p as f64), i8_),
            9 => b.add_u16(Group41Var4::new(-3.25 - p as f64), i16_),
            _ => b.finish_header(),
        }
    }
    b
}

fn command_set_ffi(seq: &[usize]) -> CommandBuilder {
    unsafe {
        let c = ffi::dnp3_command_set_create();
        for (p, op) in seq.iter().enumerate() {
            let p = p as u32;
            let (i8_, i16_) = (20 + p as u8, 400 + p as u16);
            match op {
                0 => ffi::dnp3_command_set_add_g12_v1_u8(c, i8_, crob_pair(p).0),
                1 => ffi::dnp3_command_set_add_g12_v1_u16(c, i16_, crob_pair(p).0),
                2 => ffi::dnp3_command_set_add_g41_v1_u8(c, i8_, -7 - p as i32),
                3 => ffi::dnp3_command_set_add_g41_v1_u16(c, i16_, -7 - p as i32),
                4 => ffi::dnp3_command_set_add_g41_v2_u8(c, i8_, -9 - p as i16),
                5 => ffi::dnp3_command_set_add_g41_v2_u16(c, i16_, -9 - p as i16),
                6 => ffi::dnp3_command_set_add_g41_v3_u8(c, i8_, 2.5 + p as f32),
                7 => ffi::dnp3_command_set_add_g41_v3_u16(c, i16_, 2.5 + p as f32),
                8 => ffi::dnp3_command_set_add_g41_v4_u8(c, i8_, -3.25 - p as f64),
                9 => ffi::dnp3_command_set_add_g41_v4_u16(c, i16_, -3.25 - p as f64),
                _ => ffi::dnp3_command_set_finish_header(c),
            }
        }
        // the command set *is* the library's builder: take it over
        let built = (*c).clone();
        ffi::dnp3_command_set_destroy(c);
        built
    }
}

// ---- read / header request ----------------------------------------------------------------------

const RQ_OPS: [&str; 9] = ["all_objects", "one_byte_range", "two_byte_range", "one_byte_limited_count", "two_byte_limited_count", "specific_attribute", "string_attribute", "uint_attribute", "time_and_interval"];

fn request_native(first: usize, seq: &[usize], var: ffi::Variation) -> Headers {
    let v: Variation = var.into();
    let mut h = Headers::new();
    // constructors
    h = match first {
        0 => h,
        1 => h.add_all_objects(v),
        2 => h.add_range_8(v, 1, 200),
        3 => h.add_range_16(v, 300, 65535),
        4 => h.add_one_byte_limited_count(v, 255),
        5 => h.add_two_byte_limited_count(v, 65535),
        k => {
            // class requests: bits of k - 6 = class 0, 1, 2, 3; classes 1, 2, 3 come before class 0
            let c = k - 6;
            let mut h = h;
            if c & 2 != 0 {
                h = h.add_all_objects(Variation::Group60Var2);
            }
            if c & 4 != 0 {
                h = h.add_all_objects(Variation::Group60Var3);
            }
            if c & 8 != 0 {
                h = h.add_all_objects(Variation::Group60Var4);
            }
            if c & 1 != 0 {
                h = h.add_all_objects(Variation::Group60Var1);
            }
            h
        }
    };
    for (p, op) in seq.iter().enumerate() {
        let p = p as u8;
        h = match op {
            0 => h.add_all_objects(v),
            1 => h.add_range_8(v, 2 + p, 9 + p),
            2 => h.add_range_16(v, 256 + p as u16, 1000),
            3 => h.add_one_byte_limited_count(v, 3 + p),
            4 => h.add_two_byte_limited_count(v, 300 + p as u16),
            5 => h.add_range_8(Variation::Group0(210 + p), 7, 7),
            6 => h.add_attribute(OwnedAttribute::new(AttrSet::new(3), 240 + p, OwnedAttrValue::VisibleString(format!("name{p}")))),
            7 => h.add_attribute(OwnedAttribute::new(AttrSet::new(4), 230 + p, OwnedAttrValue::UnsignedInt(70_000 + p as u32))),
            _ => h.add_time_and_interval(Timestamp::new(0x0102_0304_0506 + p as u64), 5000 + p as u32),
        };
    }
    h
}

fn request_ffi(first: usize, seq: &[usize], var: ffi::Variation) -> (Headers, String) {
    unsafe {
        let r = match first {
            0 => ffi::dnp3_request_create(),
            1 => ffi::dnp3_request_new_all_objects(var.into()),
            2 => ffi::dnp3_request_new_one_byte_range(var.into(), 1, 200),
            3 => ffi::dnp3_request_new_two_byte_range(var.into(), 300, 65535),
            4 => ffi::dnp3_request_new_one_byte_limited_count(var.into(), 255),
            5 => ffi::dnp3_request_new_two_byte_limited_count(var.into(), 65535),
            k => {
                let c = k - 6;
                ffi::dnp3_request_new_class(c & 1 != 0, c & 2 != 0, c & 4 != 0, c & 8 != 0)
            }
        };
        for (p, op) in seq.iter().enumerate() {
            let p = p as u8;
            match op {
                0 => ffi::dnp3_request_add_all_objects_header(r, var.into()),
                1 => ffi::dnp3_request_add_one_byte_range_header(r, var.into(), 2 + p, 9 + p),
                2 => ffi::dnp3_request_add_two_byte_range_header(r, var.into(), 256 + p as u16, 1000),
                3 => ffi::dnp3_request_add_one_byte_limited_count_header(r, var.into(), 3 + p),
                4 => ffi::dnp3_request_add_two_byte_limited_count_header(r, var.into(), 300 + p as u16),
                5 => ffi::dnp3_request_add_specific_attribute(r, 210 + p, 7),
                6 => {
                    let s = CString::new(format!("name{p}")).unwrap();
                    ffi::dnp3_request_add_string_attribute(r, 240 + p, 3, s.as_ptr());
                }
                7 => ffi::dnp3_request_add_uint_attribute(r, 230 + p, 4, 70_000 + p as u32),
                _ => ffi::dnp3_request_add_time_and_interval(r, 0x0102_0304_0506 + p as u64, 5000 + p as u32),
            }
        }
        let h = dnp3_ffi::verif::headers(r).unwrap_or_default();
        let read = dnp3_ffi::verif::read_request(r).map(|x| format!("{x:?}")).unwrap_or_default();
        ffi::dnp3_request_destroy(r);
        (h, read)
    }
}

pub fn cases(tier: &str) -> Vec<Case> {
    let depth = if tier == "quick" { 3 } else { 4 };
    let mut v: Vec<Case> = Vec::new();
    for seq in sequences(DB_OPS.len(), depth) {
        let label: Vec<&str> = seq.iter().map(|k| DB_OPS[*k]).collect();
        v.push(Case {
            clause: "C20.B1",
            conv: "WriteDeadBandRequest (dnp3_write_dead_band_request_* -> Vec<DeadBandHeader>)".into(),
            input: label.join(" "),
            run: Box::new(move || Outcome { got: dbg(&dead_band_ffi(&seq)), want: dbg(&dead_band_native(&seq)) }),
        });
    }
    for seq in sequences(CS_OPS.len(), depth - 1) {
        let label: Vec<&str> = seq.iter().map(|k| CS_OPS[*k]).collect();
        v.push(Case {
            clause: "C20.B2",
            conv: "CommandSet (dnp3_command_set_* -> CommandBuilder)".into(),
            input: label.join(" "),
            run: Box::new(move || Outcome {
                got: dbg(&dnp3::verif::seams::command_headers_bytes(&command_set_ffi(&seq).build())),
                want: dbg(&dnp3::verif::seams::command_headers_bytes(&command_set_native(&seq).build())),
            }),
        });
    }
    // request: every constructor (6 + the 16 class combinations) x every sequence of <= 2 additions,
    // with two variations of different groups
    let vars: Vec<ffi::Variation> = variants::<ffi::Variation>();
    let pick: Vec<ffi::Variation> = vec![vars[1 % vars.len()], vars[vars.len() / 2], vars[vars.len() - 1]];
    let mut seqs = vec![vec![]];
    seqs.extend(sequences(RQ_OPS.len(), if tier == "quick" { 1 } else { 2 }));
    for first in 0..(6 + 16) {
        for seq in &seqs {
            for var in &pick {
                let seq = seq.clone();
                let var = *var;
                let label: Vec<&str> = seq.iter().map(|k| RQ_OPS[*k]).collect();
                v.push(Case {
                    clause: "C20.B3",
                    conv: "Request (dnp3_request_* -> Headers / ReadRequest)".into(),
                    input: format!("constructor {first} {var:?} + [{}]", label.join(" ")),
                    run: Box::new(move || {
                        let (h, read) = request_ffi(first, &seq, var);
                        let n = request_native(first, &seq, var);
                        Outcome { got: format!("{h:?} / {read}"), want: format!("{n:?} / {:?}", n.to_read_request()) }
                    }),
                });
            }
        }
    }
    v
}
