//! Decoders for measurement objects (static and event variations), written from IEEE 1815
//! Annex A. Used by the oracles of C02, C10 and C11.

use super::app::{read_u48, ObjHeader};

#[derive(Copy, Clone, Debug, PartialEq, Eq, Hash, PartialOrd, Ord)]
pub enum Kind {
    Binary,
    DoubleBit,
    BinaryOutputStatus,
    Counter,
    FrozenCounter,
    Analog,
    AnalogOutputStatus,
    OctetString,
    FrozenAnalog,
}

#[derive(Clone, Debug, PartialEq)]
pub enum Val {
    Bool(bool),
    /// double-bit state 0..=3
    Dbit(u8),
    U32(u32),
    U16(u16),
    I32(i32),
    I16(i16),
    F32(f32),
    F64(f64),
    Bytes(Vec<u8>),
}

impl Val {
    pub fn as_f64(&self) -> Option<f64> {
        Some(match self {
            Val::Bool(b) => *b as u8 as f64,
            Val::Dbit(d) => *d as f64,
            Val::U32(v) => *v as f64,
            Val::U16(v) => *v as f64,
            Val::I32(v) => *v as f64,
            Val::I16(v) => *v as f64,
            Val::F32(v) => *v as f64,
            Val::F64(v) => *v,
            Val::Bytes(_) => return None,
        })
    }
}

#[derive(Clone, Debug, PartialEq)]
pub struct Meas {
    pub kind: Kind,
    pub group: u8,
    pub var: u8,
    pub index: u32,
    pub val: Val,
    /// flag octet if the variation carries one
    pub flags: Option<u8>,
    /// (milliseconds, synchronized) if the variation carries a time
    pub time: Option<(u64, bool)>,
    pub is_event: bool,
}

/// (kind, is_event) of a measurement group
pub fn kind_of(group: u8) -> Option<(Kind, bool)> {
    Some(match group {
        1 => (Kind::Binary, false),
        2 => (Kind::Binary, true),
        3 => (Kind::DoubleBit, false),
        4 => (Kind::DoubleBit, true),
        10 => (Kind::BinaryOutputStatus, false),
        11 => (Kind::BinaryOutputStatus, true),
        20 => (Kind::Counter, false),
        22 => (Kind::Counter, true),
        21 => (Kind::FrozenCounter, false),
        23 => (Kind::FrozenCounter, true),
        30 => (Kind::Analog, false),
        32 => (Kind::Analog, true),
        31 => (Kind::FrozenAnalog, false),
        33 => (Kind::FrozenAnalog, true),
        40 => (Kind::AnalogOutputStatus, false),
        42 => (Kind::AnalogOutputStatus, true),
        110 => (Kind::OctetString, false),
        111 => (Kind::OctetString, true),
        _ => return None,
    })
}

/// field layout of a fixed-size measurement variation
#[derive(Copy, Clone, Debug, PartialEq)]
enum Num {
    None,
    U32,
    U16,
    I32,
    I16,
    F32,
    F64,
}

#[derive(Copy, Clone, Debug, PartialEq)]
enum Tm {
    None,
    Abs,
    Rel,
}

/// (has flags, number, time) for byte-oriented variations
fn layout(group: u8, var: u8) -> Option<(bool, Num, Tm)> {
    use Num::*;
    Some(match (group, var) {
        (1, 2) | (3, 2) | (10, 2) => (true, None, Tm::None),
        (2, 1) | (4, 1) | (11, 1) => (true, None, Tm::None),
        (2, 2) | (4, 2) | (11, 2) => (true, None, Tm::Abs),
        (2, 3) | (4, 3) => (true, None, Tm::Rel),
        (20, 1) | (21, 1) | (22, 1) | (23, 1) => (true, U32, Tm::None),
        (20, 2) | (21, 2) | (22, 2) | (23, 2) => (true, U16, Tm::None),
        (20, 5) | (21, 9) => (false, U32, Tm::None),
        (20, 6) | (21, 10) => (false, U16, Tm::None),
        (21, 5) | (22, 5) | (23, 5) => (true, U32, Tm::Abs),
        (21, 6) | (22, 6) | (23, 6) => (true, U16, Tm::Abs),
        (30, 1) | (32, 1) | (40, 1) | (42, 1) | (31, 1) | (33, 1) => (true, I32, Tm::None),
        (30, 2) | (32, 2) | (40, 2) | (42, 2) | (31, 2) | (33, 2) => (true, I16, Tm::None),
        (30, 3) | (31, 5) => (false, I32, Tm::None),
        (30, 4) | (31, 6) => (false, I16, Tm::None),
        (30, 5) | (32, 5) | (40, 3) | (42, 5) | (31, 7) | (33, 5) => (true, F32, Tm::None),
        (30, 6) | (32, 6) | (40, 4) | (42, 6) | (31, 8) | (33, 6) => (true, F64, Tm::None),
        (32, 3) | (42, 3) | (31, 3) | (33, 3) => (true, I32, Tm::Abs),
        (32, 4) | (42, 4) | (31, 4) | (33, 4) => (true, I16, Tm::Abs),
        (32, 7) | (42, 7) | (33, 7) => (true, F32, Tm::Abs),
        (32, 8) | (42, 8) | (33, 8) => (true, F64, Tm::Abs),
        _ => return Option::None,
    })
}

/// decode every measurement object in the headers of a response (handles g51 CTO headers)
pub fn decode_measurements(headers: &[ObjHeader]) -> Result<Vec<Meas>, String> {
    let mut out = Vec::new();
    // common time of occurrence: (ms, synchronized)
    let mut cto: Option<(u64, bool)> = None;
    for h in headers {
        if h.group == 51 && (h.var == 1 || h.var == 2) {
            if let Some(o) = h.objects.first() {
                if o.data.len() >= 6 {
                    cto = Some((read_u48(&o.data), h.var == 1));
                }
            }
            continue;
        }
        let Some((kind, is_event)) = kind_of(h.group) else { continue };
        for o in &h.objects {
            let index = o.index.ok_or_else(|| format!("g{}v{} object without index", h.group, h.var))?;
            let d = &o.data;
            let m = match (h.group, h.var) {
                (1, 1) | (10, 1) | (80, 1) => Meas {
                    kind,
                    group: h.group,
                    var: h.var,
                    index,
                    val: Val::Bool(d[0] != 0),
                    flags: None,
                    time: None,
                    is_event,
                },
                (3, 1) => Meas { kind, group: 3, var: 1, index, val: Val::Dbit(d[0]), flags: None, time: None, is_event },
                (110, _) | (111, _) => Meas {
                    kind,
                    group: h.group,
                    var: h.var,
                    index,
                    val: Val::Bytes(d.clone()),
                    flags: None,
                    time: None,
                    is_event,
                },
                (g, v) => {
                    let (has_flags, num, tm) =
                        layout(g, v).ok_or_else(|| format!("no layout for g{g}v{v}"))?;
                    let mut p = 0usize;
                    let need = has_flags as usize
                        + match num {
                            Num::None => 0,
                            Num::U16 | Num::I16 => 2,
                            Num::U32 | Num::I32 | Num::F32 => 4,
                            Num::F64 => 8,
                        }
                        + match tm {
                            Tm::None => 0,
                            Tm::Abs => 6,
                            Tm::Rel => 2,
                        };
                    if d.len() != need {
                        return Err(format!("g{g}v{v}: object size {} but layout needs {need}", d.len()));
                    }
                    let flags = if has_flags {
                        p += 1;
                        Some(d[0])
                    } else {
                        None
                    };
                    let val = match num {
                        Num::None => match kind {
                            Kind::DoubleBit => Val::Dbit(flags.unwrap_or(0) >> 6),
                            _ => Val::Bool(flags.unwrap_or(0) & 0x80 != 0),
                        },
                        Num::U32 => {
                            let v = u32::from_le_bytes([d[p], d[p + 1], d[p + 2], d[p + 3]]);
                            p += 4;
                            Val::U32(v)
                        }
                        Num::U16 => {
                            let v = u16::from_le_bytes([d[p], d[p + 1]]);
                            p += 2;
                            Val::U16(v)
                        }
                        Num::I32 => {
                            let v = i32::from_le_bytes([d[p], d[p + 1], d[p + 2], d[p + 3]]);
                            p += 4;
                            Val::I32(v)
                        }
                        Num::I16 => {
                            let v = i16::from_le_bytes([d[p], d[p + 1]]);
                            p += 2;
                            Val::I16(v)
                        }
                        Num::F32 => {
                            let v = f32::from_le_bytes([d[p], d[p + 1], d[p + 2], d[p + 3]]);
                            p += 4;
                            Val::F32(v)
                        }
                        Num::F64 => {
                            let mut b = [0u8; 8];
                            b.copy_from_slice(&d[p..p + 8]);
                            p += 8;
                            Val::F64(f64::from_le_bytes(b))
                        }
                    };
                    let time = match tm {
                        Tm::None => None,
                        Tm::Abs => Some((read_u48(&d[p..]), true)),
                        Tm::Rel => {
                            let rel = u16::from_le_bytes([d[p], d[p + 1]]) as u64;
                            let (base, sync) = cto.ok_or_else(|| format!("g{g}v{v} without a preceding common time object"))?;
                            Some((base + rel, sync))
                        }
                    };
                    Meas { kind, group: g, var: v, index, val, flags, time, is_event }
                }
            };
            out.push(m);
        }
    }
    Ok(out)
}
