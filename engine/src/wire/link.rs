//! Link layer: frame builder and the *specification framer* (full-rescan semantics).

use super::crc::{append_crc, crc16};

pub const DIR: u8 = 0x80;
pub const PRM: u8 = 0x40;
pub const FCB: u8 = 0x20;
pub const FCV: u8 = 0x10;

// primary function codes
pub const PRI_RESET_LINK_STATES: u8 = 0;
pub const PRI_TEST_LINK_STATES: u8 = 2;
pub const PRI_CONFIRMED_USER_DATA: u8 = 3;
pub const PRI_UNCONFIRMED_USER_DATA: u8 = 4;
pub const PRI_REQUEST_LINK_STATUS: u8 = 9;
// secondary function codes
pub const SEC_ACK: u8 = 0;
pub const SEC_NACK: u8 = 1;
pub const SEC_LINK_STATUS: u8 = 11;
pub const SEC_NOT_SUPPORTED: u8 = 15;

#[derive(Clone, Debug, PartialEq, Eq, Hash)]
pub struct LinkFrame {
    pub ctrl: u8,
    pub dst: u16,
    pub src: u16,
    pub payload: Vec<u8>,
}

impl LinkFrame {
    pub fn new(ctrl: u8, dst: u16, src: u16, payload: &[u8]) -> Self {
        Self { ctrl, dst, src, payload: payload.to_vec() }
    }
    pub fn func(&self) -> u8 {
        self.ctrl & 0x0F
    }
    pub fn is_master(&self) -> bool {
        self.ctrl & DIR != 0
    }
    pub fn is_prm(&self) -> bool {
        self.ctrl & PRM != 0
    }
    pub fn encode(&self) -> Vec<u8> {
        frame(self.ctrl, self.dst, self.src, &self.payload)
    }
}

/// build a link frame: payload 0..=250 bytes
pub fn frame(ctrl: u8, dst: u16, src: u16, payload: &[u8]) -> Vec<u8> {
    assert!(payload.len() <= 250);
    let mut out = Vec::with_capacity(10 + payload.len() + 2 * ((payload.len() + 15) / 16));
    let hdr = [
        0x05,
        0x64,
        (payload.len() + 5) as u8,
        ctrl,
        (dst & 0xFF) as u8,
        (dst >> 8) as u8,
        (src & 0xFF) as u8,
        (src >> 8) as u8,
    ];
    append_crc(&mut out, &hdr);
    for block in payload.chunks(16) {
        append_crc(&mut out, block);
    }
    out
}

/// total encoded length of a frame with `n` payload bytes
pub fn frame_len(n: usize) -> usize {
    10 + n + 2 * ((n + 15) / 16)
}

/// unconfirmed user data master -> outstation
pub fn master_data(dst: u16, src: u16, payload: &[u8]) -> Vec<u8> {
    frame(DIR | PRM | PRI_UNCONFIRMED_USER_DATA, dst, src, payload)
}

/// unconfirmed user data outstation -> master
pub fn outstation_data(dst: u16, src: u16, payload: &[u8]) -> Vec<u8> {
    frame(PRM | PRI_UNCONFIRMED_USER_DATA, dst, src, payload)
}

/// Try to parse one frame at the start of `b`.
/// Ok(Some((frame, consumed))) | Ok(None) = need more bytes | Err(()) = not a valid frame here
pub fn parse_at(b: &[u8]) -> Result<Option<(LinkFrame, usize)>, ()> {
    if b.is_empty() {
        return Ok(None);
    }
    if b[0] != 0x05 {
        return Err(());
    }
    if b.len() < 2 {
        return Ok(None);
    }
    if b[1] != 0x64 {
        return Err(());
    }
    if b.len() < 10 {
        return Ok(None);
    }
    let len = b[2] as usize;
    let c = (b[8] as u16) | ((b[9] as u16) << 8);
    if crc16(&b[0..8]) != c {
        return Err(());
    }
    if len < 5 {
        return Err(());
    }
    let n = len - 5;
    let total = frame_len(n);
    if b.len() < total {
        return Ok(None);
    }
    let mut payload = Vec::with_capacity(n);
    let mut pos = 10;
    let mut remaining = n;
    while remaining > 0 {
        let k = remaining.min(16);
        let block = &b[pos..pos + k];
        let c = (b[pos + k] as u16) | ((b[pos + k + 1] as u16) << 8);
        if crc16(block) != c {
            return Err(());
        }
        payload.extend_from_slice(block);
        pos += k + 2;
        remaining -= k;
    }
    let f = LinkFrame {
        ctrl: b[3],
        dst: (b[4] as u16) | ((b[5] as u16) << 8),
        src: (b[6] as u16) | ((b[7] as u16) << 8),
        payload,
    };
    Ok(Some((f, total)))
}

/// Specification framer over a complete byte string: scan for a valid frame at every
/// offset; on failure resume scanning at the next byte (full rescan). Returns the frames and
/// the number of trailing bytes that could still be the start of a frame.
pub fn parse_stream(bytes: &[u8]) -> (Vec<LinkFrame>, usize) {
    let mut frames = Vec::new();
    let mut pos = 0;
    while pos < bytes.len() {
        match parse_at(&bytes[pos..]) {
            Ok(Some((f, n))) => {
                frames.push(f);
                pos += n;
            }
            Ok(None) => {
                return (frames, bytes.len() - pos);
            }
            Err(()) => pos += 1,
        }
    }
    (frames, 0)
}

#[cfg(test)]
mod test {
    use super::*;
    #[test]
    fn roundtrip() {
        for n in 0..=250usize {
            let p: Vec<u8> = (0..n).map(|x| x as u8).collect();
            let f = frame(0xC4, 1024, 1, &p);
            assert_eq!(f.len(), frame_len(n));
            let (frames, rest) = parse_stream(&f);
            assert_eq!(rest, 0);
            assert_eq!(frames, vec![LinkFrame::new(0xC4, 1024, 1, &p)]);
        }
    }
    #[test]
    fn known_frames() {
        // from dnp3 link::test_data: ACK  05 64 05 00 00 04 01 00 19 A6
        assert_eq!(frame(0x00, 1024, 1, &[]), vec![0x05, 0x64, 0x05, 0x00, 0x00, 0x04, 0x01, 0x00, 0x19, 0xA6]);
    }
}
