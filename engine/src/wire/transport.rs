//! Transport function: segmenter and reference reassembler.

pub const FIN: u8 = 0x80;
pub const FIR: u8 = 0x40;

/// segment a fragment into transport segments (header + ≤249 bytes), starting at `seq`
pub fn segment(fragment: &[u8], seq: u8) -> Vec<Vec<u8>> {
    let mut out = Vec::new();
    let chunks: Vec<&[u8]> = if fragment.is_empty() {
        vec![&fragment[0..0]]
    } else {
        fragment.chunks(249).collect()
    };
    let n = chunks.len();
    for (i, c) in chunks.iter().enumerate() {
        let mut h = (seq.wrapping_add(i as u8)) & 0x3F;
        if i == 0 {
            h |= FIR;
        }
        if i == n - 1 {
            h |= FIN;
        }
        let mut seg = Vec::with_capacity(1 + c.len());
        seg.push(h);
        seg.extend_from_slice(c);
        out.push(seg);
    }
    out
}

#[derive(Clone, Debug, PartialEq, Eq)]
pub struct Segment {
    pub src: u16,
    pub dst: u16,
    pub broadcast: bool,
    pub data: Vec<u8>, // header + payload
}

#[derive(Clone, Debug, PartialEq, Eq)]
pub struct Delivered {
    pub src: u16,
    pub dst: u16,
    pub data: Vec<u8>,
}

/// Reference reassembler implementing exactly the rules of the C08 statement.
pub struct Reassembler {
    max: usize,
    cur: Option<(u16, u16, bool, u8, Vec<u8>)>, // src, dst, bcast, next seq, data
}

impl Reassembler {
    pub fn new(max: usize) -> Self {
        Self { max, cur: None }
    }
    pub fn reset(&mut self) {
        self.cur = None;
    }
    pub fn push(&mut self, s: &Segment) -> Option<Delivered> {
        if s.data.is_empty() {
            return None;
        }
        let h = s.data[0];
        let (fin, fir, seq) = (h & FIN != 0, h & FIR != 0, h & 0x3F);
        let payload = &s.data[1..];
        if s.broadcast {
            // broadcast fragments must fit one segment
            if fir {
                self.cur = None;
            }
            if fir && fin && payload.len() <= self.max {
                return Some(Delivered { src: s.src, dst: s.dst, data: payload.to_vec() });
            }
            return None;
        }
        if fir {
            self.cur = None;
            if payload.len() > self.max {
                return None;
            }
            if fin {
                return Some(Delivered { src: s.src, dst: s.dst, data: payload.to_vec() });
            }
            self.cur = Some((s.src, s.dst, s.broadcast, (seq + 1) & 0x3F, payload.to_vec()));
            return None;
        }
        match self.cur.take() {
            None => None,
            Some((src, dst, bc, next, mut data)) => {
                if src != s.src || bc != s.broadcast || next != seq {
                    return None;
                }
                if data.len() + payload.len() > self.max {
                    return None;
                }
                data.extend_from_slice(payload);
                if fin {
                    Some(Delivered { src, dst, data })
                } else {
                    self.cur = Some((src, dst, bc, (seq + 1) & 0x3F, data));
                    None
                }
            }
        }
    }
}
