//! Reference codecs written from IEEE 1815, independent of the library under test.
pub mod app;
pub mod crc;
pub mod link;
pub mod objects;
pub mod transport;
