//! CRC-16/DNP, bit-serial: poly 0x3D65 (reflected 0xA6BC), init 0, final complement,
//! transmitted low byte first.

pub fn crc16(data: &[u8]) -> u16 {
    let mut crc: u16 = 0;
    for &b in data {
        crc ^= b as u16;
        for _ in 0..8 {
            if crc & 1 != 0 {
                crc = (crc >> 1) ^ 0xA6BC;
            } else {
                crc >>= 1;
            }
        }
    }
    !crc
}

pub fn append_crc(out: &mut Vec<u8>, block: &[u8]) {
    let c = crc16(block);
    out.extend_from_slice(block);
    out.push((c & 0xFF) as u8);
    out.push((c >> 8) as u8);
}

#[cfg(test)]
mod test {
    use super::*;
    #[test]
    fn known_vectors() {
        // header of a RESET_LINK_STATES frame from IEEE 1815 / common captures: 05 64 05 C0 01 00 00 04 E9 21
        assert_eq!(crc16(&[0x05, 0x64, 0x05, 0xC0, 0x01, 0x00, 0x00, 0x04]), 0x21E9);
        // ACK: 05 64 05 00 00 04 01 00 19 A6
        assert_eq!(crc16(&[0x05, 0x64, 0x05, 0x00, 0x00, 0x04, 0x01, 0x00]), 0xA619);
    }
}
