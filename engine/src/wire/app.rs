//! Application layer: fragment header codec, object-header walker driven by a hand-written
//! size table, and encoders for the requests the oracles send.

pub const FIR: u8 = 0x80;
pub const FIN: u8 = 0x40;
pub const CON: u8 = 0x20;
pub const UNS: u8 = 0x10;

pub mod fc {
    pub const CONFIRM: u8 = 0;
    pub const READ: u8 = 1;
    pub const WRITE: u8 = 2;
    pub const SELECT: u8 = 3;
    pub const OPERATE: u8 = 4;
    pub const DIRECT_OPERATE: u8 = 5;
    pub const DIRECT_OPERATE_NR: u8 = 6;
    pub const IMMED_FREEZE: u8 = 7;
    pub const IMMED_FREEZE_NR: u8 = 8;
    pub const FREEZE_CLEAR: u8 = 9;
    pub const FREEZE_CLEAR_NR: u8 = 10;
    pub const FREEZE_AT_TIME: u8 = 11;
    pub const FREEZE_AT_TIME_NR: u8 = 12;
    pub const COLD_RESTART: u8 = 13;
    pub const WARM_RESTART: u8 = 14;
    pub const INITIALIZE_DATA: u8 = 15;
    pub const INITIALIZE_APPLICATION: u8 = 16;
    pub const START_APPLICATION: u8 = 17;
    pub const STOP_APPLICATION: u8 = 18;
    pub const SAVE_CONFIGURATION: u8 = 19;
    pub const ENABLE_UNSOLICITED: u8 = 20;
    pub const DISABLE_UNSOLICITED: u8 = 21;
    pub const ASSIGN_CLASS: u8 = 22;
    pub const DELAY_MEASURE: u8 = 23;
    pub const RECORD_CURRENT_TIME: u8 = 24;
    pub const OPEN_FILE: u8 = 25;
    pub const CLOSE_FILE: u8 = 26;
    pub const DELETE_FILE: u8 = 27;
    pub const GET_FILE_INFO: u8 = 28;
    pub const AUTHENTICATE_FILE: u8 = 29;
    pub const ABORT_FILE: u8 = 30;
    pub const RESPONSE: u8 = 129;
    pub const UNSOLICITED_RESPONSE: u8 = 130;
}

pub mod iin1 {
    pub const BROADCAST: u8 = 0x01;
    pub const CLASS_1_EVENTS: u8 = 0x02;
    pub const CLASS_2_EVENTS: u8 = 0x04;
    pub const CLASS_3_EVENTS: u8 = 0x08;
    pub const NEED_TIME: u8 = 0x10;
    pub const LOCAL_CONTROL: u8 = 0x20;
    pub const DEVICE_TROUBLE: u8 = 0x40;
    pub const RESTART: u8 = 0x80;
}

pub mod iin2 {
    pub const NO_FUNC_CODE_SUPPORT: u8 = 0x01;
    pub const OBJECT_UNKNOWN: u8 = 0x02;
    pub const PARAMETER_ERROR: u8 = 0x04;
    pub const EVENT_BUFFER_OVERFLOW: u8 = 0x08;
    pub const ALREADY_EXECUTING: u8 = 0x10;
    pub const CONFIG_CORRUPT: u8 = 0x20;
    pub const ERROR_MASK: u8 = 0x07;
}

pub fn ctrl(fir: bool, fin: bool, con: bool, uns: bool, seq: u8) -> u8 {
    (if fir { FIR } else { 0 })
        | (if fin { FIN } else { 0 })
        | (if con { CON } else { 0 })
        | (if uns { UNS } else { 0 })
        | (seq & 0x0F)
}

/// request fragment: control, function, objects
pub fn request(seq: u8, func: u8, objects: &[u8]) -> Vec<u8> {
    let mut v = vec![ctrl(true, true, false, false, seq), func];
    v.extend_from_slice(objects);
    v
}

pub fn request_ctrl(ctrl: u8, func: u8, objects: &[u8]) -> Vec<u8> {
    let mut v = vec![ctrl, func];
    v.extend_from_slice(objects);
    v
}

pub fn confirm(seq: u8, uns: bool) -> Vec<u8> {
    vec![ctrl(true, true, false, uns, seq), fc::CONFIRM]
}

pub fn response(ctrl: u8, func: u8, iin1: u8, iin2: u8, objects: &[u8]) -> Vec<u8> {
    let mut v = vec![ctrl, func, iin1, iin2];
    v.extend_from_slice(objects);
    v
}

/// a decoded response fragment (what an outstation transmits)
#[derive(Clone, Debug, PartialEq, Eq, Hash)]
pub struct Resp {
    pub ctrl: u8,
    pub func: u8,
    pub iin1: u8,
    pub iin2: u8,
    pub objects: Vec<u8>,
    pub raw: Vec<u8>,
}

impl Resp {
    pub fn parse(raw: &[u8]) -> Option<Resp> {
        if raw.len() < 4 {
            return None;
        }
        Some(Resp {
            ctrl: raw[0],
            func: raw[1],
            iin1: raw[2],
            iin2: raw[3],
            objects: raw[4..].to_vec(),
            raw: raw.to_vec(),
        })
    }
    pub fn seq(&self) -> u8 {
        self.ctrl & 0x0F
    }
    pub fn fir(&self) -> bool {
        self.ctrl & FIR != 0
    }
    pub fn fin(&self) -> bool {
        self.ctrl & FIN != 0
    }
    pub fn con(&self) -> bool {
        self.ctrl & CON != 0
    }
    pub fn uns(&self) -> bool {
        self.ctrl & UNS != 0
    }
    pub fn headers(&self) -> Result<Vec<ObjHeader>, WalkError> {
        walk(&self.objects, false)
    }
}

/// a decoded request fragment (what a master transmits)
#[derive(Clone, Debug, PartialEq, Eq, Hash)]
pub struct Req {
    pub ctrl: u8,
    pub func: u8,
    pub objects: Vec<u8>,
    pub raw: Vec<u8>,
}

impl Req {
    pub fn parse(raw: &[u8]) -> Option<Req> {
        if raw.len() < 2 {
            return None;
        }
        Some(Req { ctrl: raw[0], func: raw[1], objects: raw[2..].to_vec(), raw: raw.to_vec() })
    }
    pub fn seq(&self) -> u8 {
        self.ctrl & 0x0F
    }
    pub fn uns(&self) -> bool {
        self.ctrl & UNS != 0
    }
    pub fn headers(&self) -> Result<Vec<ObjHeader>, WalkError> {
        walk(&self.objects, self.func == fc::READ)
    }
}

// ---------------------------------------------------------------------------------------
// size table
// ---------------------------------------------------------------------------------------

#[derive(Copy, Clone, Debug, PartialEq, Eq)]
pub enum SizeKind {
    /// fixed number of bytes per object
    Fixed(usize),
    /// one bit per object, packed LSB first
    Bits,
    /// two bits per object, packed LSB first
    DBits,
    /// the variation number is the object size (octet strings)
    VarSized,
    /// free-format (group 70)
    FreeFormat,
    /// no object data in any context (class objects, "any variation" var 0)
    NoData,
    /// device attributes (group 0): type, length, value
    Attr,
}

/// hand-written from IEEE 1815-2012 Annex A
pub fn size_of(group: u8, var: u8) -> Option<SizeKind> {
    use SizeKind::*;
    let k = match (group, var) {
        (0, 0) => return None,
        // non-specific "all attributes" request: never carries data
        (0, 254) => NoData,
        (0, _) => Attr,
        (1, 0) | (2, 0) | (3, 0) | (4, 0) | (10, 0) | (11, 0) | (20, 0) | (21, 0) | (22, 0)
        | (23, 0) | (30, 0) | (31, 0) | (32, 0) | (33, 0) | (34, 0) | (40, 0) | (42, 0)
        | (102, 0) => NoData,
        (1, 1) => Bits,
        (1, 2) => Fixed(1),
        (2, 1) => Fixed(1),
        (2, 2) => Fixed(7),
        (2, 3) => Fixed(3),
        (3, 1) => DBits,
        (3, 2) => Fixed(1),
        (4, 1) => Fixed(1),
        (4, 2) => Fixed(7),
        (4, 3) => Fixed(3),
        (10, 1) => Bits,
        (10, 2) => Fixed(1),
        (11, 1) => Fixed(1),
        (11, 2) => Fixed(7),
        (12, 1) => Fixed(11),
        (13, 1) => Fixed(1),
        (13, 2) => Fixed(7),
        (20, 1) => Fixed(5),
        (20, 2) => Fixed(3),
        (20, 5) => Fixed(4),
        (20, 6) => Fixed(2),
        (21, 1) => Fixed(5),
        (21, 2) => Fixed(3),
        (21, 5) => Fixed(11),
        (21, 6) => Fixed(9),
        (21, 9) => Fixed(4),
        (21, 10) => Fixed(2),
        (22, 1) => Fixed(5),
        (22, 2) => Fixed(3),
        (22, 5) => Fixed(11),
        (22, 6) => Fixed(9),
        (23, 1) => Fixed(5),
        (23, 2) => Fixed(3),
        (23, 5) => Fixed(11),
        (23, 6) => Fixed(9),
        (30, 1) => Fixed(5),
        (30, 2) => Fixed(3),
        (30, 3) => Fixed(4),
        (30, 4) => Fixed(2),
        (30, 5) => Fixed(5),
        (30, 6) => Fixed(9),
        (31, 1) => Fixed(5),
        (31, 2) => Fixed(3),
        (31, 3) => Fixed(11),
        (31, 4) => Fixed(9),
        (31, 5) => Fixed(4),
        (31, 6) => Fixed(2),
        (31, 7) => Fixed(5),
        (31, 8) => Fixed(9),
        (32, 1) | (33, 1) => Fixed(5),
        (32, 2) | (33, 2) => Fixed(3),
        (32, 3) | (33, 3) => Fixed(11),
        (32, 4) | (33, 4) => Fixed(9),
        (32, 5) | (33, 5) => Fixed(5),
        (32, 6) | (33, 6) => Fixed(9),
        (32, 7) | (33, 7) => Fixed(11),
        (32, 8) | (33, 8) => Fixed(15),
        (34, 1) => Fixed(2),
        (34, 2) => Fixed(4),
        (34, 3) => Fixed(4),
        (40, 1) => Fixed(5),
        (40, 2) => Fixed(3),
        (40, 3) => Fixed(5),
        (40, 4) => Fixed(9),
        (41, 1) => Fixed(5),
        (41, 2) => Fixed(3),
        (41, 3) => Fixed(5),
        (41, 4) => Fixed(9),
        (42, 1) | (43, 1) => Fixed(5),
        (42, 2) | (43, 2) => Fixed(3),
        (42, 3) | (43, 3) => Fixed(11),
        (42, 4) | (43, 4) => Fixed(9),
        (42, 5) | (43, 5) => Fixed(5),
        (42, 6) | (43, 6) => Fixed(9),
        (42, 7) | (43, 7) => Fixed(11),
        (42, 8) | (43, 8) => Fixed(15),
        (50, 1) => Fixed(6),
        (50, 2) => Fixed(10),
        (50, 3) => Fixed(6),
        (50, 4) => Fixed(11),
        (51, 1) => Fixed(6),
        (51, 2) => Fixed(6),
        (52, 1) => Fixed(2),
        (52, 2) => Fixed(2),
        (60, 1) | (60, 2) | (60, 3) | (60, 4) => NoData,
        (70, 2..=8) => FreeFormat,
        (80, 1) => Bits,
        (102, 1) => Fixed(1),
        (110, _) | (111, _) => VarSized,
        _ => return None,
    };
    Some(k)
}

// ---------------------------------------------------------------------------------------
// walker
// ---------------------------------------------------------------------------------------

#[derive(Clone, Debug, PartialEq, Eq, Hash)]
pub enum RangeSpec {
    StartStop(u32, u32),
    Count(u32),
    CountPrefixed(u32),
    All,
    FreeFormat(u32),
}

#[derive(Clone, Debug, PartialEq, Eq, Hash)]
pub struct Obj {
    pub index: Option<u32>,
    pub data: Vec<u8>,
}

#[derive(Clone, Debug, PartialEq, Eq, Hash)]
pub struct ObjHeader {
    pub group: u8,
    pub var: u8,
    pub qual: u8,
    pub range: RangeSpec,
    pub objects: Vec<Obj>,
    /// raw bytes of the whole header incl. objects
    pub raw: Vec<u8>,
}

#[derive(Clone, Debug, PartialEq, Eq)]
pub enum WalkError {
    Truncated,
    UnknownObject(u8, u8),
    UnknownQualifier(u8),
    BadRange,
    BadQualifierForObject(u8, u8, u8),
}

struct Cur<'a> {
    b: &'a [u8],
    pos: usize,
}

impl<'a> Cur<'a> {
    fn u8(&mut self) -> Result<u8, WalkError> {
        if self.pos + 1 > self.b.len() {
            return Err(WalkError::Truncated);
        }
        let v = self.b[self.pos];
        self.pos += 1;
        Ok(v)
    }
    fn u16(&mut self) -> Result<u16, WalkError> {
        let lo = self.u8()? as u16;
        let hi = self.u8()? as u16;
        Ok(lo | (hi << 8))
    }
    fn take(&mut self, n: usize) -> Result<&'a [u8], WalkError> {
        if self.pos + n > self.b.len() {
            return Err(WalkError::Truncated);
        }
        let s = &self.b[self.pos..self.pos + n];
        self.pos += n;
        Ok(s)
    }
}

/// Walk the object headers of a fragment. `no_data` = READ request semantics: range/count
/// headers carry no object data.
pub fn walk(objects: &[u8], no_data: bool) -> Result<Vec<ObjHeader>, WalkError> {
    walk_opts(objects, no_data, false)
}

/// `count_only_events`: count qualifiers (0x07 / 0x08) on event groups are "limited count"
/// headers without object data in any function code
pub fn walk_opts(objects: &[u8], no_data: bool, count_only_events: bool) -> Result<Vec<ObjHeader>, WalkError> {
    let mut c = Cur { b: objects, pos: 0 };
    let mut out = Vec::new();
    while c.pos < objects.len() {
        let start_pos = c.pos;
        let group = c.u8()?;
        let var = c.u8()?;
        let qual = c.u8()?;
        let kind = size_of(group, var).ok_or(WalkError::UnknownObject(group, var))?;
        let mut objs = Vec::new();
        let range = match qual {
            0x00 | 0x01 => {
                let (start, stop) = if qual == 0x00 {
                    (c.u8()? as u32, c.u8()? as u32)
                } else {
                    (c.u16()? as u32, c.u16()? as u32)
                };
                if stop < start {
                    return Err(WalkError::BadRange);
                }
                let count = (stop - start + 1) as usize;
                if !no_data {
                    match kind {
                        SizeKind::Fixed(n) => {
                            for i in 0..count {
                                let d = c.take(n)?;
                                objs.push(Obj { index: Some(start + i as u32), data: d.to_vec() });
                            }
                        }
                        SizeKind::VarSized => {
                            // variation 0 = zero-length strings (only parsed on request)
                            for i in 0..count {
                                let d = c.take(var as usize)?;
                                objs.push(Obj { index: Some(start + i as u32), data: d.to_vec() });
                            }
                        }
                        SizeKind::Bits => {
                            let d = c.take((count + 7) / 8)?;
                            for i in 0..count {
                                let bit = (d[i / 8] >> (i % 8)) & 1;
                                objs.push(Obj { index: Some(start + i as u32), data: vec![bit] });
                            }
                        }
                        SizeKind::DBits => {
                            let d = c.take((count + 3) / 4)?;
                            for i in 0..count {
                                let v = (d[i / 4] >> (2 * (i % 4))) & 3;
                                objs.push(Obj { index: Some(start + i as u32), data: vec![v] });
                            }
                        }
                        SizeKind::Attr => {
                            for i in 0..count {
                                let t = c.u8()?;
                                let l = c.u8()?;
                                // data type 255 is the extended attribute list: its length octet
                                // counts from 256
                                let d = c.take(if t == 255 { l as usize + 256 } else { l as usize })?;
                                let mut data = vec![t, l];
                                data.extend_from_slice(d);
                                objs.push(Obj { index: Some(start + i as u32), data });
                            }
                        }
                        SizeKind::NoData => {}
                        SizeKind::FreeFormat => {
                            return Err(WalkError::BadQualifierForObject(group, var, qual))
                        }
                    }
                }
                RangeSpec::StartStop(start, stop)
            }
            0x06 => RangeSpec::All,
            0x07 | 0x08 => {
                let count = if qual == 0x07 { c.u8()? as u32 } else { c.u16()? as u32 };
                let event_group = matches!(group, 2 | 4 | 11 | 13 | 22 | 23 | 32 | 33 | 42 | 43 | 111);
                if !no_data && !(count_only_events && event_group) {
                    match kind {
                        SizeKind::Fixed(n) => {
                            for _ in 0..count {
                                let d = c.take(n)?;
                                objs.push(Obj { index: None, data: d.to_vec() });
                            }
                        }
                        SizeKind::NoData => {}
                        _ => return Err(WalkError::BadQualifierForObject(group, var, qual)),
                    }
                }
                RangeSpec::Count(count)
            }
            0x17 | 0x28 => {
                let count = if qual == 0x17 { c.u8()? as u32 } else { c.u16()? as u32 };
                for _ in 0..count {
                    let idx = if qual == 0x17 { c.u8()? as u32 } else { c.u16()? as u32 };
                    let d: &[u8] = match kind {
                        SizeKind::Fixed(n) => c.take(n)?,
                        SizeKind::VarSized => c.take(var as usize)?,
                        _ => return Err(WalkError::BadQualifierForObject(group, var, qual)),
                    };
                    objs.push(Obj { index: Some(idx), data: d.to_vec() });
                }
                RangeSpec::CountPrefixed(count)
            }
            0x5B => {
                let count = c.u8()? as u32;
                for _ in 0..count {
                    let len = c.u16()? as usize;
                    let d = c.take(len)?;
                    objs.push(Obj { index: None, data: d.to_vec() });
                }
                RangeSpec::FreeFormat(count)
            }
            q => return Err(WalkError::UnknownQualifier(q)),
        };
        out.push(ObjHeader {
            group,
            var,
            qual,
            range,
            objects: objs,
            raw: objects[start_pos..c.pos].to_vec(),
        });
    }
    Ok(out)
}

// ---------------------------------------------------------------------------------------
// encoders
// ---------------------------------------------------------------------------------------

pub fn hdr_all(group: u8, var: u8) -> Vec<u8> {
    vec![group, var, 0x06]
}

pub fn hdr_range8(group: u8, var: u8, start: u8, stop: u8) -> Vec<u8> {
    vec![group, var, 0x00, start, stop]
}

pub fn hdr_range16(group: u8, var: u8, start: u16, stop: u16) -> Vec<u8> {
    vec![group, var, 0x01, start as u8, (start >> 8) as u8, stop as u8, (stop >> 8) as u8]
}

pub fn hdr_count8(group: u8, var: u8, count: u8) -> Vec<u8> {
    vec![group, var, 0x07, count]
}

pub fn hdr_count16(group: u8, var: u8, count: u16) -> Vec<u8> {
    vec![group, var, 0x08, count as u8, (count >> 8) as u8]
}

pub fn class_headers(c1: bool, c2: bool, c3: bool, c0: bool) -> Vec<u8> {
    let mut v = Vec::new();
    if c1 {
        v.extend(hdr_all(60, 2));
    }
    if c2 {
        v.extend(hdr_all(60, 3));
    }
    if c3 {
        v.extend(hdr_all(60, 4));
    }
    if c0 {
        v.extend(hdr_all(60, 1));
    }
    v
}

/// g12v1 CROB object body
pub fn crob(code: u8, count: u8, on: u32, off: u32, status: u8) -> Vec<u8> {
    let mut v = vec![code, count];
    v.extend_from_slice(&on.to_le_bytes());
    v.extend_from_slice(&off.to_le_bytes());
    v.push(status);
    v
}

/// one header with 1-byte count and 1-byte index prefix
pub fn prefixed8(group: u8, var: u8, items: &[(u8, Vec<u8>)]) -> Vec<u8> {
    let mut v = vec![group, var, 0x17, items.len() as u8];
    for (i, d) in items {
        v.push(*i);
        v.extend_from_slice(d);
    }
    v
}

/// one header with 2-byte count and 2-byte index prefix
pub fn prefixed16(group: u8, var: u8, items: &[(u16, Vec<u8>)]) -> Vec<u8> {
    let n = items.len() as u16;
    let mut v = vec![group, var, 0x28, n as u8, (n >> 8) as u8];
    for (i, d) in items {
        v.push(*i as u8);
        v.push((*i >> 8) as u8);
        v.extend_from_slice(d);
    }
    v
}

pub fn g41v1(value: i32, status: u8) -> Vec<u8> {
    let mut v = value.to_le_bytes().to_vec();
    v.push(status);
    v
}
pub fn g41v2(value: i16, status: u8) -> Vec<u8> {
    let mut v = value.to_le_bytes().to_vec();
    v.push(status);
    v
}
pub fn g41v3(value: f32, status: u8) -> Vec<u8> {
    let mut v = value.to_le_bytes().to_vec();
    v.push(status);
    v
}
pub fn g41v4(value: f64, status: u8) -> Vec<u8> {
    let mut v = value.to_le_bytes().to_vec();
    v.push(status);
    v
}

/// WRITE g80v1 index 7 (restart) = value
pub fn write_restart_objects(value: bool) -> Vec<u8> {
    vec![80, 1, 0x00, 7, 7, if value { 1 } else { 0 }]
}

pub fn time48(ms: u64) -> [u8; 6] {
    let b = ms.to_le_bytes();
    [b[0], b[1], b[2], b[3], b[4], b[5]]
}

pub fn g50v1_objects(ms: u64) -> Vec<u8> {
    let mut v = vec![50, 1, 0x07, 1];
    v.extend_from_slice(&time48(ms));
    v
}

pub fn g50v3_objects(ms: u64) -> Vec<u8> {
    let mut v = vec![50, 3, 0x07, 1];
    v.extend_from_slice(&time48(ms));
    v
}

pub fn read_u48(b: &[u8]) -> u64 {
    let mut x = [0u8; 8];
    x[..6].copy_from_slice(&b[..6]);
    u64::from_le_bytes(x)
}

pub fn hex(b: &[u8]) -> String {
    let mut s = String::with_capacity(b.len() * 3);
    for (i, x) in b.iter().enumerate() {
        if i > 0 {
            s.push(' ');
        }
        s.push_str(&format!("{x:02X}"));
    }
    s
}

#[cfg(test)]
mod test {
    use super::*;

    #[test]
    fn walks_known_responses() {
        // from outstation tests: g1v2 range 0..=1 values 0x01 0x81 ; g30v1 [0] flags 01 value 0
        let objs = [0x01, 0x02, 0x00, 0x00, 0x01, 0x01, 0x81, 0x1E, 0x01, 0x00, 0x00, 0x00, 0x01, 0x00, 0x00, 0x00, 0x00];
        let h = walk(&objs, false).unwrap();
        assert_eq!(h.len(), 2);
        assert_eq!(h[0].objects.len(), 2);
        assert_eq!(h[0].objects[1].data, vec![0x81]);
        assert_eq!(h[1].objects[0].index, Some(0));
    }

    #[test]
    fn read_requests_have_no_data() {
        let objs = [0x01, 0x02, 0x00, 0x00, 0x01, 0x3C, 0x01, 0x06];
        let h = walk(&objs, true).unwrap();
        assert_eq!(h.len(), 2);
        assert_eq!(h[1].range, RangeSpec::All);
    }

    #[test]
    fn detects_truncation() {
        let objs = [0x01, 0x02, 0x00, 0x00, 0x01, 0x01];
        assert_eq!(walk(&objs, false), Err(WalkError::Truncated));
    }
}
