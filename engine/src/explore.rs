//! Bounded-exhaustive exploration (DESIGN §2.4), statistics, verdict plumbing, evidence.
//!
//! Two enumeration shapes share the same accounting:
//! * `Scenario`: all event histories over an alphabet up to a depth, each executed on the real
//!   code from a fresh initial state, reference model stepped alongside (SM / PAIR)
//! * `CaseSpace`: a finite indexed input domain, each case evaluated against a reference
//!   function (IN)

use std::collections::{BTreeMap, HashSet};
use std::sync::atomic::{AtomicBool, AtomicUsize, Ordering};
use std::sync::Mutex;
use std::time::Instant;

use serde_json::{json, Value};

#[derive(Clone, Debug)]
pub struct Violation {
    /// clause identifier, e.g. "C04.M1"
    pub clause: String,
    /// defect key computed by the oracle from the failing situation (known-finding matching)
    pub key: String,
    pub detail: String,
}

impl Violation {
    pub fn new(clause: &str, key: impl Into<String>, detail: impl Into<String>) -> Self {
        Self { clause: clause.to_string(), key: key.into(), detail: detail.into() }
    }
    pub fn sig(&self) -> (String, String) {
        (self.clause.clone(), self.key.clone())
    }
}

#[derive(Default)]
pub struct RunResult {
    pub violation: Option<Violation>,
    /// hash of the reference-model state after each event
    pub model_states: Vec<u64>,
    /// hash of the complete observation trace
    pub obs: u64,
    /// events executed on the implementation
    pub transitions: usize,
    /// non-trivial by the scenario's stated rule
    pub nontrivial: bool,
    /// human readable transcript (only when requested)
    pub transcript: Vec<String>,
}

pub trait Scenario: Sync {
    fn name(&self) -> String;
    /// labels of the alphabet, simplest first
    fn alphabet(&self) -> Vec<String>;
    fn depth(&self) -> usize;
    /// static filter: is event `next` worth exploring after `prefix`? (never hides behaviour:
    /// used only for events that are defined as no-ops in that position)
    fn enabled(&self, _prefix: &[usize], _next: usize) -> bool {
        true
    }
    fn run(&self, path: &[usize], transcript: bool) -> RunResult;
}

pub trait CaseSpace: Sync {
    fn name(&self) -> String;
    fn total(&self) -> usize;
    /// cases that run real tasks on the kernel: repeated under several kernel seeds in the
    /// thorough tier
    fn seeded(&self) -> bool {
        false
    }
    fn run(&self, index: usize, transcript: bool) -> RunResult;
}

pub fn fnv(data: &[u8]) -> u64 {
    let mut h: u64 = 0xcbf29ce484222325;
    for b in data {
        h ^= *b as u64;
        h = h.wrapping_mul(0x100000001b3);
    }
    h
}

pub fn fnv_str(s: &str) -> u64 {
    fnv(s.as_bytes())
}

/// incremental hasher for observation traces
#[derive(Clone)]
pub struct Hasher(pub u64);

impl Default for Hasher {
    fn default() -> Self {
        Hasher(0xcbf29ce484222325)
    }
}

impl Hasher {
    pub fn add(&mut self, data: &[u8]) {
        for b in data {
            self.0 ^= *b as u64;
            self.0 = self.0.wrapping_mul(0x100000001b3);
        }
        self.0 ^= 0xff;
        self.0 = self.0.wrapping_mul(0x100000001b3);
    }
    pub fn add_u64(&mut self, v: u64) {
        self.add(&v.to_le_bytes());
    }
    pub fn add_str(&mut self, s: &str) {
        self.add(s.as_bytes());
    }
}

#[derive(Default)]
struct Acc {
    histories: u64,
    transitions: u64,
    states: HashSet<u64>,
    outcomes: HashSet<u64>,
    nontrivial: HashSet<u64>,
    /// signature -> (scenario, path, detail)
    violations: BTreeMap<(String, String), (String, Vec<usize>, String)>,
    determinism_checks: u64,
    machinery_errors: Vec<String>,
}

impl Acc {
    fn merge(&mut self, o: Acc) {
        self.histories += o.histories;
        self.transitions += o.transitions;
        self.states.extend(o.states);
        self.outcomes.extend(o.outcomes);
        self.nontrivial.extend(o.nontrivial);
        for (k, v) in o.violations {
            let e = self.violations.entry(k);
            match e {
                std::collections::btree_map::Entry::Vacant(x) => {
                    x.insert(v);
                }
                std::collections::btree_map::Entry::Occupied(mut x) => {
                    if v.1.len() < x.get().1.len() || (v.1.len() == x.get().1.len() && v.1 < x.get().1) {
                        x.insert(v);
                    }
                }
            }
        }
        self.determinism_checks += o.determinism_checks;
        self.machinery_errors.extend(o.machinery_errors);
    }

    fn record(&mut self, scenario: &str, path: &[usize], r: &RunResult) {
        self.histories += 1;
        self.transitions += r.transitions as u64;
        for s in &r.model_states {
            self.states.insert(*s);
        }
        self.outcomes.insert(r.obs);
        if r.nontrivial {
            self.nontrivial.insert(r.obs);
        }
        if let Some(v) = &r.violation {
            let sig = v.sig();
            let better = match self.violations.get(&sig) {
                None => true,
                Some(old) => path.len() < old.1.len() || (path.len() == old.1.len() && path < old.1.as_slice()),
            };
            if better {
                self.violations
                    .insert(sig, (scenario.to_string(), path.to_vec(), v.detail.clone()));
            }
        }
    }
}

/// Run one history / case.  A panic raised by the *library* on the driver's own thread (a
/// direct API call such as a database transaction) is a violation `<id>.X0`; a panic of the
/// engine itself (model, driver) is a machinery failure, never a verdict.
fn run_guarded(id: &str, what: &str, f: impl FnOnce() -> RunResult) -> RunResult {
    match crate::kernel::guarded(f) {
        Ok(r) => r,
        Err(msg) => {
            if msg.contains("/repo/") {
                let loc = msg.rsplit(" @ ").next().unwrap_or("").trim_start_matches("/repo/").to_string();
                let mut r = RunResult::default();
                r.transcript.push(format!("panic in library code on the driver's thread: {msg}"));
                r.violation = Some(Violation::new(&format!("{id}.X0"), format!("panic@{loc}"), format!("library code panicked when called directly by the driver: {msg}")));
                r
            } else {
                eprintln!("MACHINERY-ERROR: the engine panicked in {what}: {msg}");
                std::process::exit(2);
            }
        }
    }
}

pub struct KnownFinding {
    pub property: String,
    pub clause: String,
    pub key: String,
    pub what: String,
}

pub fn load_known_findings() -> Vec<KnownFinding> {
    let path = "/verif/known_findings.json";
    let Ok(text) = std::fs::read_to_string(path) else {
        return Vec::new();
    };
    let v: Value = serde_json::from_str(&text).expect("known_findings.json is valid JSON");
    let mut out = Vec::new();
    if let Some(arr) = v.get("known").and_then(|x| x.as_array()) {
        for k in arr {
            out.push(KnownFinding {
                property: k["property"].as_str().unwrap_or("").to_string(),
                clause: k["clause"].as_str().unwrap_or("").to_string(),
                key: k["key"].as_str().unwrap_or("").to_string(),
                what: k["what"].as_str().unwrap_or("").to_string(),
            });
        }
    }
    out
}

pub struct ScenarioSummary {
    pub name: String,
    pub alphabet: Vec<String>,
    pub depth: usize,
    pub histories: u64,
}

pub struct Check {
    pub id: String,
    pub tier: String,
    pub seed: u64,
    start: Instant,
    acc: Acc,
    scenarios: Vec<Value>,
    samples: Vec<Value>,
    pub wall_cap_s: f64,
    pub capped: bool,
    /// unlisted violations found: (clause, key, replay path)
    pub new_violations: Vec<(String, String, String)>,
    pub known_hits: Vec<String>,
    threads: usize,
    /// kernel seed offset of the exploration in progress
    pub kseed: u64,
}

fn greedy_minimise(id: &str, scn: &dyn Scenario, path: &[usize], sig: &(String, String)) -> Vec<usize> {
    let mut cur = path.to_vec();
    loop {
        let mut improved = false;
        let mut i = 0;
        while i < cur.len() {
            let mut cand = cur.clone();
            cand.remove(i);
            let r = run_guarded(id, "minimisation", || scn.run(&cand, false));
            if r.violation.as_ref().map(|v| v.sig()) == Some(sig.clone()) {
                cur = cand;
                improved = true;
            } else {
                i += 1;
            }
        }
        if !improved {
            break;
        }
    }
    cur
}

impl Check {
    pub fn new(id: &str, tier: &str) -> Self {
        let seed = std::env::var("VERIF_SEED").ok().and_then(|s| s.parse().ok()).unwrap_or(0u64);
        let threads = std::env::var("VERIF_THREADS")
            .ok()
            .and_then(|s| s.parse().ok())
            .unwrap_or_else(|| std::thread::available_parallelism().map(|n| n.get()).unwrap_or(4));
        let wall_cap_s = std::env::var("VERIF_WALL_CAP_S")
            .ok()
            .and_then(|s| s.parse().ok())
            .unwrap_or(if tier == "quick" { 50.0 } else { 3600.0 });
        Self {
            id: id.to_string(),
            tier: tier.to_string(),
            seed,
            start: Instant::now(),
            acc: Acc::default(),
            scenarios: Vec::new(),
            samples: Vec::new(),
            wall_cap_s,
            capped: false,
            new_violations: Vec::new(),
            known_hits: Vec::new(),
            threads,
            kseed: 0,
        }
    }

    pub fn quick(&self) -> bool {
        self.tier == "quick"
    }

    pub fn elapsed(&self) -> f64 {
        self.start.elapsed().as_secs_f64()
    }

    /// Explore all histories of `scn` of length == depth (every shorter history is a prefix and
    /// is checked after each of its events).
    /// kernel seeds of a tier: the thorough tier repeats every stateful exploration under three
    fn kernel_seeds(&self) -> Vec<u64> {
        if self.tier == "thorough" {
            vec![0, 1, 2]
        } else {
            vec![0]
        }
    }

    pub fn explore(&mut self, scn: &dyn Scenario) {
        for ks in self.kernel_seeds() {
            self.kseed = ks;
            crate::kernel::SEED_OFFSET.store(ks, Ordering::SeqCst);
            self.explore_one(scn);
        }
        self.kseed = 0;
        crate::kernel::SEED_OFFSET.store(0, Ordering::SeqCst);
    }

    fn explore_one(&mut self, scn: &dyn Scenario) {
        let alphabet = scn.alphabet();
        let n = alphabet.len();
        let depth = scn.depth();
        let t_start = Instant::now();

        // work items: all enabled prefixes of length min(2, depth)
        // work items: enabled prefixes, split deeper until there are enough of them to balance
        let mut items: Vec<Vec<usize>> = vec![vec![]];
        for level in 0..depth {
            if level >= 2 && items.len() >= 32 * self.threads {
                break;
            }
            let mut next = Vec::new();
            for p in &items {
                for e in 0..n {
                    if scn.enabled(p, e) {
                        let mut q = p.clone();
                        q.push(e);
                        next.push(q);
                    }
                }
            }
            items = next;
        }

        let cursor = AtomicUsize::new(0);
        let stop = AtomicBool::new(false);
        let total_acc = Mutex::new(Acc::default());
        let deadline = self.start + std::time::Duration::from_secs_f64(self.wall_cap_s);
        let name = scn.name();

        // hang watchdog: every worker publishes the history it is executing; a history that does
        // not return within HANG_LIMIT is a non-terminating execution (busy loop inside one poll)
        let slots: Vec<Mutex<Option<(Vec<usize>, Instant)>>> = (0..self.threads).map(|_| Mutex::new(None)).collect();
        let finished = AtomicUsize::new(0);
        let hang_limit = std::time::Duration::from_secs(
            std::env::var("VERIF_HANG_LIMIT_S").ok().and_then(|s| s.parse().ok()).unwrap_or(20),
        );
        let id = self.id.clone();
        let alphabet_for_hang = alphabet.clone();

        std::thread::scope(|s| {
            for w in 0..self.threads {
                let slots = &slots;
                let finished = &finished;
                let cursor = &cursor;
                let stop = &stop;
                let items = &items;
                let total_acc = &total_acc;
                let name = &name;
                let id = &id;
                s.spawn(move || {
                    let mut acc = Acc::default();
                    let mut counter: u64 = 0;
                    loop {
                        let i = cursor.fetch_add(1, Ordering::SeqCst);
                        if i >= items.len() || stop.load(Ordering::SeqCst) {
                            break;
                        }
                        let mut path = items[i].clone();
                        // iterative DFS over the remaining depth
                        dfs(scn, n, depth, &mut path, &mut |p: &[usize]| {
                            *slots[w].lock().unwrap() = Some((p.to_vec(), Instant::now()));
                            // a panic of the *engine* (model, driver) is a machinery failure, never a verdict
                            let r = run_guarded(id, &format!("scenario {} path {:?}", name, p), || scn.run(p, false));
                            *slots[w].lock().unwrap() = None;
                            counter += 1;
                            if counter % 64 == 0 {
                                let r2 = run_guarded(id, "determinism re-run", || scn.run(p, false));
                                acc.determinism_checks += 1;
                                if r2.obs != r.obs {
                                    acc.machinery_errors.push(format!(
                                        "non-deterministic replay in {} path {:?}",
                                        name, p
                                    ));
                                }
                            }
                            acc.record(&name, p, &r);
                            if counter % 256 == 0 && Instant::now() > deadline {
                                stop.store(true, Ordering::SeqCst);
                            }
                            !stop.load(Ordering::SeqCst)
                        });
                    }
                    total_acc.lock().unwrap().merge(acc);
                    finished.fetch_add(1, Ordering::SeqCst);
                });
            }
            // monitor
            while finished.load(Ordering::SeqCst) < self.threads {
                std::thread::sleep(std::time::Duration::from_millis(50));
                for slot in &slots {
                    let stuck = match &*slot.lock().unwrap() {
                        Some((p, t0)) if t0.elapsed() > hang_limit => Some(p.clone()),
                        _ => None,
                    };
                    if let Some(p) = stuck {
                        let sig = (format!("{id}.H0"), "history-does-not-terminate".to_string());
                        let replay = json!({
                            "property": id,
                            "kind": "scenario",
                            "scenario": scn.name(),
                            "clause": sig.0,
                            "key": sig.1,
                            "detail": format!("a single history did not return within {:?}: the task spins without yielding", hang_limit),
                            "path": p,
                            "events": p.iter().map(|i| alphabet_for_hang[*i].clone()).collect::<Vec<_>>(),
                            "transcript": ["(not replayable in-process: the execution does not terminate)"],
                        });
                        let dir = format!("/verif/replays/{id}");
                        let _ = std::fs::create_dir_all(&dir);
                        let file = format!("{dir}/hang-{:016x}.json", fnv_str(&format!("{}{:?}", scn.name(), p)));
                        let _ = std::fs::write(&file, serde_json::to_string_pretty(&replay).unwrap());
                        println!("VIOLATION property={id} replay={file}");
                        println!("  clause={} key={} detail=history {:?} of {} does not terminate", sig.0, sig.1, p, scn.name());
                        let ev = json!({
                            "property_id": id, "tier": self.tier, "seed": self.seed, "level": "model_checking",
                            "coverage": {"states": 1, "transitions": 1, "traces_validated_against_impl": 0,
                                "samples": [replay], "exhaustive": false,
                                "caps_hit": ["aborted: non-terminating history"]},
                            "wall_s": self.start.elapsed().as_secs_f64(), "violations": 1,
                        });
                        let _ = std::fs::write(format!("/verif/evidence/{id}.json"), serde_json::to_string_pretty(&ev).unwrap());
                        std::process::exit(1);
                    }
                }
            }
        });

        if stop.load(Ordering::SeqCst) {
            self.capped = true;
        }
        let acc = total_acc.into_inner().unwrap();
        let hist = acc.histories;

        // handle violations of this scenario
        let violations: Vec<_> = acc.violations.iter().map(|(k, v)| (k.clone(), v.clone())).collect();
        for (sig, (sname, path, _detail)) in violations {
            self.handle_violation(scn, &sname, &path, &sig);
        }
        // samples: first, middle, last leaf re-run with transcripts
        if hist > 0 && self.samples.len() < 6 {
            let mut sample_paths: Vec<Vec<usize>> = Vec::new();
            if let Some(p) = items.get(items.len() / 2) {
                let mut p = p.clone();
                while p.len() < depth {
                    let k = p.len();
                    let mut chosen = None;
                    for e in 0..n {
                        let cand = (e + k * 7 + 3) % n;
                        if scn.enabled(&p, cand) {
                            chosen = Some(cand);
                            break;
                        }
                    }
                    match chosen {
                        Some(c) => p.push(c),
                        None => break,
                    }
                }
                sample_paths.push(p);
            }
            for p in sample_paths {
                let r = run_guarded(&self.id, "sample", || scn.run(&p, true));
                self.samples.push(json!({
                    "scenario": scn.name(),
                    "path": p,
                    "events": p.iter().map(|i| alphabet[*i].clone()).collect::<Vec<_>>(),
                    "transcript": r.transcript,
                }));
            }
        }
        self.scenarios.push(json!({
            "name": scn.name(),
            "kernel_seed": self.kseed,
            "alphabet_size": n,
            "alphabet": alphabet,
            "depth": depth,
            "histories": hist,
            "transitions": acc.transitions,
            "wall_s": t_start.elapsed().as_secs_f64(),
        }));
        self.acc.merge(acc);
    }

    /// Evaluate every case of an indexed finite input space.
    pub fn cases(&mut self, space: &dyn CaseSpace) {
        let seeds = if space.seeded() { self.kernel_seeds() } else { vec![0] };
        for ks in seeds {
            self.kseed = ks;
            crate::kernel::SEED_OFFSET.store(ks, Ordering::SeqCst);
            self.cases_one(space);
        }
        self.kseed = 0;
        crate::kernel::SEED_OFFSET.store(0, Ordering::SeqCst);
    }

    fn cases_one(&mut self, space: &dyn CaseSpace) {
        let total = space.total();
        let t_start = Instant::now();
        let cursor = AtomicUsize::new(0);
        let stop = AtomicBool::new(false);
        let total_acc = Mutex::new(Acc::default());
        let deadline = self.start + std::time::Duration::from_secs_f64(self.wall_cap_s);
        let name = space.name();
        const BATCH: usize = 64;
        let slots: Vec<Mutex<Option<(usize, Instant)>>> = (0..self.threads).map(|_| Mutex::new(None)).collect();
        let finished = AtomicUsize::new(0);
        let hang_limit = std::time::Duration::from_secs(
            std::env::var("VERIF_HANG_LIMIT_S").ok().and_then(|s| s.parse().ok()).unwrap_or(20),
        );
        let id = self.id.clone();
        std::thread::scope(|s| {
            for w in 0..self.threads {
                let slots = &slots;
                let finished = &finished;
                let cursor = &cursor;
                let stop = &stop;
                let total_acc = &total_acc;
                let name = &name;
                let id = &id;
                s.spawn(move || {
                    let mut acc = Acc::default();
                    loop {
                        let base = cursor.fetch_add(BATCH, Ordering::SeqCst);
                        if base >= total || stop.load(Ordering::SeqCst) {
                            break;
                        }
                        for i in base..(base + BATCH).min(total) {
                            *slots[w].lock().unwrap() = Some((i, Instant::now()));
                            let r = run_guarded(id, &format!("case {} #{}", name, i), || space.run(i, false));
                            *slots[w].lock().unwrap() = None;
                            if i % 64 == 0 {
                                let r2 = run_guarded(id, "determinism re-run", || space.run(i, false));
                                acc.determinism_checks += 1;
                                if r2.obs != r.obs {
                                    acc.machinery_errors
                                        .push(format!("non-deterministic case {} #{}", name, i));
                                }
                            }
                            acc.record(&name, &[i], &r);
                        }
                        if Instant::now() > deadline {
                            stop.store(true, Ordering::SeqCst);
                        }
                    }
                    total_acc.lock().unwrap().merge(acc);
                    finished.fetch_add(1, Ordering::SeqCst);
                });
            }
            while finished.load(Ordering::SeqCst) < self.threads {
                std::thread::sleep(std::time::Duration::from_millis(50));
                for slot in &slots {
                    let stuck = match &*slot.lock().unwrap() {
                        Some((i, t0)) if t0.elapsed() > hang_limit => Some(*i),
                        _ => None,
                    };
                    if let Some(i) = stuck {
                        let replay = json!({
                            "property": id, "kind": "case", "space": space.name(), "clause": format!("{id}.H0"),
                            "key": "case-does-not-terminate",
                            "detail": format!("case did not return within {:?}: the code under test spins without yielding", hang_limit),
                            "index": i, "transcript": ["(not replayable in-process: the execution does not terminate)"],
                        });
                        let dir = format!("/verif/replays/{id}");
                        let _ = std::fs::create_dir_all(&dir);
                        let file = format!("{dir}/hang-{:016x}.json", fnv_str(&format!("{}{}", space.name(), i)));
                        let _ = std::fs::write(&file, serde_json::to_string_pretty(&replay).unwrap());
                        println!("VIOLATION property={id} replay={file}");
                        println!("  clause={id}.H0 key=case-does-not-terminate detail=case #{i} of {} does not terminate", space.name());
                        let ev = json!({
                            "property_id": id, "tier": self.tier, "seed": self.seed, "level": "model_checking",
                            "coverage": {"states": 1, "transitions": 1, "traces_validated_against_impl": 0,
                                "samples": [replay], "exhaustive": false, "caps_hit": ["aborted: non-terminating case"]},
                            "wall_s": self.start.elapsed().as_secs_f64(), "violations": 1,
                        });
                        let _ = std::fs::write(format!("/verif/evidence/{id}.json"), serde_json::to_string_pretty(&ev).unwrap());
                        std::process::exit(1);
                    }
                }
            }
        });
        if stop.load(Ordering::SeqCst) {
            self.capped = true;
        }
        let acc = total_acc.into_inner().unwrap();
        let violations: Vec<_> = acc.violations.iter().map(|(k, v)| (k.clone(), v.clone())).collect();
        for (sig, (_sname, path, detail)) in violations {
            self.handle_case_violation(space, path[0], &sig, &detail);
        }
        if total > 0 && self.samples.len() < 6 {
            let i = total / 2;
            let r = run_guarded(&self.id, "sample", || space.run(i, true));
            self.samples.push(json!({"space": name, "index": i, "transcript": r.transcript}));
        }
        self.scenarios.push(json!({
            "name": name,
            "kernel_seed": self.kseed,
            "cases": total,
            "evaluated": acc.histories,
            "wall_s": t_start.elapsed().as_secs_f64(),
        }));
        self.acc.merge(acc);
    }

    fn is_known(&self, sig: &(String, String)) -> Option<String> {
        for k in load_known_findings() {
            if k.property == self.id && k.clause == sig.0 && k.key == sig.1 {
                return Some(k.what);
            }
        }
        None
    }

    fn handle_violation(&mut self, scn: &dyn Scenario, sname: &str, path: &[usize], sig: &(String, String)) {
        // minimise, then replay twice
        let min = greedy_minimise(&self.id, scn, path, sig);
        let r1 = run_guarded(&self.id, "replay", || scn.run(&min, true));
        let r2 = run_guarded(&self.id, "replay", || scn.run(&min, false));
        let s1 = r1.violation.as_ref().map(|v| v.sig());
        let s2 = r2.violation.as_ref().map(|v| v.sig());
        if s1 != Some(sig.clone()) || s2 != Some(sig.clone()) || r1.obs != r2.obs {
            self.acc.machinery_errors.push(format!(
                "violation {:?} in {} path {:?} did not replay deterministically",
                sig, sname, min
            ));
            return;
        }
        if let Some(what) = self.is_known(sig) {
            let line = format!("KNOWN-FINDING: property={} {} [{}:{}]", self.id, what, sig.0, sig.1);
            if !self.known_hits.contains(&line) {
                println!("{line}");
                self.known_hits.push(line);
            }
            return;
        }
        let alphabet = scn.alphabet();
        let detail = r1.violation.as_ref().map(|v| v.detail.clone()).unwrap_or_default();
        let replay = json!({
            "property": self.id,
            "kind": "scenario",
            "kseed": self.kseed,
            "scenario": sname,
            "clause": sig.0,
            "key": sig.1,
            "detail": detail,
            "path": min,
            "events": min.iter().map(|i| alphabet[*i].clone()).collect::<Vec<_>>(),
            "transcript": r1.transcript,
        });
        let file = self.write_replay(&replay);
        println!("VIOLATION property={} replay={}", self.id, file);
        println!("  clause={} key={} detail={}", sig.0, sig.1, detail);
        self.new_violations.push((sig.0.clone(), sig.1.clone(), file));
    }

    fn handle_case_violation(&mut self, space: &dyn CaseSpace, index: usize, sig: &(String, String), detail: &str) {
        let r1 = run_guarded(&self.id, "replay", || space.run(index, true));
        let r2 = run_guarded(&self.id, "replay", || space.run(index, false));
        let s1 = r1.violation.as_ref().map(|v| v.sig());
        let s2 = r2.violation.as_ref().map(|v| v.sig());
        if s1 != Some(sig.clone()) || s2 != Some(sig.clone()) {
            self.acc
                .machinery_errors
                .push(format!("case violation {:?} in {} #{} did not replay", sig, space.name(), index));
            return;
        }
        if let Some(what) = self.is_known(sig) {
            let line = format!("KNOWN-FINDING: property={} {} [{}:{}]", self.id, what, sig.0, sig.1);
            if !self.known_hits.contains(&line) {
                println!("{line}");
                self.known_hits.push(line);
            }
            return;
        }
        let replay = json!({
            "property": self.id,
            "kind": "case",
            "kseed": self.kseed,
            "space": space.name(),
            "clause": sig.0,
            "key": sig.1,
            "detail": detail,
            "index": index,
            "transcript": r1.transcript,
        });
        let file = self.write_replay(&replay);
        println!("VIOLATION property={} replay={}", self.id, file);
        println!("  clause={} key={} detail={}", sig.0, sig.1, detail);
        self.new_violations.push((sig.0.clone(), sig.1.clone(), file));
    }

    fn write_replay(&self, v: &Value) -> String {
        let dir = format!("/verif/replays/{}", self.id);
        let _ = std::fs::create_dir_all(&dir);
        let text = serde_json::to_string_pretty(v).unwrap();
        let file = format!("{}/{:016x}.json", dir, fnv_str(&format!("{}{}{}", v["clause"], v["key"], v["scenario"])));
        std::fs::write(&file, text).expect("write replay");
        file
    }

    pub fn machinery_error(&mut self, msg: String) {
        self.acc.machinery_errors.push(msg);
    }

    pub fn add_sample(&mut self, v: Value) {
        self.samples.push(v);
    }

    pub fn histories(&self) -> u64 {
        self.acc.histories
    }

    /// write evidence and return the process exit code
    pub fn finish(self, level: &str, rule: &str, assumptions: &[&str], extra: Value) -> i32 {
        let wall = self.start.elapsed().as_secs_f64();
        let mut coverage = json!({
            "states": self.acc.states.len().max(1),
            "transitions": self.acc.transitions.max(1),
            "traces_validated_against_impl": self.acc.histories,
            "evaluations": self.acc.histories.max(1),
            "distinct_outcomes": self.acc.outcomes.len(),
            "distinct_nontrivial": self.acc.nontrivial.len(),
            "rule": rule,
            "samples": self.samples,
            "exhaustive": !self.capped,
            "caps_hit": if self.capped { json!([format!("wall clock cap {} s", self.wall_cap_s)]) } else { json!([]) },
            "scenarios": self.scenarios,
            "determinism_rechecks": self.acc.determinism_checks,
            "known_findings_reproduced": self.known_hits,
            "threads": self.threads,
        });
        if let (Some(c), Some(e)) = (coverage.as_object_mut(), extra.as_object()) {
            for (k, v) in e {
                c.insert(k.clone(), v.clone());
            }
        }
        let ev = json!({
            "property_id": self.id,
            "tier": self.tier,
            "seed": self.seed,
            "level": level,
            "coverage": coverage,
            "assumptions": assumptions,
            "wall_s": wall,
            "violations": self.new_violations.len(),
        });
        let _ = std::fs::create_dir_all("/verif/evidence");
        let path = format!("/verif/evidence/{}.json", self.id);
        std::fs::write(&path, serde_json::to_string_pretty(&ev).unwrap()).expect("write evidence");
        println!(
            "{} {}: histories={} transitions={} model_states={} distinct_outcomes={} nontrivial={} wall={:.1}s exhaustive={}",
            self.id,
            self.tier,
            self.acc.histories,
            self.acc.transitions,
            self.acc.states.len(),
            self.acc.outcomes.len(),
            self.acc.nontrivial.len(),
            wall,
            !self.capped
        );
        if !self.acc.machinery_errors.is_empty() {
            for e in self.acc.machinery_errors.iter().take(10) {
                eprintln!("MACHINERY-ERROR: {e}");
            }
            return 3;
        }
        if !self.new_violations.is_empty() {
            return 1;
        }
        0
    }
}

/// depth-first enumeration of all enabled extensions of `path` up to `depth`; `leaf` returns
/// false to stop
fn dfs(
    scn: &dyn Scenario,
    n: usize,
    depth: usize,
    path: &mut Vec<usize>,
    leaf: &mut dyn FnMut(&[usize]) -> bool,
) -> bool {
    if path.len() >= depth {
        return leaf(path);
    }
    let mut any = false;
    for e in 0..n {
        if !scn.enabled(path, e) {
            continue;
        }
        any = true;
        path.push(e);
        let cont = dfs(scn, n, depth, path, leaf);
        path.pop();
        if !cont {
            return false;
        }
    }
    if !any {
        // dead end shorter than depth: still a maximal history
        return leaf(path);
    }
    true
}

/// replay support: read a replay file and return (kind, scenario/space name, path/index)
pub fn read_replay(file: &str) -> (String, String, Vec<usize>) {
    let text = std::fs::read_to_string(file).expect("read replay file");
    let v: Value = serde_json::from_str(&text).expect("replay JSON");
    // the kernel seed the history was found under
    crate::kernel::SEED_OFFSET.store(v["kseed"].as_u64().unwrap_or(0), Ordering::SeqCst);
    let kind = v["kind"].as_str().unwrap_or("scenario").to_string();
    if kind == "case" {
        (
            kind,
            v["space"].as_str().unwrap_or("").to_string(),
            vec![v["index"].as_u64().unwrap_or(0) as usize],
        )
    } else {
        (
            kind,
            v["scenario"].as_str().unwrap_or("").to_string(),
            v["path"].as_array().map(|a| a.iter().map(|x| x.as_u64().unwrap() as usize).collect()).unwrap_or_default(),
        )
    }
}
