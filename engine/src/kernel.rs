//! Simulation kernel: owns every source of nondeterminism (DESIGN §2.2).
//!
//! * tasks are never spawned: each actor is a boxed future polled by hand with a flag-waker
//! * time: current-thread runtime with a paused clock, moved only by `advance_to` / `tick`
//! * panics inside a poll are caught and recorded

use std::cell::RefCell;
use std::future::Future;
use std::panic::{catch_unwind, AssertUnwindSafe};
use std::pin::Pin;
use std::sync::atomic::{AtomicBool, AtomicU64, Ordering};

/// added to every kernel seed (set by the explorer / by a replay)
pub static SEED_OFFSET: AtomicU64 = AtomicU64::new(0);
use std::sync::{Arc, Once};
use std::task::{Context, Poll, Wake, Waker};
use std::time::Duration;

use tokio::runtime::Runtime;
use tokio::sync::Notify;
use tokio::time::Instant;

pub type BoxFut = Pin<Box<dyn Future<Output = ()>>>;

thread_local! {
    static LAST_PANIC: RefCell<Option<String>> = const { RefCell::new(None) };
}

static HOOK: Once = Once::new();

/// install a process-wide panic hook that records message+location in a thread local
/// (and stays silent) for threads that opted in through `capture_panics`
pub fn install_panic_hook() {
    HOOK.call_once(|| {
        let default = std::panic::take_hook();
        std::panic::set_hook(Box::new(move |info| {
            let msg = if let Some(s) = info.payload().downcast_ref::<&str>() {
                s.to_string()
            } else if let Some(s) = info.payload().downcast_ref::<String>() {
                s.clone()
            } else {
                "<non-string panic>".to_string()
            };
            let loc = info
                .location()
                .map(|l| format!("{}:{}", l.file(), l.line()))
                .unwrap_or_else(|| "<unknown>".to_string());
            let captured = CAPTURE.with(|c| *c.borrow());
            if captured {
                LAST_PANIC.with(|p| *p.borrow_mut() = Some(format!("{msg} @ {loc}")));
            } else {
                default(info);
            }
        }));
    });
}

thread_local! {
    static CAPTURE: RefCell<bool> = const { RefCell::new(false) };
}

/// run `f`, catching panics; Err(message @ file:line) on panic
pub fn guarded<R>(f: impl FnOnce() -> R) -> Result<R, String> {
    install_panic_hook();
    let prev = CAPTURE.with(|c| std::mem::replace(&mut *c.borrow_mut(), true));
    let r = catch_unwind(AssertUnwindSafe(f));
    CAPTURE.with(|c| *c.borrow_mut() = prev);
    match r {
        Ok(v) => Ok(v),
        Err(_) => Err(LAST_PANIC
            .with(|p| p.borrow_mut().take())
            .unwrap_or_else(|| "<panic without message>".to_string())),
    }
}

struct WakeFlag {
    flag: AtomicBool,
    notify: Arc<Notify>,
}

impl Wake for WakeFlag {
    fn wake(self: Arc<Self>) {
        self.flag.store(true, Ordering::SeqCst);
        self.notify.notify_one();
    }
    fn wake_by_ref(self: &Arc<Self>) {
        self.flag.store(true, Ordering::SeqCst);
        self.notify.notify_one();
    }
}

struct Actor {
    name: String,
    fut: Option<BoxFut>,
    wf: Arc<WakeFlag>,
    waker: Waker,
    polls: u64,
}

pub const DEFAULT_POLL_CAP: u64 = 10_000;

pub struct Kernel {
    actors: Vec<Actor>,
    notify: Arc<Notify>,
    t0: Instant,
    /// first panic observed in any actor
    pub panic: Option<String>,
    /// poll cap hit during a settle (livelock / busy loop)
    pub livelock: bool,
    pub poll_cap: u64,
    pub total_polls: u64,
    /// names of actors whose future completed
    pub completed: Vec<String>,
    rt: Runtime,
}

impl Kernel {
    pub fn new(seed: u64) -> Self {
        // the explorer repeats stateful explorations under several seeds (thorough tiers): the
        // seed decides which of several simultaneously ready `select!` branches is taken
        let seed = seed.wrapping_add(SEED_OFFSET.load(Ordering::SeqCst).wrapping_mul(0x9E37_79B9));
        let rt = tokio::runtime::Builder::new_current_thread()
            .enable_time()
            .start_paused(true)
            .rng_seed(tokio::runtime::RngSeed::from_bytes(&seed.to_le_bytes()))
            .build()
            .expect("runtime");
        let t0 = {
            let _g = rt.enter();
            Instant::now()
        };
        Self {
            actors: Vec::new(),
            notify: Arc::new(Notify::new()),
            t0,
            panic: None,
            livelock: false,
            poll_cap: DEFAULT_POLL_CAP,
            total_polls: 0,
            completed: Vec::new(),
            rt,
        }
    }

    /// run a closure inside the runtime context (needed for anything that reads the clock)
    pub fn enter<R>(&self, f: impl FnOnce() -> R) -> R {
        let _g = self.rt.enter();
        f()
    }

    pub fn now_ms(&self) -> u64 {
        let _g = self.rt.enter();
        (Instant::now() - self.t0).as_millis() as u64
    }

    /// add an actor; it is polled at the next settle
    pub fn spawn(&mut self, name: &str, fut: BoxFut) -> usize {
        let wf = Arc::new(WakeFlag {
            flag: AtomicBool::new(true),
            notify: self.notify.clone(),
        });
        let waker = Waker::from(wf.clone());
        self.actors.push(Actor {
            name: name.to_string(),
            fut: Some(fut),
            wf,
            waker,
            polls: 0,
        });
        self.actors.len() - 1
    }

    pub fn is_done(&self, id: usize) -> bool {
        self.actors[id].fut.is_none()
    }

    pub fn polls_of(&self, id: usize) -> u64 {
        self.actors[id].polls
    }

    pub fn is_flagged(&self, id: usize) -> bool {
        self.actors[id].wf.flag.load(Ordering::SeqCst)
    }

    fn any_flagged(&self) -> bool {
        self.actors
            .iter()
            .any(|a| a.fut.is_some() && a.wf.flag.load(Ordering::SeqCst))
    }

    /// poll every flagged actor (in fixed order) until none is flagged; returns number of polls
    pub fn settle(&mut self) -> u64 {
        // Poll inside `block_on` (not merely `enter`): only entering the runtime this way installs
        // the runtime's seeded random number generator, which `tokio::select!` uses to pick among
        // branches that are ready at the same time.  Under a bare `enter` the choice came from a
        // randomly seeded thread-local generator and replays could diverge.
        let h = self.rt.handle().clone();
        h.block_on(async { self.settle_inner() })
    }

    fn settle_inner(&mut self) -> u64 {
        let mut polls = 0u64;
        loop {
            let mut progressed = false;
            for i in 0..self.actors.len() {
                let a = &mut self.actors[i];
                if a.fut.is_none() {
                    continue;
                }
                if !a.wf.flag.swap(false, Ordering::SeqCst) {
                    continue;
                }
                progressed = true;
                polls += 1;
                a.polls += 1;
                let waker = a.waker.clone();
                let mut cx = Context::from_waker(&waker);
                let fut = a.fut.as_mut().unwrap();
                match guarded(|| fut.as_mut().poll(&mut cx)) {
                    Ok(Poll::Pending) => {}
                    Ok(Poll::Ready(())) => {
                        self.completed.push(a.name.clone());
                        a.fut = None;
                    }
                    Err(msg) => {
                        if self.panic.is_none() {
                            self.panic = Some(format!("{}: {}", a.name, msg));
                        }
                        // the future is poisoned: leak it rather than run destructors on
                        // half-updated state
                        if let Some(f) = a.fut.take() {
                            std::mem::forget(f);
                        }
                    }
                }
                if polls >= self.poll_cap {
                    self.livelock = true;
                    self.total_polls += polls;
                    return polls;
                }
            }
            if !progressed {
                break;
            }
        }
        self.total_polls += polls;
        polls
    }

    /// Park until an actor is woken by a timer, at most `limit` of virtual time.
    /// With the paused clock this jumps exactly to the earliest registered timer.
    /// Returns true if an actor was woken (clock is at that timer), false if `limit` elapsed.
    pub fn tick(&mut self, limit: Duration) -> bool {
        if self.any_flagged() {
            return true;
        }
        let deadline = {
            let _g = self.rt.enter();
            Instant::now() + limit
        };
        loop {
            let notify = self.notify.clone();
            let woke = self.rt.block_on(async move {
                tokio::select! {
                    biased;
                    _ = notify.notified() => true,
                    _ = tokio::time::sleep_until(deadline) => false,
                }
            });
            if !woke {
                return false;
            }
            if self.any_flagged() {
                return true;
            }
            // stale permit from an earlier wake: go around again
        }
    }

    /// advance the virtual clock to t0 + `target_ms`, processing every timer at its own
    /// instant (settling in between). `after` is called after every settle.
    pub fn advance_to(&mut self, target_ms: u64, mut after: impl FnMut(&mut Kernel)) {
        loop {
            let now = self.now_ms();
            if now >= target_ms {
                break;
            }
            let woke = self.tick(Duration::from_millis(target_ms - now));
            if woke {
                self.settle();
                after(self);
                if self.livelock || self.panic.is_some() {
                    return;
                }
            } else {
                break;
            }
        }
        self.settle();
        after(self);
    }

    pub fn advance(&mut self, ms: u64, after: impl FnMut(&mut Kernel)) {
        let t = self.now_ms() + ms;
        self.advance_to(t, after)
    }
}

impl Drop for Kernel {
    fn drop(&mut self) {
        // drop actors inside the runtime context, swallowing panics from poisoned state
        let _g = self.rt.enter();
        for a in self.actors.drain(..) {
            if let Some(f) = a.fut {
                if guarded(move || drop(f)).is_err() {
                    // ignore
                }
            }
        }
    }
}
