//! A tracing subscriber that formats every event and span field into a thread-local sink, so
//! that the library's decode-level `Display` code really runs (tracing does not evaluate
//! format arguments when no subscriber is interested).

use std::cell::RefCell;
use std::fmt::Write;

use tracing::field::{Field, Visit};
use tracing::span::{Attributes, Id, Record};
use tracing::{Event, Metadata, Subscriber};

thread_local! {
    static SINK: RefCell<String> = const { RefCell::new(String::new()) };
    static BYTES: RefCell<u64> = const { RefCell::new(0) };
}

struct V;

impl Visit for V {
    fn record_debug(&mut self, _field: &Field, value: &dyn std::fmt::Debug) {
        SINK.with(|s| {
            let mut s = s.borrow_mut();
            s.clear();
            let _ = write!(s, "{value:?}");
            let n = s.len() as u64;
            BYTES.with(|b| *b.borrow_mut() += n);
        });
    }
}

struct FormatEverything;

impl Subscriber for FormatEverything {
    fn enabled(&self, _metadata: &Metadata<'_>) -> bool {
        true
    }
    fn new_span(&self, span: &Attributes<'_>) -> Id {
        span.record(&mut V);
        Id::from_u64(1)
    }
    fn record(&self, _span: &Id, values: &Record<'_>) {
        values.record(&mut V);
    }
    fn record_follows_from(&self, _span: &Id, _follows: &Id) {}
    fn event(&self, event: &Event<'_>) {
        event.record(&mut V);
    }
    fn enter(&self, _span: &Id) {}
    fn exit(&self, _span: &Id) {}
}

pub fn install() {
    let _ = tracing::subscriber::set_global_default(FormatEverything);
}

/// bytes of log text formatted on this thread so far
pub fn formatted_bytes() -> u64 {
    BYTES.with(|b| *b.borrow())
}
