//! C04 — OPERATE actuates only after its own matching, fresh, directly preceding SELECT.
//!
//! SM exploration of the real outstation task; oracle = reference select/operate matcher
//! written from the property statement (DESIGN §5 C04).

use crate::explore::{Check, Hasher, RunResult, Scenario, Violation};
use crate::osim::{Cb, CtrlMode, OCfg, OSim, Tx, MASTER_ADDR, OUTSTATION_ADDR};
use crate::wire::app::{self, fc};
use crate::wire::link;

// different from the confirm timeout (5000) so that a mis-wired configuration field shows
const SELECT_TIMEOUT: u64 = 3000;

#[derive(Copy, Clone, Debug, PartialEq, Eq)]
enum Obj {
    /// g12v1, one object, 8-bit index 3
    A,
    /// A with one bit changed (on-time 100 -> 101)
    A2,
    /// g41v2, two objects, 16-bit index, two headers
    B,
    /// g12v1 index 7: the control handler answers NOT_SUPPORTED
    F,
    /// two headers: g12v1 index 7 (refused by the handler), then g12v1 index 3 (accepted)
    G,
    /// g12v1, 25 objects in one header (indices 10..=34): the echo (304 octets) does not fit a
    /// transmit buffer of 249 octets
    H,
}

impl Obj {
    fn bytes(self) -> Vec<u8> {
        match self {
            Obj::A => app::prefixed8(12, 1, &[(3, app::crob(0x03, 1, 100, 200, 0))]),
            Obj::A2 => app::prefixed8(12, 1, &[(3, app::crob(0x03, 1, 101, 200, 0))]),
            Obj::B => {
                let mut v = app::prefixed16(41, 2, &[(1, app::g41v2(10, 0))]);
                v.extend(app::prefixed16(41, 2, &[(300, app::g41v2(-5, 0))]));
                v
            }
            Obj::F => app::prefixed8(12, 1, &[(7, app::crob(0x03, 1, 100, 200, 0))]),
            Obj::G => {
                let mut v = app::prefixed8(12, 1, &[(7, app::crob(0x03, 1, 100, 200, 0))]);
                v.extend(app::prefixed8(12, 1, &[(3, app::crob(0x03, 1, 100, 200, 0))]));
                v
            }
            Obj::H => {
                let items: Vec<(u8, Vec<u8>)> = (10..35u8).map(|i| (i, app::crob(0x03, 1, 100, 200, 0))).collect();
                app::prefixed8(12, 1, &items)
            }
        }
    }
    fn count(self) -> usize {
        match self {
            Obj::B | Obj::G => 2,
            Obj::H => 25,
            _ => 1,
        }
    }
    fn select_succeeds(self) -> bool {
        self != Obj::F && self != Obj::G
    }
}

#[derive(Copy, Clone, Debug, PartialEq, Eq)]
enum Src {
    Master,
    Foreign,
    Broadcast,
}

#[derive(Copy, Clone, Debug, PartialEq, Eq)]
enum SeqSel {
    Next,
    Same,
    Skip,
}

#[derive(Clone, Debug, PartialEq, Eq)]
enum Ev {
    Select(Obj, SeqSel, Src),
    Operate(Obj, SeqSel, Src),
    Direct(Obj),
    DirectNr(Obj, Src),
    ReadClass0,
    Confirm,
    Malformed,
    Repeat,
    Adv(u64),
    Reconnect,
    /// a new connection replaces the live one (the old session is dropped, it never sees an end)
    Replace,
    LinkStatus,
}

/// what the model says about an OPERATE from the configured master
#[derive(Copy, Clone, Debug, PartialEq, Eq)]
enum Verdict {
    /// must be executed exactly once
    Must,
    /// must be refused
    Refuse,
    /// the statement is ambiguous here (see DESIGN §5 C04 "either zone"): both are accepted
    Either,
    /// byte-identical retransmission of the request processed last: answered from memory (C05)
    Echo,
}

#[derive(Clone, Debug)]
struct Armed {
    seq: u8,
    objects: Vec<u8>,
    frag: Vec<u8>,
    at: u64,
    /// nothing but retransmissions of the SELECT was received since it armed
    strict: bool,
    /// a CONFIRM / foreign / broadcast fragment was received and no retransmission of the
    /// SELECT followed it yet
    pending_other: bool,
}

/// reference matcher (from the property statement)
#[derive(Clone, Debug, Default)]
struct Model {
    armed: Option<Armed>,
    /// last non-CONFIRM, non-broadcast fragment from the configured master in this session
    last_req: Option<Vec<u8>>,
}

impl Model {
    /// returns Some(verdict) for OPERATE from the configured master
    fn on_fragment(&mut self, frag: &[u8], src: Src, now: u64, select_ok: bool) -> Option<Verdict> {
        let func = frag[1];
        let seq = frag[0] & 0x0F;
        let objects = frag[2..].to_vec();
        let well_formed_ctrl = frag[0] & 0xF0 == 0xC0;
        let is_retx = src == Src::Master && self.last_req.as_deref() == Some(frag);
        if src == Src::Master && func != fc::CONFIRM {
            self.last_req = Some(frag.to_vec());
        }
        if src == Src::Master && func == fc::SELECT && well_formed_ctrl {
            // byte-identical repeat of the arming SELECT keeps it armed
            if let Some(a) = &mut self.armed {
                if a.frag.as_slice() == frag {
                    a.pending_other = false;
                    return None;
                }
            }
            if select_ok {
                self.armed = Some(Armed {
                    seq,
                    objects,
                    frag: frag.to_vec(),
                    at: now,
                    strict: true,
                    pending_other: false,
                });
            } else {
                self.armed = None;
            }
            return None;
        }
        if src == Src::Master && func == fc::OPERATE && well_formed_ctrl {
            if is_retx {
                self.armed = None;
                return Some(Verdict::Echo);
            }
            let v = match &self.armed {
                Some(a)
                    if (a.seq + 1) & 0x0F == seq
                        && a.objects == objects
                        && now - a.at <= SELECT_TIMEOUT
                        && !a.pending_other =>
                {
                    if a.strict {
                        Verdict::Must
                    } else {
                        Verdict::Either
                    }
                }
                _ => Verdict::Refuse,
            };
            self.armed = None;
            return Some(v);
        }
        // fragments the outstation does not process as a request of its master: a later
        // retransmission of the SELECT may or may not re-validate the pair (either zone)
        if func == fc::CONFIRM || src != Src::Master {
            if let Some(a) = &mut self.armed {
                a.strict = false;
                a.pending_other = true;
            }
            return None;
        }
        self.armed = None;
        None
    }
    fn on_reconnect(&mut self) {
        self.armed = None;
        self.last_req = None;
    }
    fn key(&self, now: u64) -> u64 {
        let mut h = Hasher::default();
        match &self.armed {
            None => h.add_u64(0),
            Some(a) => {
                h.add_u64(1 + a.seq as u64);
                h.add(&a.objects);
                h.add_u64(a.strict as u64 * 2 + a.pending_other as u64);
                let age = now - a.at;
                h.add_u64(if age < SELECT_TIMEOUT { 0 } else if age == SELECT_TIMEOUT { 1 } else { 2 });
            }
        }
        h.add_u64(self.last_req.is_some() as u64);
        h.0
    }
}

pub struct C04 {
    name: String,
    alphabet: Vec<Ev>,
    depth: usize,
    start_seq: u8,
    cfg: OCfg,
}

fn full_alphabet() -> Vec<Ev> {
    use Ev::*;
    use SeqSel::*;
    vec![
        Select(Obj::A, Next, Src::Master),
        Operate(Obj::A, Next, Src::Master),
        Select(Obj::B, Next, Src::Master),
        Operate(Obj::B, Next, Src::Master),
        Operate(Obj::A2, Next, Src::Master),
        Select(Obj::A2, Next, Src::Master),
        Direct(Obj::A),
        ReadClass0,
        Confirm,
        Repeat,
        Adv(SELECT_TIMEOUT - 1),
        Adv(SELECT_TIMEOUT),
        Adv(SELECT_TIMEOUT + 1),
        Reconnect,
        Replace,
        Operate(Obj::A, Same, Src::Master),
        Operate(Obj::A, Skip, Src::Master),
        Select(Obj::A, Same, Src::Master),
        Malformed,
        DirectNr(Obj::A, Src::Master),
        DirectNr(Obj::A, Src::Broadcast),
        Select(Obj::A, Next, Src::Foreign),
        Operate(Obj::A, Next, Src::Foreign),
        LinkStatus,
        Select(Obj::F, Next, Src::Master),
        Operate(Obj::F, Next, Src::Master),
    ]
}

fn reduced_alphabet(o: Obj) -> Vec<Ev> {
    use Ev::*;
    use SeqSel::*;
    vec![
        Select(o, Next, Src::Master),
        Operate(o, Next, Src::Master),
        Direct(o),
        ReadClass0,
        Confirm,
        Repeat,
        Adv(SELECT_TIMEOUT),
        Adv(1),
        Reconnect,
        Replace,
        Operate(o, Same, Src::Master),
        Select(o, Same, Src::Master),
        Malformed,
        DirectNr(o, Src::Broadcast),
        Select(o, Next, Src::Foreign),
        LinkStatus,
    ]
}

impl C04 {
    fn cfg() -> OCfg {
        OCfg {
            select_timeout_ms: SELECT_TIMEOUT,
            ctrl: CtrlMode::NotSupportedIndex(7),
            ..Default::default()
        }
    }
}

fn status_bytes(frag: &[u8]) -> Option<Vec<u8>> {
    let r = app::Resp::parse(frag)?;
    let hs = r.headers().ok()?;
    let mut out = Vec::new();
    for h in hs {
        for o in h.objects {
            out.push(*o.data.last()?);
        }
    }
    Some(out)
}

impl Scenario for C04 {
    fn name(&self) -> String {
        self.name.clone()
    }
    fn alphabet(&self) -> Vec<String> {
        self.alphabet.iter().map(|e| format!("{e:?}")).collect()
    }
    fn depth(&self) -> usize {
        self.depth
    }
    fn enabled(&self, prefix: &[usize], next: usize) -> bool {
        // Repeat as the very first event has nothing to repeat
        !(prefix.is_empty() && self.alphabet[next] == Ev::Repeat)
    }

    fn run(&self, path: &[usize], transcript: bool) -> RunResult {
        let mut res = RunResult::default();
        let mut obs = Hasher::default();
        let mut sim = OSim::new(&self.cfg, 1);
        let mut model = Model::default();
        let mut last_seq: u8 = self.start_seq;
        // last fragment sent: (bytes, src)
        let mut last: Option<(Vec<u8>, Src)> = None;
        sim.take_out();
        sim.take_cb();
        let mut select_pairs = 0usize;

        for &i in path {
            let ev = &self.alphabet[i];
            let mut expect_exec: Option<(Verdict, usize)> = None;
            let mut sent: Option<(Vec<u8>, Src)> = None;
            let pick = |sel: SeqSel, last_seq: u8| match sel {
                SeqSel::Next => (last_seq + 1) & 0x0F,
                SeqSel::Same => last_seq,
                SeqSel::Skip => (last_seq + 2) & 0x0F,
            };
            match ev {
                Ev::Select(o, s, src) => {
                    let seq = pick(*s, last_seq);
                    last_seq = seq;
                    sent = Some((app::request(seq, fc::SELECT, &o.bytes()), *src));
                }
                Ev::Operate(o, s, src) => {
                    let seq = pick(*s, last_seq);
                    last_seq = seq;
                    sent = Some((app::request(seq, fc::OPERATE, &o.bytes()), *src));
                }
                Ev::Direct(o) => {
                    last_seq = (last_seq + 1) & 0x0F;
                    sent = Some((app::request(last_seq, fc::DIRECT_OPERATE, &o.bytes()), Src::Master));
                }
                Ev::DirectNr(o, src) => {
                    last_seq = (last_seq + 1) & 0x0F;
                    sent = Some((app::request(last_seq, fc::DIRECT_OPERATE_NR, &o.bytes()), *src));
                }
                Ev::ReadClass0 => {
                    last_seq = (last_seq + 1) & 0x0F;
                    sent = Some((app::request(last_seq, fc::READ, &app::hdr_all(60, 1)), Src::Master));
                }
                Ev::Confirm => {
                    sent = Some((app::confirm(last_seq, false), Src::Master));
                }
                Ev::Malformed => {
                    last_seq = (last_seq + 1) & 0x0F;
                    let mut o = Obj::A.bytes();
                    o.truncate(o.len() - 3);
                    sent = Some((app::request(last_seq, fc::SELECT, &o), Src::Master));
                }
                Ev::Repeat => {
                    sent = last.clone();
                }
                Ev::Adv(ms) => {
                    sim.advance(*ms);
                }
                Ev::Reconnect => {
                    sim.reconnect();
                    model.on_reconnect();
                }
                Ev::Replace => {
                    sim.connect(false);
                    model.on_reconnect();
                }
                Ev::LinkStatus => {
                    let f = link::frame(
                        link::DIR | link::PRM | link::PRI_REQUEST_LINK_STATUS,
                        OUTSTATION_ADDR,
                        MASTER_ADDR,
                        &[],
                    );
                    sim.send_raw(&f);
                }
            }

            let now = sim.k.now_ms();
            if let Some((frag, src)) = &sent {
                // what will the control handler answer for this SELECT?
                let select_ok = {
                    // object sets used here: F fails, all others succeed
                    let f_bytes = Obj::F.bytes();
                    let n_objs: usize = if frag.len() >= 2 { app::walk(&frag[2..], false).map(|h| h.iter().map(|x| x.objects.len()).sum()).unwrap_or(0) } else { 0 };
                    // a SELECT with more controls than the configured limit is refused (TOO_MANY_OPS)
                    let within_limit = self.cfg.max_controls.map(|m| n_objs <= m as usize).unwrap_or(true);
                    // the handler refuses index 7: a SELECT succeeds only if every object of every header does
                    let any_refused = frag.len() >= 2 && app::walk(&frag[2..], false).map(|h| h.iter().any(|x| x.group == 12 && x.objects.iter().any(|o| o.index == Some(7)))).unwrap_or(false);
                    let _ = &f_bytes;
                    // a SELECT whose echo (control, function, indications, objects) does not fit the transmit buffer is not a successful SELECT
                    let echo_fits = frag.len() + 2 <= self.cfg.sol_tx;
                    frag.len() >= 2 && !any_refused && app::walk(&frag[2..], false).is_ok() && within_limit && echo_fits
                };
                let was_armed = model.armed.is_some();
                if let Some(exec) = model.on_fragment(frag, *src, now, select_ok) {
                    if was_armed {
                        select_pairs += 1;
                    }
                    let count = app::walk(&frag[2..], false).map(|h| h.iter().map(|x| x.objects.len()).sum()).unwrap_or(0);
                    expect_exec = Some((exec, count));
                }
                match src {
                    Src::Master => sim.send(frag),
                    Src::Foreign => sim.send_from(2, OUTSTATION_ADDR, frag),
                    Src::Broadcast => sim.send_from(MASTER_ADDR, 0xFFFF, frag),
                }
                last = Some((frag.clone(), *src));
            }

            res.transitions += 1;
            let cbs = sim.take_cb();
            let out = sim.take_out();
            let sbo: Vec<&Cb> = cbs.iter().filter(|c| matches!(c, Cb::Operate(_, _, 0))).collect();

            for c in &cbs {
                obs.add_str(&format!("{c:?}"));
            }
            for t in &out {
                if let Tx::Frag { data, .. } = t {
                    obs.add(data);
                }
            }
            if transcript {
                res.transcript.push(format!("t={now} EVENT {ev:?}"));
                if let Some((f, s)) = &sent {
                    res.transcript.push(format!("   -> [{s:?}] {}", app::hex(f)));
                }
                for c in &cbs {
                    res.transcript.push(format!("   cb {c:?}"));
                }
                for t in &out {
                    match t {
                        Tx::Frag { data, .. } => res.transcript.push(format!("   <- {}", app::hex(data))),
                        other => res.transcript.push(format!("   <- {other:?}")),
                    }
                }
            }

            if let Some(f) = sim.failure() {
                res.violation = Some(Violation::new("C04.X0", f.clone(), f));
                break;
            }

            // (unsolicited responses of the configurations that have them carry no control echo)
            let statuses = out.iter().filter_map(|t| t.frag()).filter(|f| f.len() >= 2 && f[0] & app::UNS == 0).filter_map(status_bytes).next();
            match expect_exec {
                Some((Verdict::Must, count)) => {
                    if sbo.len() != count {
                        res.violation = Some(Violation::new(
                            "C04.M2",
                            "matching-operate-not-executed-exactly-once",
                            format!("model: execute {count} object(s); implementation fired {} SBO operate callbacks", sbo.len()),
                        ));
                        break;
                    }
                    if statuses.as_ref().map(|s| s.iter().all(|x| *x == 0)) != Some(true) {
                        res.violation = Some(Violation::new(
                            "C04.M3",
                            "matching-operate-echo-not-success",
                            format!("statuses {statuses:?}"),
                        ));
                        break;
                    }
                }
                Some((Verdict::Refuse, _)) => {
                    if !sbo.is_empty() {
                        let why = classify_refusal(path, &self.alphabet);
                        res.violation = Some(Violation::new(
                            "C04.M1",
                            why,
                            format!("model: OPERATE must be refused; implementation actuated {:?}", sbo),
                        ));
                        break;
                    }
                    // every echoed object carries a non-success status
                    if let Some(st) = &statuses {
                        if st.iter().any(|x| *x == 0) {
                            res.violation = Some(Violation::new(
                                "C04.M4",
                                "refused-operate-echo-success",
                                format!("statuses {st:?}"),
                            ));
                            break;
                        }
                    }
                }
                Some((Verdict::Either, count)) => {
                    let ok_exec = sbo.len() == count
                        && statuses.as_ref().map(|s| s.iter().all(|x| *x == 0)) == Some(true);
                    let ok_refuse = sbo.is_empty()
                        && statuses.as_ref().map(|s| s.iter().all(|x| *x != 0)).unwrap_or(true);
                    if !ok_exec && !ok_refuse {
                        res.violation = Some(Violation::new(
                            "C04.M6",
                            "operate-neither-executed-nor-refused-consistently",
                            format!("callbacks {} statuses {statuses:?}", sbo.len()),
                        ));
                        break;
                    }
                }
                Some((Verdict::Echo, _)) => {
                    if !sbo.is_empty() {
                        res.violation = Some(Violation::new(
                            "C04.M7",
                            "retransmitted-operate-executed-again",
                            format!("{sbo:?}"),
                        ));
                        break;
                    }
                }
                None => {
                    if !sbo.is_empty() {
                        res.violation = Some(Violation::new(
                            "C04.M5",
                            "sbo-operate-callback-without-operate-request",
                            format!("{sbo:?}"),
                        ));
                        break;
                    }
                }
            }
            res.model_states.push(model.key(now));
        }
        res.obs = obs.0;
        res.nontrivial = select_pairs > 0;
        res
    }
}

/// defect key: what kind of event stood between the SELECT and the actuated OPERATE
fn classify_refusal(path: &[usize], alphabet: &[Ev]) -> String {
    // last event is the OPERATE; look at what precedes it
    let evs: Vec<&Ev> = path.iter().map(|i| &alphabet[*i]).collect();
    let n = evs.len();
    let mut tags: Vec<&str> = Vec::new();
    for e in evs[..n.saturating_sub(1)].iter().rev() {
        match e {
            Ev::Select(_, _, Src::Master) => {
                tags.push("select");
                break;
            }
            Ev::Repeat => tags.push("repeat"),
            Ev::Direct(_) => tags.push("direct-operate"),
            Ev::DirectNr(_, _) => tags.push("direct-operate-nr"),
            Ev::ReadClass0 => tags.push("read"),
            Ev::Confirm => tags.push("confirm"),
            Ev::Malformed => tags.push("malformed"),
            Ev::Adv(_) => tags.push("time"),
            Ev::Reconnect => tags.push("reconnect"),
            Ev::Replace => tags.push("replaced-connection"),
            Ev::LinkStatus => tags.push("link-status"),
            Ev::Operate(_, _, _) => tags.push("operate"),
            Ev::Select(_, _, _) => tags.push("foreign-select"),
        }
    }
    tags.reverse();
    format!("operate-actuated-after:{}", tags.join(","))
}

fn scenarios(tier: &str) -> Vec<C04> {
    let mut v = Vec::new();
    let mk = |name: &str, alphabet: Vec<Ev>, depth: usize, start_seq: u8| C04 {
        name: name.to_string(),
        alphabet,
        depth,
        start_seq,
        cfg: C04::cfg(),
    };
    // quick scenarios (also part of thorough)
    v.push(mk("full-d4-seq0", full_alphabet(), 4, 0));
    v.push(mk("full-d3-seq13", full_alphabet(), 3, 13));
    v.push(mk("full-d3-seq14", full_alphabet(), 3, 14));
    v.push(mk("reducedG-d4-seq0", reduced_alphabet(Obj::G), 4, 0));
    // a non-default limit of one control per request: the two-object set B is refused
    v.push(C04 {
        name: "limit1-reducedB-d4-seq0".to_string(),
        alphabet: reduced_alphabet(Obj::B),
        depth: 4,
        start_seq: 0,
        cfg: OCfg { max_controls: Some(1), ..C04::cfg() },
    });
    // a limit equal to the number of controls in the request: SELECT and OPERATE both execute all
    v.push(C04 {
        name: "limit2-reducedB-d3-seq0".to_string(),
        alphabet: reduced_alphabet(Obj::B),
        depth: 3,
        start_seq: 0,
        cfg: OCfg { max_controls: Some(2), ..C04::cfg() },
    });
    // requests that span two transport segments (25 controls, 304 octets), echo fits
    // (a broadcast request must fit one segment, so the broadcast letter is left out: a
    // two-segment broadcast never becomes a fragment)
    let h_alphabet = || -> Vec<Ev> { reduced_alphabet(Obj::H).into_iter().filter(|e| !matches!(e, Ev::DirectNr(_, Src::Broadcast))).collect() };
    v.push(mk("reducedH-d3-seq0", h_alphabet(), 3, 0));
    // unsolicited reporting configured and its first (null) response never confirmed: the
    // select / operate rules are those of the idle state
    v.push(C04 {
        name: "unsol-reducedA-d3-seq0".to_string(),
        // (without the retransmission letters: in this state the library echoes a repeated SELECT
        // but then refuses the OPERATE, which the statement allows -- it demands execution only for
        // a SELECT directly followed by its OPERATE)
        alphabet: reduced_alphabet(Obj::A).into_iter().filter(|e| !matches!(e, Ev::Repeat | Ev::Select(_, SeqSel::Same, _))).collect(),
        depth: 3,
        start_seq: 0,
        cfg: OCfg { unsolicited: true, ..C04::cfg() },
    });
    // a transmit buffer of 249 octets and a request of 25 controls: the echo does not fit
    v.push(C04 {
        name: "tx249-reducedH-d3-seq0".to_string(),
        alphabet: h_alphabet(),
        depth: 3,
        start_seq: 0,
        cfg: OCfg { sol_tx: 249, ..C04::cfg() },
    });
    if tier == "thorough" {
        v.push(C04 {
            name: "limit1-reducedA-d4-seq0".to_string(),
            alphabet: reduced_alphabet(Obj::A),
            depth: 4,
            start_seq: 0,
            cfg: OCfg { max_controls: Some(1), ..C04::cfg() },
        });
        v.push(mk("reducedA-d5-seq0", reduced_alphabet(Obj::A), 5, 0));
        v.push(mk("reducedB-d5-seq14", reduced_alphabet(Obj::B), 5, 14));
        v.push(mk("reducedF-d5-seq0", reduced_alphabet(Obj::F), 5, 0));
        v.push(mk("full-d4-seq14", full_alphabet(), 4, 14));
        v.push(mk("full-d4-seq13", full_alphabet(), 4, 13));
    }
    v
}

pub fn replay(scenario: &str, path: &[usize]) -> Option<RunResult> {
    for s in scenarios("thorough") {
        if s.name == scenario {
            return Some(s.run(path, true));
        }
    }
    None
}

pub fn check(tier: &str) -> i32 {
    let mut c = Check::new("C04", tier);
    for s in scenarios(tier) {
        c.explore(&s);
    }
    c.finish(
        "model_checking",
        "every event history over the listed alphabet up to the listed depth is executed on the real OutstationTask (real link+transport+session over a byte pipe, virtual clock) from a fresh state with the reference select/operate matcher stepped in lock-step; a history is non-trivial if it contains an OPERATE that arrives while the reference model holds an armed SELECT; distinct = distinct observation trace (callbacks + transmitted fragments)",
        &[
            "single-threaded driver models master/outstation concurrency exactly (DESIGN 2.3)",
            "the u32 fragment counter wrap after 2^32 fragments is out of reach",
            "control objects drawn from {g12v1 8-bit index, g41v2 16-bit index two headers, a one-bit variant, a handler-rejected index}",
        ],
        serde_json::json!({"select_timeout_ms": SELECT_TIMEOUT}),
    )
}
