//! C19 — master scheduling: requests first and in order, polls on period, one at a time.
//!
//! SM exploration of the real MasterTask with 1..3 associations on one channel and a virtual
//! clock; oracle = scheduling monitor over the virtual timestamps of everything written, plus a
//! poll-count (busy-wait) bound (DESIGN §5 C19).

use std::time::Duration;

use dnp3::app::control::*;
use dnp3::app::{Timeout, Variation};
use dnp3::link::EndpointAddress;
use dnp3::master::*;

use super::common::ideal_reply;
use crate::explore::{Check, Hasher, RunResult, Scenario, Violation};
use crate::msim::{MCfg, MSim, MTx, MASTER_ADDR};
use crate::wire::app::{self, fc};
use crate::wire::link;

const RT: u64 = 1000;
const T: u64 = 2000;

fn addr(i: usize) -> u16 {
    1024 + i as u16
}

#[derive(Clone, Debug, PartialEq)]
enum Ev {
    Submit(usize),
    SubmitCmd(usize),
    /// a user request that is abandoned the moment it is started (time synchronisation while the
    /// application has no clock): it writes nothing and must not hold up the requests behind it
    SubmitDoomed(usize),
    /// add a poll with period k*T to association a
    AddPoll(usize, u64),
    Demand(usize),
    Respond,
    RespondLate,
    Never,
    AdvMinus1,
    AdvTo,
    /// half a keep-alive period passes, then association a's outstation sends an unsolicited
    /// response (empty): reception counts as link activity
    Unsolicited(usize),
    /// association a is removed from the channel and added again with the same address (run-time
    /// reconfiguration); only when nothing of it is pending
    ReAdd(usize),
    /// a poll whose period cannot be added to the clock (Duration::MAX): never due by itself,
    /// it runs only when demanded
    AddPollNever(usize),
    /// the oldest poll of association a that still exists is removed through its handle
    RemovePoll(usize),
}

#[derive(Clone, Debug, PartialEq)]
enum Work {
    User(u32),
    Poll(usize),
    LinkStatus,
}

#[derive(Clone, Debug)]
struct PollM {
    period: u64,
    due: u64,
    handle_idx: usize,
    /// removed polls keep their place (a poll is recognised on the wire by the group it reads)
    removed: bool,
}

#[derive(Clone, Debug, Default)]
struct AssocM {
    users: Vec<u32>,
    polls: Vec<PollM>,
    last_activity: u64,
}

#[derive(Clone, Debug)]
struct Outst {
    a: usize,
    work: Work,
    t: u64,
    raw: Vec<u8>,
}

pub struct C19 {
    n: usize,
    keep_alive: Option<u64>,
    depth: usize,
    alphabet: Vec<Ev>,
}

fn poll_groups() -> [u8; 4] {
    [30, 1, 20, 10]
}

fn build_alphabet(n: usize, keep_alive: bool) -> Vec<Ev> {
    let mut v = build_alphabet_inner(n);
    if keep_alive {
        v.push(Ev::Unsolicited(0));
    }
    if n >= 2 && !keep_alive {
        v.push(Ev::ReAdd(0));
    }
    if n == 1 {
        v.push(Ev::AddPollNever(0));
    }
    v
}

fn build_alphabet_inner(n: usize) -> Vec<Ev> {
    let mut v = vec![Ev::Respond, Ev::AdvTo, Ev::Submit(0), Ev::AddPoll(0, 1), Ev::Never, Ev::AdvMinus1, Ev::RespondLate, Ev::Demand(0), Ev::SubmitCmd(0), Ev::SubmitDoomed(0)];
    if n >= 2 {
        v.push(Ev::Submit(1));
        v.push(Ev::AddPoll(1, 2));
    }
    if n >= 3 {
        v.push(Ev::Submit(2));
        v.push(Ev::AddPoll(2, 3));
    }
    v
}

impl C19 {
    fn earliest_deadline(&self, m: &[AssocM]) -> Option<u64> {
        let mut best: Option<u64> = None;
        for a in m {
            for p in &a.polls {
                if p.due == u64::MAX {
                    continue; // never due by itself
                }
                best = Some(best.map_or(p.due, |b: u64| b.min(p.due)));
            }
            if let Some(k) = self.keep_alive {
                let d = a.last_activity + k;
                best = Some(best.map_or(d, |b: u64| b.min(d)));
            }
        }
        best
    }
}

impl Scenario for C19 {
    fn name(&self) -> String {
        format!("assoc{}-keepalive{:?}-d{}{}", self.n, self.keep_alive, self.depth, if self.alphabet.contains(&Ev::RemovePoll(0)) { "-polls" } else if self.alphabet.len() == 4 { "-readd" } else { "" })
    }
    fn alphabet(&self) -> Vec<String> {
        self.alphabet.iter().map(|e| format!("{e:?}")).collect()
    }
    fn depth(&self) -> usize {
        self.depth
    }
    fn run(&self, path: &[usize], transcript: bool) -> RunResult {
        let mut res = RunResult::default();
        let mut obs = Hasher::default();
        let mut sim = MSim::new(&MCfg::default(), 1);
        let mut handles: Vec<AssociationHandle> = Vec::new();
        let mut m: Vec<AssocM> = Vec::new();
        for i in 0..self.n {
            let mut c = AssociationConfig::quiet();
            c.response_timeout = Timeout::from_duration(Duration::from_millis(RT)).unwrap();
            c.keep_alive_timeout = self.keep_alive.map(Duration::from_millis);
            match sim.add_association(addr(i), c) {
                Some(h) => handles.push(h),
                None => {
                    res.violation = Some(Violation::new("C19.P0", "setup", "add_association".to_string()));
                    return res;
                }
            }
            m.push(AssocM { last_activity: 0, ..Default::default() });
        }
        let mut poll_handles: Vec<Vec<PollHandle>> = vec![Vec::new(); self.n];
        sim.take_out();
        sim.take_cb();
        let mut out: Option<Outst> = None;
        let mut uid: u32 = 0;
        let mut last_served: Option<(usize, u32)> = None; // (association, uid counter value when it was served)
        let mut writes = 0usize;
        // requests that vanish when started (no clock): they never constrain anything themselves
        let mut doomed: std::collections::HashSet<u32> = std::collections::HashSet::new();
        let mut uns_seq = 0u8;
        *sim.clock.base_ms.lock().unwrap() = None;

        for &i in path {
            let ev = &self.alphabet[i];
            let t_before = sim.k.now_ms();
            let polls_before = sim.master_polls();
            let mut expect_unwoken = false;
            match ev {
                Ev::Submit(a) => {
                    uid += 1;
                    let k = uid as u8;
                    let mut h = handles[*a].clone();
                    m[*a].users.push(uid);
                    sim.call("user", async move { h.read(ReadRequest::one_byte_range(Variation::Group40Var1, k, k)).await });
                }
                Ev::SubmitDoomed(a) => {
                    uid += 1;
                    let mut h = handles[*a].clone();
                    m[*a].users.push(uid);
                    doomed.insert(uid);
                    sim.call("user", async move { h.synchronize_time(TimeSyncProcedure::Lan).await });
                }
                Ev::SubmitCmd(a) => {
                    uid += 1;
                    let k = uid;
                    let mut h = handles[*a].clone();
                    m[*a].users.push(uid);
                    let cmd = Group12Var1::new(ControlCode::from_op_type(OpType::LatchOn), 1, k, 0);
                    sim.call("user", async move { h.operate(CommandMode::DirectOperate, CommandBuilder::single_header_u8(cmd, 1)).await });
                }
                Ev::AddPoll(a, k) => {
                    if m[*a].polls.iter().filter(|p| !p.removed).count() < 2 && m[*a].polls.len() < poll_groups().len() {
                        let g = poll_groups()[m[*a].polls.len()];
                        let var = match g {
                            30 => Variation::Group30Var0,
                            1 => Variation::Group1Var0,
                            20 => Variation::Group20Var0,
                            _ => Variation::Group10Var0,
                        };
                        let period = k * T;
                        let mut h = handles[*a].clone();
                        let r = sim.call_now("add_poll", async move { h.add_poll(ReadRequest::all_objects(var), Duration::from_millis(period)).await });
                        if let Some(Ok(ph)) = r {
                            poll_handles[*a].push(ph);
                            let idx = m[*a].polls.len();
                            m[*a].polls.push(PollM { period, due: t_before + period, handle_idx: idx, removed: false });
                        }
                    }
                }
                Ev::AddPollNever(a) => {
                    if m[*a].polls.is_empty() {
                        let mut h = handles[*a].clone();
                        let r = sim.call_now("add_poll", async move { h.add_poll(ReadRequest::all_objects(Variation::Group30Var0), Duration::MAX).await });
                        if let Some(Ok(ph)) = r {
                            poll_handles[*a].push(ph);
                            m[*a].polls.push(PollM { period: u64::MAX, due: u64::MAX, handle_idx: 0, removed: false });
                        }
                    }
                }
                Ev::Demand(a) => {
                    if let Some(i) = m[*a].polls.iter().position(|p| !p.removed) {
                        let mut ph = poll_handles[*a][i].clone();
                        sim.call_now("demand", async move { ph.demand().await });
                        m[*a].polls[i].due = t_before;
                    }
                }
                Ev::RemovePoll(a) => {
                    if let Some(i) = m[*a].polls.iter().position(|p| !p.removed) {
                        let ph = poll_handles[*a][i].clone();
                        sim.call_now("remove_poll", async move { ph.remove().await });
                        m[*a].polls[i].removed = true;
                        m[*a].polls[i].due = u64::MAX;
                        m[*a].polls[i].period = u64::MAX;
                    }
                }
                Ev::Respond | Ev::RespondLate => {
                    if *ev == Ev::RespondLate && out.is_some() {
                        let o = out.as_ref().unwrap();
                        let target = o.t + RT - 1;
                        if target > t_before {
                            sim.advance(target - t_before);
                        }
                    }
                    if let Some(o) = out.take() {
                        let now = sim.k.now_ms();
                        m[o.a].last_activity = now;
                        match &o.work {
                            Work::LinkStatus => {
                                let f = link::frame(link::SEC_LINK_STATUS, MASTER_ADDR, addr(o.a), &[]);
                                sim.send_raw(&f);
                            }
                            w => {
                                if let Work::Poll(p) = w {
                                    let per = m[o.a].polls[*p].period;
                                    if !m[o.a].polls[*p].removed {
                                        m[o.a].polls[*p].due = now.saturating_add(per);
                                    }
                                }
                                let r = ideal_reply(&o.raw, 0);
                                sim.respond_from(addr(o.a), &r);
                            }
                        }
                    }
                }
                Ev::Never => {
                    if let Some(o) = out.take() {
                        let deadline = o.t + RT;
                        if deadline > t_before {
                            sim.advance(deadline - t_before);
                        }
                        if let Work::Poll(p) = &o.work {
                            let per = m[o.a].polls[*p].period;
                            if !m[o.a].polls[*p].removed {
                                m[o.a].polls[*p].due = deadline.saturating_add(per);
                            }
                        }
                    }
                }
                Ev::ReAdd(a) => {
                    let busy = out.as_ref().map(|o| o.a == *a).unwrap_or(false) || !m[*a].users.is_empty();
                    if !busy {
                        let mut ch = sim.channel.clone();
                        let address = EndpointAddress::try_new(addr(*a)).unwrap();
                        let removed = sim.call_now("remove", async move { ch.remove_association(address).await });
                        if matches!(removed, Some(Ok(()))) {
                            let mut c = AssociationConfig::quiet();
                            c.response_timeout = Timeout::from_duration(Duration::from_millis(RT)).unwrap();
                            c.keep_alive_timeout = self.keep_alive.map(Duration::from_millis);
                            if let Some(h) = sim.add_association(addr(*a), c) {
                                handles[*a] = h;
                                poll_handles[*a].clear();
                                m[*a] = AssocM { last_activity: sim.k.now_ms(), ..Default::default() };
                                // the new association joins the ring behind the others: whoever is at the
                                // front may be served once more before it, the turn history starts afresh
                                last_served = None;
                            }
                        }
                    }
                }
                Ev::Unsolicited(a) => {
                    if out.is_none() && m.iter().all(|x| x.users.is_empty()) {
                        if let Some(k) = self.keep_alive {
                            // stay clear of every deadline: the step only delivers the fragment
                            let target = t_before + k / 2;
                            let clear = self.earliest_deadline(&m).map(|d| d > target).unwrap_or(true);
                            if clear {
                                sim.advance(k / 2);
                                uns_seq = (uns_seq + 1) & 0x0F;
                                sim.respond_from(addr(*a), &app::response(0xF0 | uns_seq, 130, 0, 0, &[]));
                                m[*a].last_activity = sim.k.now_ms();
                            }
                        }
                    }
                }
                Ev::AdvMinus1 | Ev::AdvTo => {
                    if out.is_none() && m.iter().all(|a| a.users.is_empty()) {
                        if let Some(d) = self.earliest_deadline(&m) {
                            let target = if *ev == Ev::AdvMinus1 { d.saturating_sub(1) } else { d };
                            if target > t_before {
                                expect_unwoken = *ev == Ev::AdvMinus1;
                                sim.advance(target - t_before);
                            }
                        }
                    }
                }
            }
            res.transitions += 1;
            let now = sim.k.now_ms();
            let outs = sim.take_out();
            let polls_in_step = sim.master_polls() - polls_before;
            sim.take_cb();
            obs.add_str(&format!("{ev:?}"));
            if transcript {
                res.transcript.push(format!("t={now} EVENT {ev:?} (master future polled {polls_in_step} times)"));
            }
            if let Some(f) = sim.failure() {
                res.violation = Some(Violation::new("C19.X0", f.clone(), f));
                break;
            }
            if expect_unwoken && (polls_in_step != 0 || !outs.is_empty()) {
                res.violation = Some(Violation::new(
                    "C19.S6",
                    "woken-before-the-earliest-deadline",
                    format!("advanced to 1 ms before the earliest deadline: master future polled {polls_in_step} times, {} transmissions", outs.len()),
                ));
                break;
            }
            // everything written in this step, in order
            let mut v: Option<Violation> = None;
            for t in &outs {
                let (a, work, tw, raw): (usize, Work, u64, Vec<u8>) = match t {
                    MTx::Frag { t, dst, data, .. } => {
                        if data.len() < 2 || data[1] == fc::CONFIRM {
                            continue;
                        }
                        let a = (*dst - 1024) as usize;
                        let w = if data[1] == fc::READ && data.len() >= 5 && data[2] == 40 {
                            Work::User(data[5] as u32)
                        } else if data[1] == fc::DIRECT_OPERATE {
                            Work::User(u32::from_le_bytes([data[9], data[10], data[11], data[12]]))
                        } else if data[1] == fc::READ {
                            let g = data[2];
                            Work::Poll(poll_groups().iter().position(|x| *x == g).unwrap_or(0))
                        } else {
                            Work::User(0)
                        };
                        (a, w, *t, data.clone())
                    }
                    MTx::Link { t, frame, .. } => {
                        if frame.is_prm() && frame.func() == link::PRI_REQUEST_LINK_STATUS {
                            ((frame.dst - 1024) as usize, Work::LinkStatus, *t, vec![])
                        } else {
                            continue;
                        }
                    }
                    _ => continue,
                };
                writes += 1;
                obs.add_str(&format!("{a}{work:?}@{}", tw - t_before));
                if transcript {
                    res.transcript.push(format!("   <- t={tw} assoc {a} {work:?}"));
                }
                // S1: one request outstanding per channel
                if let Some(o) = &out {
                    v = Some(Violation::new(
                        "C19.S1",
                        "second-request-while-one-is-outstanding",
                        format!("{work:?} for association {a} written at t={tw} while {:?} for association {} (written t={}) is outstanding", o.work, o.a, o.t),
                    ));
                    break;
                }
                match &work {
                    Work::User(u) => {
                        // S2: submission order
                        while m[a].users.first().map(|x| doomed.contains(x)).unwrap_or(false) {
                            m[a].users.remove(0);
                        }
                        if m[a].users.first() != Some(u) {
                            v = Some(Violation::new(
                                "C19.S2",
                                "user-requests-out-of-submission-order",
                                format!("association {a}: request {u} written, submission queue {:?}", m[a].users),
                            ));
                            break;
                        }
                        m[a].users.remove(0);
                        // S4: associations with pending user requests take turns: the served association moves to
                        // the back of the ring, so `a` is not served
                        // twice in a row while a request of another association that was already
                        // waiting at the previous turn is still waiting
                        if let Some((prev, uid_then)) = last_served {
                            if prev == a {
                                let _ = uid_then;
                                if let Some(b) = (0..self.n).find(|b| *b != a && m[*b].users.iter().any(|x| !doomed.contains(x))) {
                                    v = Some(Violation::new(
                                        "C19.S4",
                                        "association-served-twice-while-another-waits",
                                        format!("association {a} served twice in a row while association {b} has request {} waiting since before the previous turn", m[b].users[0]),
                                    ));
                                    break;
                                }
                            }
                        }
                        last_served = Some((a, uid));
                    }
                    Work::Poll(p) => {
                        // S2: user requests go ahead of polls
                        if let Some(b) = (0..self.n).find(|b| m[*b].users.iter().any(|x| !doomed.contains(x))) {
                            v = Some(Violation::new(
                                "C19.S2b",
                                "poll-ahead-of-pending-user-request",
                                format!("association {a}: poll written at t={tw} while user requests {:?} of association {b} are pending", m[b].users),
                            ));
                            break;
                        }
                        // S3: not before its period elapsed
                        let Some(pm) = m[a].polls.get(*p) else {
                            v = Some(Violation::new("C19.S3", "unknown-poll", format!("{work:?}")));
                            break;
                        };
                        if pm.removed {
                            v = Some(Violation::new("C19.S3", "removed-poll-still-runs", format!("association {a} poll {p} written at t={tw}")));
                            break;
                        }
                        if tw < pm.due {
                            v = Some(Violation::new(
                                "C19.S3",
                                "poll-before-its-period-elapsed",
                                format!("association {a} poll {p} (period {}) written at t={tw}, due at t={}", pm.period, pm.due),
                            ));
                            break;
                        }
                        last_served = Some((a, uid));
                    }
                    Work::LinkStatus => {
                        // S5: only after the configured silence
                        match self.keep_alive {
                            None => {
                                v = Some(Violation::new("C19.S5", "link-status-request-without-keep-alive", format!("t={tw}")));
                                break;
                            }
                            Some(k) => {
                                last_served = Some((a, uid));
                                if tw < m[a].last_activity + k {
                                    v = Some(Violation::new(
                                        "C19.S5",
                                        "link-status-request-before-keep-alive-silence",
                                        format!("association {a}: written at t={tw}, last activity t={}, keep-alive {k}", m[a].last_activity),
                                    ));
                                    break;
                                }
                            }
                        }
                    }
                }
                out = Some(Outst { a, work, t: tw, raw });
            }
            if let Some(v) = v {
                res.violation = Some(v);
                break;
            }
            // no starvation: if the channel is idle and work is due, it must have been written
            if out.is_none() {
                let mut due: Vec<String> = Vec::new();
                for (ai, a) in m.iter().enumerate() {
                    if a.users.iter().any(|x| !doomed.contains(x)) {
                        due.push(format!("association {ai} user requests {:?}", a.users));
                    }
                    for (pi, p) in a.polls.iter().enumerate() {
                        if p.due <= now {
                            due.push(format!("association {ai} poll {pi} due t={}", p.due));
                        }
                    }
                    if let Some(k) = self.keep_alive {
                        if a.last_activity + k <= now {
                            due.push(format!("association {ai} keep-alive due t={}", a.last_activity + k));
                        }
                    }
                }
                // an idle channel has started (and thereby dropped) every doomed request
                for a in m.iter_mut() {
                    a.users.retain(|x| !doomed.contains(x));
                }
                if !due.is_empty() {
                    res.violation = Some(Violation::new(
                        "C19.S3b",
                        "channel-idle-although-work-is-due",
                        format!("t={now}: nothing outstanding and nothing written, but {}", due.join("; ")),
                    ));
                    break;
                }
            }
            // bounded polling per event
            if polls_in_step > 200 {
                res.violation = Some(Violation::new("C19.S6", "busy-polling", format!("{polls_in_step} polls of the master future in one event")));
                break;
            }
            let mut h = Hasher::default();
            h.add_u64(out.as_ref().map(|o| 1 + o.a as u64).unwrap_or(0));
            for a in &m {
                h.add_u64(a.users.len().min(3) as u64);
                for p in &a.polls {
                    h.add_u64((p.due.saturating_sub(now)).min(3 * T) / 500);
                }
            }
            res.model_states.push(h.0);
        }
        res.obs = obs.0;
        res.nontrivial = writes >= 2;
        res
    }
}

fn scenarios(tier: &str) -> Vec<C19> {
    let mk = |n: usize, keep_alive: Option<u64>, depth: usize| C19 { n, keep_alive, depth, alphabet: build_alphabet(n, keep_alive.is_some()) };
    // run-time reconfiguration and turn-taking: a small alphabet, deep enough for several rounds
    let readd = |depth: usize| C19 { n: 2, keep_alive: None, depth, alphabet: vec![Ev::ReAdd(0), Ev::Submit(0), Ev::Submit(1), Ev::Respond] };
    // polls added and removed at run time: every poll that exists keeps its period, a removed one never runs
    let polls = |depth: usize| C19 { n: 1, keep_alive: None, depth, alphabet: vec![Ev::AddPoll(0, 1), Ev::AddPoll(0, 2), Ev::RemovePoll(0), Ev::AdvTo, Ev::Respond] };
    if tier == "quick" {
        vec![mk(1, None, 5), mk(2, None, 5), mk(2, Some(4 * T), 5), mk(3, None, 4), readd(9), polls(7)]
    } else {
        vec![mk(1, None, 7), mk(1, Some(4 * T), 7), mk(2, None, 6), mk(2, Some(4 * T), 6), mk(3, None, 6), mk(3, Some(4 * T), 5), readd(11), polls(9)]
    }
}

pub fn replay(name: &str, path: &[usize]) -> Option<RunResult> {
    for tier in ["quick", "thorough"] {
        if let Some(s) = scenarios(tier).into_iter().find(|s| s.name() == name) {
            return Some(s.run(path, true));
        }
    }
    None
}

pub fn check(tier: &str) -> i32 {
    let _ = EndpointAddress::try_new(1);
    let mut c = Check::new("C19", tier);
    for s in scenarios(tier) {
        c.explore(&s);
    }
    c.finish(
        "model_checking",
        "1..3 associations on one channel, keep-alive off / 4T, every history up to depth 4-5 (5-7 thorough) over 9-13 events (submit a user READ or command on association a, add a poll with period kT, demand a poll, prompt reply, reply 1 ms before the response timeout, no reply, advance to 1 ms before / exactly the earliest deadline the monitor predicts, an unsolicited fragment received half a keep-alive period into the silence, an association removed and added again with the same address, polls removed through their handles and others added afterwards) on the real MasterTask with a virtual clock; the monitor checks every request written: at most one outstanding per channel, user requests in submission order and ahead of the polls of every association on the channel, polls never before completion + period and written as soon as they are due on an idle channel, associations with waiting user requests take turns, link status requests only after the keep-alive silence, the master future is not polled while the clock advances to 1 ms before the earliest deadline and at most 200 times per event; non-trivial = at least two requests were written; distinct = distinct observation trace",
        &["start-up tasks are off here (their ordering is C17's subject)", "T = 2 s, response timeout 1 s"],
        serde_json::json!({}),
    )
}
