//! C05 — a retransmitted request is answered from memory and never executed twice; every
//! re-sent fragment is identical to one already transmitted.

use dnp3::outstation::database::*;

use super::common::{self, collect};
use crate::explore::{Check, Hasher, RunResult, Scenario, Violation};
use crate::osim::{OCfg, OSim};
use crate::wire::app::{self, fc};

const CONFIRM_TIMEOUT: u64 = 5000;
/// events per `UpdMany` (3 octets each as g2v1 with 16-bit index: three fragments at tx 249)
const MANY: u64 = 200;

#[derive(Copy, Clone, Debug, PartialEq, Eq)]
enum R {
    WriteRestart,
    WriteTime,
    WriteDeadband,
    Select,
    Operate,
    Direct,
    DirectNr,
    Freeze,
    FreezeNr,
    FreezeClear,
    FreezeAtTime,
    Cold,
    Warm,
    DelayMeasure,
    RecordTime,
    WriteLastRecorded,
    EnableUnsol,
    DisableUnsol,
    Read0,
    Read1,
}

impl R {
    fn fragment(self, seq: u8) -> Vec<u8> {
        let crob = app::prefixed8(12, 1, &[(3, app::crob(0x03, 1, 100, 200, 0))]);
        match self {
            R::WriteRestart => app::request(seq, fc::WRITE, &app::write_restart_objects(false)),
            R::WriteTime => app::request(seq, fc::WRITE, &app::g50v1_objects(1_000_000)),
            R::WriteDeadband => {
                app::request(seq, fc::WRITE, &app::prefixed8(34, 1, &[(1, vec![5, 0])]))
            }
            R::Select => app::request(seq, fc::SELECT, &crob),
            R::Operate => app::request(seq, fc::OPERATE, &crob),
            R::Direct => app::request(seq, fc::DIRECT_OPERATE, &crob),
            R::DirectNr => app::request(seq, fc::DIRECT_OPERATE_NR, &crob),
            R::Freeze => app::request(seq, fc::IMMED_FREEZE, &app::hdr_all(20, 0)),
            R::FreezeNr => app::request(seq, fc::IMMED_FREEZE_NR, &app::hdr_all(20, 0)),
            R::FreezeClear => app::request(seq, fc::FREEZE_CLEAR, &app::hdr_range8(20, 0, 0, 1)),
            R::FreezeAtTime => {
                let mut o = vec![50, 2, 0x07, 1];
                o.extend_from_slice(&app::time48(5000));
                o.extend_from_slice(&1000u32.to_le_bytes());
                o.extend(app::hdr_all(20, 0));
                app::request(seq, fc::FREEZE_AT_TIME, &o)
            }
            R::Cold => app::request(seq, fc::COLD_RESTART, &[]),
            R::Warm => app::request(seq, fc::WARM_RESTART, &[]),
            R::DelayMeasure => app::request(seq, fc::DELAY_MEASURE, &[]),
            R::RecordTime => app::request(seq, fc::RECORD_CURRENT_TIME, &[]),
            R::WriteLastRecorded => app::request(seq, fc::WRITE, &app::g50v3_objects(2_000_000)),
            R::EnableUnsol => app::request(seq, fc::ENABLE_UNSOLICITED, &app::class_headers(true, true, true, false)),
            R::DisableUnsol => app::request(seq, fc::DISABLE_UNSOLICITED, &app::class_headers(true, true, true, false)),
            R::Read0 => app::request(seq, fc::READ, &app::hdr_all(60, 1)),
            R::Read1 => app::request(seq, fc::READ, &app::hdr_all(60, 2)),
        }
    }
}

#[derive(Clone, Debug, PartialEq, Eq)]
enum Ev {
    Req(R),
    /// a fragment that is answered with an error indication but is not a request (its header does
    /// not parse: unknown function code), so the last request before it is still the one a
    /// retransmission refers to. (A request with a valid header and unparsable objects *is* a
    /// request; the library remembers it like any other.)
    Bad(u8),
    /// a DIRECT_OPERATE_NR with other objects sent to the broadcast address: executed, never
    /// answered, and not the request a later retransmission refers to
    BroadcastNr,
    /// the same to the confirm-mandatory broadcast address 0xFFFE: the next solicited response
    /// (of any request, non-READ ones included) asks for a confirm
    BroadcastNrMandatory,
    Repeat,
    SolConfirm(bool),
    UnsConfirm,
    Upd,
    /// macro update: enough class 1 events that a class 1 READ is answered in several fragments,
    /// each of which (the final one too) awaits a confirm
    UpdMany,
    Timeout,
    Reconnect,
}

pub struct C05 {
    name: String,
    alphabet: Vec<Ev>,
    depth: usize,
    tx: usize,
    unsol: bool,
    event_buf: u16,
}

fn all_requests() -> Vec<R> {
    use R::*;
    vec![
        Read0, Read1, WriteRestart, Direct, Select, Operate, DelayMeasure, Freeze, WriteTime, WriteDeadband,
        DirectNr, FreezeNr, FreezeClear, FreezeAtTime, Cold, Warm, RecordTime, WriteLastRecorded, EnableUnsol,
        DisableUnsol,
    ]
}

fn alphabet(reqs: &[R], reconnect: bool) -> Vec<Ev> {
    let mut v: Vec<Ev> = Vec::new();
    v.push(Ev::Repeat);
    v.push(Ev::Bad(0));
    v.push(Ev::BroadcastNr);
    v.push(Ev::BroadcastNrMandatory);
    for r in reqs {
        v.push(Ev::Req(*r));
    }
    v.push(Ev::SolConfirm(true));
    v.push(Ev::SolConfirm(false));
    v.push(Ev::UnsConfirm);
    v.push(Ev::Upd);
    v.push(Ev::Timeout);
    if reconnect {
        v.push(Ev::Reconnect);
    }
    v
}

impl C05 {
    fn cfg(&self) -> OCfg {
        OCfg {
            sol_tx: self.tx,
            unsol_tx: self.tx,
            unsolicited: self.unsol,
            confirm_timeout_ms: CONFIRM_TIMEOUT,
            max_unsol_retries: Some(1),
            event_buf: [self.event_buf; 8],
            ..Default::default()
        }
    }
}

impl Scenario for C05 {
    fn name(&self) -> String {
        self.name.clone()
    }
    fn alphabet(&self) -> Vec<String> {
        self.alphabet.iter().map(|e| format!("{e:?}")).collect()
    }
    fn depth(&self) -> usize {
        self.depth
    }
    fn enabled(&self, prefix: &[usize], next: usize) -> bool {
        let e = &self.alphabet[next];
        if !self.unsol && *e == Ev::UnsConfirm {
            return false;
        }
        if prefix.is_empty() && !self.unsol && *e == Ev::Repeat {
            return false;
        }
        true
    }

    fn run(&self, path: &[usize], transcript: bool) -> RunResult {
        let mut res = RunResult::default();
        let mut obs = Hasher::default();
        let cfg = self.cfg();
        let mut sim = OSim::new(&cfg, 1);
        sim.db(|db| {
            common::add_analogs(db, 100, None);
            common::add_binaries(db, 3, Some(EventClass::Class1));
            common::add_counters(db, 3, None);
        });
        let mut last_seq: u8 = 0;
        let mut last_req: Option<Vec<u8>> = None;
        let mut orig_reply: Vec<Vec<u8>> = Vec::new();
        let mut sent: Vec<Vec<u8>> = Vec::new();
        let mut sol_wait = false;
        // the confirm awaited belongs to a response to the last remembered request (not to the
        // error response of a request that is not remembered)
        let mut wait_owned = false;
        let mut sol_expected: u8 = 0;
        let mut uns_outstanding: Option<Vec<u8>> = None;
        let mut toggles = 0u64;
        let mut repeats_checked = 0usize;

        if self.unsol {
            // macro prefix: ideal master confirms the null unsolicited response and enables all classes
            if let Some(_s) = common::null_unsol_handshake(&mut sim) {
                let f = R::EnableUnsol.fragment(last_seq);
                sim.send(&f);
                for t in sim.take_out() {
                    if let Some(d) = t.frag() {
                        sent.push(d.to_vec());
                        orig_reply.push(d.to_vec());
                    }
                }
                last_req = Some(f);
            }
        }
        sim.take_out();
        sim.take_cb();

        for &i in path {
            let ev = &self.alphabet[i];
            let mut sent_now: Option<Vec<u8>> = None;
            let mut is_repeat = false;
            let mut is_bad = false;
            match ev {
                Ev::Req(r) => {
                    last_seq = (last_seq + 1) & 0x0F;
                    sent_now = Some(r.fragment(last_seq));
                }
                Ev::Bad(k) => {
                    last_seq = (last_seq + 1) & 0x0F;
                    sent_now = Some(if *k == 0 { app::request(last_seq, 0x70, &[]) } else { app::request(last_seq, fc::READ, &[0xFF]) });
                    is_bad = true;
                }
                Ev::BroadcastNr | Ev::BroadcastNrMandatory => {
                    last_seq = (last_seq + 1) & 0x0F;
                    let objs = app::prefixed8(12, 1, &[(9, app::crob(0x04, 7, 170, 11, 0))]);
                    let f = app::request(last_seq, fc::DIRECT_OPERATE_NR, &objs);
                    sim.send_from(crate::osim::MASTER_ADDR, if *ev == Ev::BroadcastNr { 0xFFFF } else { 0xFFFE }, &f);
                }
                Ev::Repeat => {
                    if let Some(f) = &last_req {
                        sent_now = Some(f.clone());
                        is_repeat = true;
                    }
                }
                Ev::SolConfirm(ok) => {
                    let seq = if *ok { sol_expected } else { (sol_expected + 1) & 0x0F };
                    let f = app::confirm(seq, false);
                    sim.send(&f);
                }
                Ev::UnsConfirm => {
                    let seq = uns_outstanding.as_ref().map(|f| f[0] & 0x0F).unwrap_or(0);
                    let f = app::confirm(seq, true);
                    sim.send(&f);
                }
                Ev::Upd => {
                    toggles += 1;
                    let v = toggles % 2 == 1;
                    let t = toggles;
                    sim.db(|db| {
                        db.update(0, &common::binary(v, t), UpdateOptions::detect_event());
                    });
                }
                Ev::UpdMany => {
                    sim.db(|db| {
                        for _ in 0..MANY {
                            toggles += 1;
                            let v = toggles % 2 == 1;
                            db.update((toggles % 3) as u16, &common::binary(v, toggles), UpdateOptions::detect_event());
                        }
                    });
                }
                Ev::Timeout => sim.advance(CONFIRM_TIMEOUT),
                Ev::Reconnect => {
                    sim.reconnect();
                    last_req = None;
                    orig_reply.clear();
                    sent.clear();
                    sol_wait = false;
                    uns_outstanding = None;
                }
            }
            if let Some(f) = &sent_now {
                sim.send(f);
            }
            let step = collect(&mut sim, &mut res, &mut obs, &format!("{ev:?}"), sent_now.as_deref(), transcript);
            if let Some(f) = sim.failure() {
                res.violation = Some(Violation::new("C05.X0", f.clone(), f));
                break;
            }
            let resps = step.resps();
            let sol: Vec<&app::Resp> = resps.iter().filter(|r| !r.uns()).collect();
            let uns: Vec<&app::Resp> = resps.iter().filter(|r| r.uns()).collect();

            // E3: an unsolicited retry (same UNS sequence as the outstanding response) is identical
            for u in &uns {
                if let Some(o) = &uns_outstanding {
                    if o[0] & 0x0F == u.seq() && o.as_slice() != u.raw.as_slice() {
                        res.violation = Some(Violation::new(
                            "C05.E3",
                            "unsolicited-retry-differs-from-original",
                            format!("outstanding {} retry {}", app::hex(o), app::hex(&u.raw)),
                        ));
                    }
                }
                uns_outstanding = Some(u.raw.clone());
            }
            if res.violation.is_some() {
                break;
            }

            if is_repeat {
                let f = sent_now.as_ref().unwrap();
                let func = f[1];
                let seq = f[0] & 0x0F;
                if func != fc::READ {
                    repeats_checked += 1;
                    // E1: nothing executes again
                    let exec: Vec<_> = step.cbs.iter().filter(|c| c.is_executing()).collect();
                    if !exec.is_empty() {
                        res.violation = Some(Violation::new(
                            "C05.E1",
                            format!("repeated-request-executed-again:fc{func}"),
                            format!("callbacks on repeat: {exec:?}"),
                        ));
                        break;
                    }
                    // E1: the reply is byte-for-byte the reply previously sent for it
                    let now_reply: Vec<Vec<u8>> =
                        sol.iter().filter(|r| r.seq() == seq).map(|r| r.raw.clone()).collect();
                    if now_reply != orig_reply {
                        res.violation = Some(Violation::new(
                            "C05.E1b",
                            format!("repeat-reply-differs:fc{func}"),
                            format!(
                                "original {:?} repeat {:?}",
                                orig_reply.iter().map(|x| app::hex(x)).collect::<Vec<_>>(),
                                now_reply.iter().map(|x| app::hex(x)).collect::<Vec<_>>()
                            ),
                        ));
                        break;
                    }
                } else if sol_wait && wait_owned {
                    repeats_checked += 1;
                    // E2: an echo during a confirm wait is a fragment already transmitted
                    for r in &sol {
                        if !sent.iter().any(|s| s.as_slice() == r.raw.as_slice()) {
                            res.violation = Some(Violation::new(
                                "C05.E2",
                                "echo-during-confirm-wait-not-a-previous-fragment",
                                format!("echo {} is none of the {} fragments sent so far", app::hex(&r.raw), sent.len()),
                            ));
                        }
                    }
                    if res.violation.is_some() {
                        break;
                    }
                }
            } else if is_bad {
                // answered, but not a request whose answer is remembered: a later Repeat still
                // refers to the last valid request
            } else if let Some(f) = &sent_now {
                // fresh request: remember the solicited replies it got in this step
                let seq = f[0] & 0x0F;
                orig_reply = sol.iter().filter(|r| r.seq() == seq).map(|r| r.raw.clone()).collect();
                last_req = Some(f.clone());
            }

            // bookkeeping derived from observations
            for r in &resps {
                sent.push(r.raw.clone());
            }
            if let Some(last) = sol.last() {
                sol_wait = last.con();
                wait_owned = !is_bad;
                sol_expected = last.seq();
            } else {
                match ev {
                    Ev::Timeout | Ev::Reconnect => sol_wait = false,
                    Ev::Req(_) => sol_wait = false,
                    // a broadcast request is a new request: it ends a solicited series
                    Ev::BroadcastNr | Ev::BroadcastNrMandatory => sol_wait = false,
                    Ev::SolConfirm(true) => sol_wait = false,
                    _ => {}
                }
            }
            if *ev == Ev::UnsConfirm {
                // confirmed (if it was outstanding)
                if uns.is_empty() {
                    uns_outstanding = None;
                }
            }

            let mut h = Hasher::default();
            h.add_u64(sol_wait as u64);
            h.add_u64(uns_outstanding.is_some() as u64);
            h.add_u64(last_req.as_ref().map(|f| f[1] as u64 + 1).unwrap_or(0));
            h.add_u64(sent.len().min(6) as u64);
            res.model_states.push(h.0);
        }
        res.obs = obs.0;
        res.nontrivial = repeats_checked > 0;
        res
    }
}

fn scenarios(tier: &str) -> Vec<C05> {
    let mut v = Vec::new();
    let mk = |name: &str, a: Vec<Ev>, depth: usize, tx: usize, unsol: bool| C05 {
        name: name.to_string(),
        alphabet: a,
        depth,
        tx,
        unsol,
        event_buf: 10,
    };
    use R::*;
    let core = vec![Read0, Read1, WriteRestart, Direct, Select, Operate, DelayMeasure, DisableUnsol];
    // every function code, depth 3 (request, [something], repeat)
    v.push(mk("all-fc-d3-tx249", alphabet(&all_requests(), false), 3, 249, false));
    v.push(mk("all-fc-d3-tx249-unsol", alphabet(&all_requests(), false), 3, 249, true));
    // core requests deeper (multi-fragment series: Read0, confirm, confirm, repeat)
    v.push(mk("core-d4-tx249", alphabet(&core, false), 4, 249, false));
    v.push(mk("core-d4-tx249-unsol", alphabet(&core, false), 4, 249, true));
    // a multi-fragment *event* series: every fragment, the final one included, awaits a confirm
    let series = vec![Ev::Repeat, Ev::Req(Read1), Ev::SolConfirm(true), Ev::SolConfirm(false), Ev::UpdMany, Ev::Timeout];
    let mut s = mk("event-series-d5-tx249", series.clone(), 5, 249, false);
    s.event_buf = 250;
    v.push(s);
    if tier == "thorough" {
        let mut a = series.clone();
        a.extend([Ev::Req(Read0), Ev::Upd, Ev::UnsConfirm, Ev::Reconnect]);
        for (name, depth, tx, unsol) in [("event-series-d6-tx249", 6, 249, false), ("event-series-d6-tx300-unsol", 6, 300, true)] {
            let mut s = mk(name, a.clone(), depth, tx, unsol);
            s.event_buf = 250;
            v.push(s);
        }
        v.push(mk("all-fc-d4-tx249", alphabet(&all_requests(), true), 4, 249, false));
        v.push(mk("all-fc-d4-tx300-unsol", alphabet(&all_requests(), true), 4, 300, true));
        v.push(mk("all-fc-d3-tx2048-unsol", alphabet(&all_requests(), true), 3, 2048, true));
        v.push(mk("core-d5-tx249", alphabet(&core, true), 5, 249, false));
        v.push(mk("core-d5-tx249-unsol", alphabet(&core, true), 5, 249, true));
        v.push(mk("core-d5-tx300", alphabet(&core, true), 5, 300, false));
    }
    v
}

pub fn replay(scenario: &str, path: &[usize]) -> Option<RunResult> {
    for s in scenarios("thorough") {
        if s.name == scenario {
            return Some(s.run(path, true));
        }
    }
    None
}

pub fn check(tier: &str) -> i32 {
    let mut c = Check::new("C05", tier);
    for s in scenarios(tier) {
        c.explore(&s);
    }
    c.finish(
        "model_checking",
        "every event history over the listed alphabet (one request per function code the outstation executes, byte-identical Repeat, right/wrong solicited confirm, unsolicited confirm, database update, confirm timeout, reconnect) up to the listed depth is executed on the real OutstationTask; after every event the oracle compares executing-callback counts and transmitted bytes with what was transmitted before; non-trivial = the history contains a Repeat that was checked against E1 or E2",
        &[
            "single-threaded driver models master/outstation concurrency exactly (DESIGN 2.3)",
            "a READ repeated from idle may be answered with a fresh response (library comment at session.rs; the statement only constrains re-sends)",
        ],
        serde_json::json!({"confirm_timeout_ms": CONFIRM_TIMEOUT}),
    )
}
