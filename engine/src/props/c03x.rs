//! C03, second part: event accounting for *every* event type and for multi-fragment event
//! series.  The ledger of c03.rs follows four points closely; the spaces here are broader and
//! simpler: every event carries a unique time stamp, the database reports an id for it
//! (`update2`), the application is told when it is released (`event_cleared(id)`), and a
//! FIFO-per-type reference model says which ids must be alive, offered, and released.

use std::collections::BTreeSet;

use dnp3::app::measurement::*;
use dnp3::outstation::database::*;

use crate::explore::{CaseSpace, Hasher, RunResult, Scenario, Violation};
use crate::osim::{Cb, OCfg, OSim};
use crate::props::common::ts;
use crate::wire::app::{self, fc};
use crate::wire::objects::decode_measurements;

const TO: u64 = 5000;
const TYPES: [&str; 8] = ["binary", "double-bit", "binary-output-status", "counter", "frozen-counter", "analog", "analog-output-status", "octet-string"];

fn add_point(db: &mut Database, ty: usize, idx: u16, class: EventClass) {
    match ty {
        0 => db.add(idx, Some(class), BinaryInputConfig::new(StaticBinaryInputVariation::Group1Var2, EventBinaryInputVariation::Group2Var2)),
        1 => db.add(idx, Some(class), DoubleBitBinaryInputConfig::new(StaticDoubleBitBinaryInputVariation::Group3Var2, EventDoubleBitBinaryInputVariation::Group4Var2)),
        2 => db.add(idx, Some(class), BinaryOutputStatusConfig::new(StaticBinaryOutputStatusVariation::Group10Var2, EventBinaryOutputStatusVariation::Group11Var2)),
        3 => db.add(idx, Some(class), CounterConfig::new(StaticCounterVariation::Group20Var1, EventCounterVariation::Group22Var5, 0)),
        4 => db.add(idx, Some(class), FrozenCounterConfig::new(StaticFrozenCounterVariation::Group21Var1, EventFrozenCounterVariation::Group23Var5, 0)),
        5 => db.add(idx, Some(class), AnalogInputConfig::new(StaticAnalogInputVariation::Group30Var1, EventAnalogInputVariation::Group32Var3, 0.0)),
        6 => db.add(idx, Some(class), AnalogOutputStatusConfig::new(StaticAnalogOutputStatusVariation::Group40Var1, EventAnalogOutputStatusVariation::Group42Var3, 0.0)),
        _ => db.add(idx, Some(class), OctetStringConfig),
    };
}

/// update number `n` (unique time stamp 1000 + n; for octet strings a unique content)
fn update(db: &mut Database, ty: usize, idx: u16, n: u64, big: bool) -> UpdateInfo {
    update_v(db, ty, idx, n, n, big)
}

/// `v` drives the value (so that consecutive updates of one point always differ), `n` the time stamp
fn update_v(db: &mut Database, ty: usize, idx: u16, n: u64, v: u64, big: bool) -> UpdateInfo {
    let t = ts(1000 + n);
    let o = UpdateOptions::detect_event();
    let fl = Flags::ONLINE;
    match ty {
        0 => db.update2(idx, &BinaryInput::new(v % 2 == 1, fl, t), o),
        1 => db.update2(idx, &DoubleBitBinaryInput::new(if v % 2 == 1 { DoubleBit::DeterminedOn } else { DoubleBit::DeterminedOff }, fl, t), o),
        2 => db.update2(idx, &BinaryOutputStatus::new(v % 2 == 1, fl, t), o),
        3 => db.update2(idx, &Counter::new(n as u32 + 1, fl, t), o),
        4 => db.update2(idx, &FrozenCounter::new(n as u32 + 1, fl, t), o),
        5 => db.update2(idx, &AnalogInput::new((n + 1) as f64, fl, t), o),
        6 => db.update2(idx, &AnalogOutputStatus::new((n + 1) as f64, fl, t), o),
        _ => {
            let mut v = vec![0x30 + (n % 64) as u8; if big { 100 } else { 3 }];
            v[0] = (n & 0xFF) as u8;
            v[1] = (n >> 8) as u8;
            db.update2(idx, &OctetString::new(&v).unwrap(), o)
        }
    }
}

/// the update numbers carried by a response, in order
fn carried(objs: &[u8]) -> Result<Vec<u64>, String> {
    let headers = app::walk(objs, false).map_err(|e| format!("response does not parse: {e:?}"))?;
    let ms = decode_measurements(&headers)?;
    let mut out = Vec::new();
    for m in ms {
        if !m.is_event {
            continue;
        }
        match (&m.val, m.time) {
            (crate::wire::objects::Val::Bytes(b), _) if b.len() >= 2 => out.push(b[0] as u64 | ((b[1] as u64) << 8)),
            (_, Some((t, _))) => out.push(t - 1000),
            _ => return Err(format!("event object without time: {m:?}")),
        }
    }
    Ok(out)
}

fn cleared(sim: &mut OSim) -> Vec<u64> {
    sim.take_cb().into_iter().filter_map(|c| if let Cb::EventCleared(id) = c { Some(id) } else { None }).collect()
}

fn responses(sim: &mut OSim) -> Vec<app::Resp> {
    sim.take_out().iter().filter_map(|t| t.frag()).filter_map(app::Resp::parse).filter(|r| !r.uns()).collect()
}

// ---------------------------------------------------------------------------------------
// (T) every type: bounded FIFO per type, overflow reported, survivors offered and released
// ---------------------------------------------------------------------------------------

pub struct PerType;

impl PerType {
    fn decode(index: usize) -> (usize, u16, bool, usize, bool) {
        // type, per-type limit, only this type has room, number of updates, two points
        let ty = index % 8;
        let i = index / 8;
        let limit = 1 + (i % 2) as u16;
        let i = i / 2;
        let only = i % 2 == 0;
        let i = i / 2;
        let n = 1 + i % 5;
        let two = (i / 5) % 2 == 1;
        (ty, limit, only, n, two)
    }
}

impl CaseSpace for PerType {
    fn name(&self) -> String {
        "per-type-accounting".into()
    }
    fn seeded(&self) -> bool {
        true
    }
    fn total(&self) -> usize {
        8 * 2 * 2 * 5 * 2
    }
    fn run(&self, index: usize, transcript: bool) -> RunResult {
        let mut res = RunResult::default();
        let (ty, limit, only, n, two) = Self::decode(index);
        let mut h = Hasher::default();
        h.add_u64(index as u64);
        res.obs = h.0;
        let mut buf = if only { [0u16; 8] } else { [limit; 8] };
        buf[ty] = limit;
        let cfg = OCfg { event_buf: buf, confirm_timeout_ms: TO, class_zero_octet_strings: true, ..Default::default() };
        let mut sim = OSim::new(&cfg, 1);
        sim.db(|db| {
            add_point(db, ty, 0, EventClass::Class1);
            add_point(db, ty, 1, EventClass::Class2);
        });
        sim.take_cb();
        let key = format!("{}:limit{limit}", TYPES[ty]);
        // model: ids alive, oldest first
        let mut alive: Vec<(u64, u64)> = Vec::new(); // (update number, id)
        for k in 0..n as u64 {
            let idx = if two { (k % 2) as u16 } else { 0 };
            let info = sim.db(|db| update_v(db, ty, idx, k, if two { k / 2 } else { k }, false));
            res.transitions += 1;
            if transcript {
                res.transcript.push(format!("update #{k} of {} {idx} -> {info:?}", TYPES[ty]));
            }
            let expect_overflow = alive.len() == limit as usize;
            match info {
                UpdateInfo::Created(id) if !expect_overflow => alive.push((k, id)),
                UpdateInfo::Overflow { created, discarded } if expect_overflow => {
                    let oldest = alive.remove(0);
                    if discarded != oldest.1 {
                        res.violation = Some(Violation::new("C03.T2", key, format!("update #{k}: overflow discarded id {discarded}, the oldest {} event is id {}", TYPES[ty], oldest.1)));
                        return res;
                    }
                    alive.push((k, created));
                }
                other => {
                    res.violation = Some(Violation::new(
                        "C03.T1",
                        key,
                        format!("update #{k} with {} of {limit} {} events buffered reported {other:?}", alive.len(), TYPES[ty]),
                    ));
                    return res;
                }
            }
        }
        // everything alive is offered, in order, nothing else; after the confirm exactly those are released
        let mut delivered: Vec<u64> = Vec::new();
        let mut seq = 1u8;
        for _round in 0..4 {
            sim.take_out();
            sim.send(&app::request(seq, fc::READ, &app::class_headers(true, true, true, false)));
            let rs = responses(&mut sim);
            let Some(r) = rs.last() else {
                res.violation = Some(Violation::new("C03.T3", key, "event READ not answered".to_string()));
                return res;
            };
            let ids = match carried(&r.objects) {
                Ok(x) => x,
                Err(e) => {
                    res.violation = Some(Violation::new("C03.T3", key, e));
                    return res;
                }
            };
            if transcript {
                res.transcript.push(format!("READ -> {} carries updates {ids:?}", app::hex(&r.raw[..r.raw.len().min(24)])));
            }
            if ids.is_empty() {
                break;
            }
            delivered.extend(ids);
            if r.con() {
                sim.send(&app::confirm(r.seq(), false));
            }
            seq = (seq + 1) & 0x0F;
        }
        let want: Vec<u64> = alive.iter().map(|x| x.0).collect();
        // classes are reported class 1 first: compare as sets per class order-insensitively, and
        // per point in order
        let mut d_sorted = delivered.clone();
        d_sorted.sort();
        if d_sorted != want {
            res.violation = Some(Violation::new(
                "C03.T4",
                key,
                format!("{n} updates, limit {limit}: updates {want:?} are alive and not reported discarded, the master was given {delivered:?}"),
            ));
            return res;
        }
        let mut rel = cleared(&mut sim);
        rel.sort();
        let mut want_ids: Vec<u64> = alive.iter().map(|x| x.1).collect();
        want_ids.sort();
        if rel != want_ids {
            res.violation = Some(Violation::new("C03.T5", key, format!("released ids {rel:?}, confirmed ids {want_ids:?}")));
            return res;
        }
        if let Some(f) = sim.failure() {
            res.violation = Some(Violation::new("C03.X0", f.clone(), f));
        }
        res.nontrivial = !want.is_empty();
        res.model_states.push(((ty as u64) << 8) | alive.len() as u64);
        res
    }
}

// ---------------------------------------------------------------------------------------
// (S) multi-fragment event series
// ---------------------------------------------------------------------------------------

#[derive(Clone, Copy, Debug, PartialEq)]
enum SEv {
    Read,
    Confirm,
    ConfirmWrong,
    Timeout,
    Other,
    Update,
    Reconnect,
}

pub struct Series {
    ty: usize,
    n: usize,
    depth: usize,
}

impl Scenario for Series {
    fn name(&self) -> String {
        format!("event-series-{}-{}events-d{}", TYPES[self.ty], self.n, self.depth)
    }
    fn alphabet(&self) -> Vec<String> {
        [SEv::Read, SEv::Confirm, SEv::ConfirmWrong, SEv::Timeout, SEv::Other, SEv::Update, SEv::Reconnect].iter().map(|e| format!("{e:?}")).collect()
    }
    fn depth(&self) -> usize {
        self.depth
    }
    fn run(&self, path: &[usize], transcript: bool) -> RunResult {
        let alpha = [SEv::Read, SEv::Confirm, SEv::ConfirmWrong, SEv::Timeout, SEv::Other, SEv::Update, SEv::Reconnect];
        let mut res = RunResult::default();
        let mut obs = Hasher::default();
        let cfg = OCfg { sol_tx: 249, event_buf: [200; 8], confirm_timeout_ms: TO, class_zero_octet_strings: true, ..Default::default() };
        let mut sim = OSim::new(&cfg, 1);
        let ty = self.ty;
        sim.db(|db| add_point(db, ty, 0, EventClass::Class1));
        let mut alive: Vec<(u64, u64)> = Vec::new();
        let mut next_n = 0u64;
        for _ in 0..self.n {
            let k = next_n;
            next_n += 1;
            if let UpdateInfo::Created(id) = sim.db(|db| update(db, ty, 0, k, true)) {
                alive.push((k, id));
            }
        }
        sim.take_cb();
        sim.take_out();
        let key = format!("series:{}", TYPES[ty]);
        let mut seq = 0u8;
        // fragment awaiting its confirm: (sequence, update numbers carried, final?)
        let mut awaited: Option<(u8, Vec<u64>, bool)> = None;
        // updates already written in the current series (not offered again within it)
        let mut in_series: BTreeSet<u64> = BTreeSet::new();
        let mut released: BTreeSet<u64> = BTreeSet::new();
        // updates made after the READ of the current series are not part of its selection
        let mut series_horizon = next_n;
        let mut steps: Vec<SEv> = path.iter().map(|i| alpha[*i]).collect();
        // drain: read and confirm until nothing is left
        for _ in 0..(self.n + 6) {
            steps.push(SEv::Read);
            for _ in 0..6 {
                steps.push(SEv::Confirm);
            }
        }
        let explored = path.len();
        for (si, ev) in steps.iter().enumerate() {
            if si == explored && transcript {
                res.transcript.push("-- drain --".into());
            }
            if si >= explored && alive.is_empty() && awaited.is_none() {
                break;
            }
            res.transitions += 1;
            obs.add_str(&format!("{ev:?}"));
            let mut expect_released: Vec<u64> = Vec::new();
            let mut expect_fragment = false;
            match ev {
                SEv::Read => {
                    seq = (seq + 1) & 0x0F;
                    awaited = None;
                    in_series.clear();
                    series_horizon = next_n;
                    sim.send(&app::request(seq, fc::READ, &app::class_headers(true, false, false, false)));
                    expect_fragment = true;
                }
                SEv::Confirm => {
                    let Some((s, ids, fin)) = awaited.take() else {
                        if si >= explored {
                            continue;
                        }
                        sim.send(&app::confirm(seq, false));
                        // nothing is awaited: nothing may be released
                        let rel = cleared(&mut sim);
                        if !rel.is_empty() {
                            res.violation = Some(Violation::new("C03.S2", key.clone(), format!("a stray confirm released ids {rel:?}")));
                            break;
                        }
                        continue;
                    };
                    sim.send(&app::confirm(s, false));
                    expect_released = ids;
                    expect_fragment = !fin;
                }
                SEv::ConfirmWrong => {
                    let s = awaited.as_ref().map(|a| a.0).unwrap_or(seq);
                    sim.send(&app::confirm((s + 3) & 0x0F, false));
                }
                SEv::Timeout => {
                    sim.advance(TO + 10);
                    awaited = None;
                    in_series.clear();
                }
                SEv::Other => {
                    seq = (seq + 1) & 0x0F;
                    sim.send(&app::request(seq, fc::DELAY_MEASURE, &[]));
                    awaited = None;
                    in_series.clear();
                }
                SEv::Update => {
                    let k = next_n;
                    next_n += 1;
                    if let UpdateInfo::Created(id) = sim.db(|db| update(db, ty, 0, k, true)) {
                        alive.push((k, id));
                    }
                }
                SEv::Reconnect => {
                    sim.reconnect();
                    awaited = None;
                    in_series.clear();
                }
            }
            // released ids
            let rel = cleared(&mut sim);
            let mut want: Vec<u64> = expect_released.iter().filter_map(|k| alive.iter().find(|a| a.0 == *k).map(|a| a.1)).collect();
            want.sort();
            let mut got = rel.clone();
            got.sort();
            if transcript {
                res.transcript.push(format!("{ev:?}: released ids {rel:?}"));
            }
            if got != want {
                res.violation = Some(Violation::new(
                    "C03.S1",
                    key.clone(),
                    format!("after {ev:?} (step {si}): ids {got:?} were released, but the confirmed fragment carried ids {want:?}"),
                ));
                break;
            }
            for k in &expect_released {
                released.insert(*k);
            }
            alive.retain(|a| !expect_released.contains(&a.0));
            // the fragment that follows
            let rs = responses(&mut sim);
            let event_resp = rs.iter().filter(|r| r.func == fc::RESPONSE).last().cloned();
            if expect_fragment {
                let Some(r) = event_resp else {
                    res.violation = Some(Violation::new("C03.S3", key.clone(), format!("no fragment after {ev:?} (step {si})")));
                    break;
                };
                let ids = match carried(&r.objects) {
                    Ok(x) => x,
                    Err(e) => {
                        res.violation = Some(Violation::new("C03.S3", key.clone(), e));
                        break;
                    }
                };
                if transcript {
                    res.transcript.push(format!("   <- {} ... carries updates {:?}..{:?} ({}), fin={} con={}", app::hex(&r.raw[..4]), ids.first(), ids.last(), ids.len(), r.fin(), r.con()));
                }
                // expected: the alive updates not yet written in this series, oldest first, a prefix
                let pending: Vec<u64> = alive.iter().map(|a| a.0).filter(|k| !in_series.contains(k)).collect();
                if ids.len() > pending.len() || ids[..] != pending[..ids.len()] {
                    res.violation = Some(Violation::new(
                        "C03.S4",
                        key.clone(),
                        format!("after {ev:?} (step {si}) the fragment carries updates {ids:?}; still owed, oldest first: {pending:?}"),
                    ));
                    break;
                }
                if ids.is_empty() && !pending.is_empty() {
                    res.violation = Some(Violation::new("C03.S4", key.clone(), format!("after {ev:?} (step {si}) an empty fragment although updates {pending:?} are owed")));
                    break;
                }
                let selected = pending.iter().filter(|k| **k < series_horizon).count();
                if r.fin() && ids.len() < selected {
                    res.violation = Some(Violation::new("C03.S4", key.clone(), format!("final fragment leaves updates {:?} unreported", &pending[ids.len()..selected])));
                    break;
                }
                for k in &ids {
                    in_series.insert(*k);
                }
                if !ids.is_empty() && !r.con() {
                    res.violation = Some(Violation::new("C03.S5", key.clone(), "a fragment with events does not ask for a confirmation".to_string()));
                    break;
                }
                awaited = if r.con() { Some((r.seq(), ids, r.fin())) } else { None };
                res.nontrivial = true;
            }
            if let Some(f) = sim.failure() {
                res.violation = Some(Violation::new("C03.X0", f.clone(), f));
                break;
            }
            res.model_states.push(((alive.len() as u64) << 16) | ((in_series.len() as u64) << 4) | awaited.is_some() as u64);
        }
        if res.violation.is_none() && !alive.is_empty() {
            res.violation = Some(Violation::new("C03.S6", key.clone(), format!("after the drain updates {:?} were never confirmed-and-released", alive.iter().map(|a| a.0).collect::<Vec<_>>())));
        }
        res.obs = obs.0;
        res
    }
}

pub fn series(tier: &str) -> Vec<Series> {
    let mut v = vec![Series { ty: 5, n: 40, depth: 3 }, Series { ty: 7, n: 5, depth: 3 }];
    if tier != "quick" {
        v = vec![Series { ty: 5, n: 40, depth: 5 }, Series { ty: 7, n: 5, depth: 5 }, Series { ty: 0, n: 60, depth: 4 }, Series { ty: 3, n: 45, depth: 4 }];
    }
    v
}

// ---------------------------------------------------------------------------------------
// (O) overflow indication, per type: set from a discard until a confirmation leaves *every*
// type below capacity (used by C13)
// ---------------------------------------------------------------------------------------

pub struct OverflowPerType;

impl CaseSpace for OverflowPerType {
    fn name(&self) -> String {
        "overflow-indication-per-type".into()
    }
    fn seeded(&self) -> bool {
        true
    }
    fn total(&self) -> usize {
        8 * 8 * 3
    }
    fn run(&self, index: usize, transcript: bool) -> RunResult {
        let mut res = RunResult::default();
        let t_full = index % 8; // the type that sits at (or just below) capacity
        let u_over = (index / 8) % 8; // the type that overflowed
        let at_capacity = index / 64 == 0;
        // third mode: the other type is configured to keep no events at all (capacity 0): it can
        // never be "at capacity", whatever is done to its points
        let zero_capacity = index / 64 == 2;
        res.obs = index as u64 + 131313;
        if t_full == u_over {
            return res;
        }
        let limit = 2u64;
        let mut event_buf = [limit as u16; 8];
        if zero_capacity {
            event_buf[t_full] = 0;
        }
        let cfg = OCfg { event_buf, confirm_timeout_ms: TO, class_zero_octet_strings: true, ..Default::default() };
        let mut sim = OSim::new(&cfg, 1);
        sim.db(|db| {
            add_point(db, u_over, 0, EventClass::Class1);
            add_point(db, t_full, 0, EventClass::Class2);
        });
        let key = format!("{}-{}:{}-overflowed", TYPES[t_full], if zero_capacity { "keeps-no-events" } else { "at-capacity" }, TYPES[u_over]);
        let mut n = 0u64;
        for _ in 0..limit + 1 {
            sim.db(|db| update(db, u_over, 0, n, false));
            n += 1;
        }
        for _ in 0..(if at_capacity { limit } else { limit - 1 }) {
            sim.db(|db| update(db, t_full, 0, n, false));
            n += 1;
        }
        sim.take_out();
        let mut seq = 0u8;
        let mut ask = |sim: &mut OSim, func: u8, objs: &[u8]| -> Option<app::Resp> {
            seq = (seq + 1) & 0x0F;
            sim.take_out();
            sim.send(&app::request(seq, func, objs));
            responses(sim).into_iter().last()
        };
        let overflow = |r: &app::Resp| r.iin2 & 0x08 != 0;
        // 1. the discard is reported
        let Some(r1) = ask(&mut sim, fc::READ, &app::class_headers(true, false, false, false)) else {
            res.violation = Some(Violation::new("C13.O0", key, "READ class 1 not answered".to_string()));
            return res;
        };
        res.transitions += 1;
        if transcript {
            res.transcript.push(format!("READ class 1 -> {}", app::hex(&r1.raw[..4])));
        }
        if !overflow(&r1) {
            res.violation = Some(Violation::new("C13.O1", key, "an event was discarded but the response does not report EVENT_BUFFER_OVERFLOW".to_string()));
            return res;
        }
        sim.send(&app::confirm(r1.seq(), false));
        // 2. after the confirmation the bit stays exactly if some type is still at capacity
        let Some(r2) = ask(&mut sim, fc::DELAY_MEASURE, &[]) else {
            res.violation = Some(Violation::new("C13.O0", key, "request not answered".to_string()));
            return res;
        };
        res.transitions += 1;
        if transcript {
            res.transcript.push(format!("after the confirm -> {} ({} holds {} of {limit})", app::hex(&r2.raw[..4]), TYPES[t_full], if at_capacity { limit } else { limit - 1 }));
        }
        if overflow(&r2) != at_capacity {
            res.violation = Some(Violation::new(
                "C13.O2",
                key,
                format!(
                    "after the confirmation released the {} events, {} holds {} of {limit} events: EVENT_BUFFER_OVERFLOW is {}",
                    TYPES[u_over],
                    TYPES[t_full],
                    if at_capacity { limit } else { limit - 1 },
                    if overflow(&r2) { "still set although every type is below capacity" } else { "cleared although a type is still at capacity" }
                ),
            ));
            return res;
        }
        // 3. once that type is read and confirmed too, the bit clears
        if at_capacity {
            if let Some(r3) = ask(&mut sim, fc::READ, &app::class_headers(false, true, false, false)) {
                sim.send(&app::confirm(r3.seq(), false));
            }
            let Some(r4) = ask(&mut sim, fc::DELAY_MEASURE, &[]) else {
                res.violation = Some(Violation::new("C13.O0", key, "request not answered".to_string()));
                return res;
            };
            res.transitions += 1;
            if overflow(&r4) {
                res.violation = Some(Violation::new("C13.O3", key, "every type is below capacity after the second confirmation, EVENT_BUFFER_OVERFLOW is still set".to_string()));
                return res;
            }
        }
        if let Some(f) = sim.failure() {
            res.violation = Some(Violation::new("C13.X0", f.clone(), f));
        }
        res.nontrivial = true;
        res.model_states.push(index as u64);
        res
    }
}

// ---------------------------------------------------------------------------------------
// (V) every event variation: the object transmitted is the event recorded
// ---------------------------------------------------------------------------------------

/// (group, variation) of every event variation the library can be configured with, per type
const EVENT_VARIATIONS: [(usize, u8, u8); 32] = [
    (0, 2, 1), (0, 2, 2), (0, 2, 3),
    (1, 4, 1), (1, 4, 2), (1, 4, 3),
    (2, 11, 1), (2, 11, 2),
    (3, 22, 1), (3, 22, 2), (3, 22, 5), (3, 22, 6),
    (4, 23, 1), (4, 23, 2), (4, 23, 5), (4, 23, 6),
    (5, 32, 1), (5, 32, 2), (5, 32, 3), (5, 32, 4), (5, 32, 5), (5, 32, 6), (5, 32, 7), (5, 32, 8),
    (6, 42, 1), (6, 42, 2), (6, 42, 3), (6, 42, 4), (6, 42, 5), (6, 42, 6), (6, 42, 7), (6, 42, 8),
];

fn add_point_with_event_variation(db: &mut Database, ty: usize, var: u8) {
    let c = Some(EventClass::Class1);
    match ty {
        0 => db.add(0, c, BinaryInputConfig::new(StaticBinaryInputVariation::Group1Var2, [EventBinaryInputVariation::Group2Var1, EventBinaryInputVariation::Group2Var2, EventBinaryInputVariation::Group2Var3][var as usize - 1])),
        1 => db.add(
            0,
            c,
            DoubleBitBinaryInputConfig::new(
                StaticDoubleBitBinaryInputVariation::Group3Var2,
                [EventDoubleBitBinaryInputVariation::Group4Var1, EventDoubleBitBinaryInputVariation::Group4Var2, EventDoubleBitBinaryInputVariation::Group4Var3][var as usize - 1],
            ),
        ),
        2 => db.add(0, c, BinaryOutputStatusConfig::new(StaticBinaryOutputStatusVariation::Group10Var2, [EventBinaryOutputStatusVariation::Group11Var1, EventBinaryOutputStatusVariation::Group11Var2][var as usize - 1])),
        3 => db.add(
            0,
            c,
            CounterConfig::new(
                StaticCounterVariation::Group20Var1,
                match var {
                    1 => EventCounterVariation::Group22Var1,
                    2 => EventCounterVariation::Group22Var2,
                    5 => EventCounterVariation::Group22Var5,
                    _ => EventCounterVariation::Group22Var6,
                },
                0,
            ),
        ),
        4 => db.add(
            0,
            c,
            FrozenCounterConfig::new(
                StaticFrozenCounterVariation::Group21Var1,
                match var {
                    1 => EventFrozenCounterVariation::Group23Var1,
                    2 => EventFrozenCounterVariation::Group23Var2,
                    5 => EventFrozenCounterVariation::Group23Var5,
                    _ => EventFrozenCounterVariation::Group23Var6,
                },
                0,
            ),
        ),
        5 => db.add(
            0,
            c,
            AnalogInputConfig::new(
                StaticAnalogInputVariation::Group30Var1,
                [
                    EventAnalogInputVariation::Group32Var1,
                    EventAnalogInputVariation::Group32Var2,
                    EventAnalogInputVariation::Group32Var3,
                    EventAnalogInputVariation::Group32Var4,
                    EventAnalogInputVariation::Group32Var5,
                    EventAnalogInputVariation::Group32Var6,
                    EventAnalogInputVariation::Group32Var7,
                    EventAnalogInputVariation::Group32Var8,
                ][var as usize - 1],
                0.0,
            ),
        ),
        _ => db.add(
            0,
            c,
            AnalogOutputStatusConfig::new(
                StaticAnalogOutputStatusVariation::Group40Var1,
                [
                    EventAnalogOutputStatusVariation::Group42Var1,
                    EventAnalogOutputStatusVariation::Group42Var2,
                    EventAnalogOutputStatusVariation::Group42Var3,
                    EventAnalogOutputStatusVariation::Group42Var4,
                    EventAnalogOutputStatusVariation::Group42Var5,
                    EventAnalogOutputStatusVariation::Group42Var6,
                    EventAnalogOutputStatusVariation::Group42Var7,
                    EventAnalogOutputStatusVariation::Group42Var8,
                ][var as usize - 1],
                0.0,
            ),
        ),
    };
}

/// mode 0: the event is offered by a class poll in its configured variation with the recorded
/// value, flags and time (as far as the variation carries them), and released by the confirm.
/// mode 1: first a READ that names *another* variation of the same group is answered and never
/// confirmed; the class poll that follows must again offer the event as recorded, in the
/// configured variation.
pub struct EventVariations {
    /// clause prefix: C03, and C10 which runs the same product (the value that arrives is the value recorded)
    pub id: &'static str,
}

impl CaseSpace for EventVariations {
    fn name(&self) -> String {
        "event-variations".into()
    }
    fn seeded(&self) -> bool {
        true
    }
    fn total(&self) -> usize {
        EVENT_VARIATIONS.len() * 2
    }
    fn run(&self, index: usize, transcript: bool) -> RunResult {
        let mut res = RunResult::default();
        let (ty, group, var) = EVENT_VARIATIONS[index % EVENT_VARIATIONS.len()];
        let detour = index / EVENT_VARIATIONS.len() == 1;
        res.obs = index as u64 + 929292;
        let cfg = OCfg { event_buf: [5; 8], confirm_timeout_ms: TO, ..Default::default() };
        let mut sim = OSim::new(&cfg, 1);
        sim.db(|db| add_point_with_event_variation(db, ty, var));
        sim.take_cb();
        const N: u64 = 41; // value 42, time 1041: representable in every variation
        let info = sim.db(|db| update_v(db, ty, 0, N, 1, false));
        let key = format!("g{group}v{var}{}", if detour { ":after-unconfirmed-read-of-another-variation" } else { "" });
        let UpdateInfo::Created(id) = info else {
            res.violation = Some(Violation::new(&format!("{}.V0", self.id), key, format!("update reported {info:?}")));
            return res;
        };
        let mut seq = 0u8;
        if detour {
            // another variation of the same event group, answered and left unconfirmed
            let other = EVENT_VARIATIONS.iter().find(|(t, _, v)| *t == ty && *v != var).map(|x| x.2).unwrap_or(var);
            seq += 1;
            sim.take_out();
            sim.send(&app::request(seq, fc::READ, &app::hdr_all(group, other)));
            let _ = responses(&mut sim);
            res.transitions += 1;
        }
        seq += 1;
        sim.take_out();
        sim.send(&app::request(seq, fc::READ, &app::class_headers(true, true, true, false)));
        res.transitions += 1;
        let rs = responses(&mut sim);
        let Some(r) = rs.last() else {
            res.violation = Some(Violation::new(&format!("{}.V0", self.id), key, "class poll not answered".to_string()));
            return res;
        };
        let ms = match app::walk(&r.objects, false).map_err(|e| format!("{e:?}")).and_then(|h| decode_measurements(&h)) {
            Ok(m) => m,
            Err(e) => {
                res.violation = Some(Violation::new(&format!("{}.V2", self.id), key, format!("response does not decode: {e}")));
                return res;
            }
        };
        let evs: Vec<_> = ms.iter().filter(|m| m.is_event).collect();
        if transcript {
            res.transcript.push(format!("{key}: response {} -> {evs:?}", app::hex(&r.raw[..r.raw.len().min(40)])));
        }
        let want_val: f64 = match ty {
            0 | 2 => 1.0,
            1 => 2.0,
            _ => 42.0,
        };
        let ok = evs.len() == 1
            && evs[0].group == group
            && evs[0].var == var
            && evs[0].index == 0
            && evs[0].val.as_f64() == Some(want_val)
            && evs[0].flags.map(|f| f & 0x3F == 0x01).unwrap_or(true)
            && evs[0].time.map(|t| t.0 == 1000 + N).unwrap_or(true);
        if !ok {
            res.violation = Some(Violation::new(
                &format!("{}.V2", self.id),
                key,
                format!("recorded: index 0 value {want_val} ONLINE time {} as g{group}v{var}; transmitted: {evs:?}", 1000 + N),
            ));
            return res;
        }
        sim.send(&app::confirm(r.seq(), false));
        let rel = cleared(&mut sim);
        if rel != vec![id] {
            res.violation = Some(Violation::new(&format!("{}.V3", self.id), key, format!("confirmed response carried event id {id}; released {rel:?}")));
            return res;
        }
        if let Some(f) = sim.failure() {
            res.violation = Some(Violation::new(&format!("{}.X0", self.id), f.clone(), f));
        }
        res.nontrivial = true;
        res.model_states.push(index as u64);
        res
    }
}

// ---------------------------------------------------------------------------------------
// (P) master and outstation together: released means delivered
// ---------------------------------------------------------------------------------------

/// Real master and real outstation back to back.  The outstation holds one event of every
/// listed kind; some of them the master cannot take (a zero-length octet string, which this
/// library's outstation may record and its master does not parse by default).  Whatever
/// happens, an event the outstation released was handed to the master's handler first.
pub struct PairedRelease;

impl CaseSpace for PairedRelease {
    fn name(&self) -> String {
        "paired-release-implies-delivery".into()
    }
    fn seeded(&self) -> bool {
        true
    }
    fn total(&self) -> usize {
        // which events exist (bit 0: binary, bit 1: empty octet string, bit 2: analog) x how the master asks
        7 * 2
    }
    fn run(&self, index: usize, transcript: bool) -> RunResult {
        use crate::msim::MCb;
        use dnp3::master::*;
        let mut res = RunResult::default();
        let which = 1 + index % 7;
        let by_poll = index / 7 == 1;
        res.obs = index as u64 + 606060;
        let ocfg = OCfg { event_buf: [5; 8], confirm_timeout_ms: 2000, ..Default::default() };
        let mut pair = crate::psim::Pair::new(&ocfg, 2048, true, 1000, 1);
        pair.ohandle.transaction(|db| {
            db.add(0, Some(EventClass::Class1), BinaryInputConfig::new(StaticBinaryInputVariation::Group1Var2, EventBinaryInputVariation::Group2Var2));
            db.add(0, Some(EventClass::Class1), OctetStringConfig);
            db.add(0, Some(EventClass::Class1), AnalogInputConfig::new(StaticAnalogInputVariation::Group30Var1, EventAnalogInputVariation::Group32Var3, 0.0));
        });
        let mut cfg = AssociationConfig::quiet();
        cfg.response_timeout = dnp3::app::Timeout::from_millis(2000).unwrap();
        let Some(mut assoc) = pair.add_association(cfg) else {
            res.violation = Some(Violation::new("C03.P0", "setup", "add_association".to_string()));
            return res;
        };
        pair.run_quiet(100);
        pair.take_ocb();
        pair.take_mcb();
        let mut ids: Vec<(u64, &str)> = Vec::new();
        pair.ohandle.transaction(|db| {
            if which & 1 != 0 {
                if let UpdateInfo::Created(id) = db.update2(0, &BinaryInput::new(true, Flags::ONLINE, ts(1001)), UpdateOptions::detect_event()) {
                    ids.push((id, "binary"));
                }
            }
            if which & 2 != 0 {
                if let UpdateInfo::Created(id) = db.update2(0, &OctetString::new(&[]).unwrap(), UpdateOptions::detect_event()) {
                    ids.push((id, "empty-octet-string"));
                }
            }
            if which & 4 != 0 {
                if let UpdateInfo::Created(id) = db.update2(0, &AnalogInput::new(7.0, Flags::ONLINE, ts(1002)), UpdateOptions::detect_event()) {
                    ids.push((id, "analog"));
                }
            }
        });
        if by_poll {
            let mut a2 = assoc.clone();
            pair.call_now("add_poll", async move { a2.add_poll(ReadRequest::class_scan(Classes::class123()), std::time::Duration::from_secs(3)).await.is_ok() });
        } else {
            pair.call("read", async move { assoc.read(ReadRequest::class_scan(Classes::class123())).await });
        }
        pair.run_quiet(15_000);
        res.transitions += 1;
        if let Some(f) = pair.failure() {
            res.violation = Some(Violation::new("C03.X0", f.clone(), f));
            return res;
        }
        let released: Vec<u64> = pair.take_ocb().into_iter().filter_map(|c| if let Cb::EventCleared(id) = c { Some(id) } else { None }).collect();
        let mcb = pair.take_mcb();
        let delivered_kinds: Vec<String> = mcb.iter().filter_map(|c| if let MCb::Value(v) = c { Some(v.kind.to_string()) } else { None }).collect();
        if transcript {
            res.transcript.push(format!("events {ids:?}; released {released:?}; delivered to the master's handler: {delivered_kinds:?}"));
        }
        for (id, kind) in &ids {
            let wanted = match *kind {
                "binary" => "binary",
                "analog" => "analog",
                _ => "octets",
            };
            if released.contains(id) && !delivered_kinds.iter().any(|k| k == wanted) {
                res.violation = Some(Violation::new(
                    "C03.P1",
                    format!("event-released-although-never-delivered:{kind}"),
                    format!("events {ids:?} (master asks by {}): the outstation released event {id}, the master's handler received {delivered_kinds:?}", if by_poll { "periodic poll" } else { "user READ" }),
                ));
                return res;
            }
        }
        res.nontrivial = true;
        res.model_states.push((which * 4 + released.len().min(3)) as u64);
        res
    }
}

// ---------------------------------------------------------------------------------------
// (K) different limits per type: the buffer holds the sum of the limits
// ---------------------------------------------------------------------------------------

/// Every type has its own limit (a rotation or the reverse of 1..=8, or the same with one type
/// switched off); every type is filled exactly to its limit.  Nothing may be displaced, every
/// event is delivered and released, and afterwards no class bit and no overflow bit is left.
pub struct Capacities {
    /// clause prefix ("C03" or "C13")
    pub id: &'static str,
}

impl Capacities {
    fn caps(index: usize) -> [u16; 8] {
        let base: [u16; 8] = [1, 2, 3, 4, 5, 6, 7, 8];
        let k = index % 16;
        let mut c = [0u16; 8];
        for i in 0..8 {
            c[i] = if k < 8 { base[(i + k) % 8] } else { base[7 - ((i + k) % 8)] };
        }
        // second half of the index range: one type keeps no events
        if index >= 16 {
            c[(index - 16) % 8] = 0;
        }
        c
    }
}

impl CaseSpace for Capacities {
    fn name(&self) -> String {
        "limits-differ-per-type".into()
    }
    fn seeded(&self) -> bool {
        true
    }
    fn total(&self) -> usize {
        16 + 8
    }
    fn run(&self, index: usize, transcript: bool) -> RunResult {
        let mut res = RunResult::default();
        let caps = Self::caps(index);
        res.obs = index as u64 + 818181;
        let clause = |k: &str| format!("{}.K{k}", self.id);
        let cfg = OCfg { event_buf: caps, confirm_timeout_ms: TO, class_zero_octet_strings: true, ..Default::default() };
        let mut sim = OSim::new(&cfg, 1);
        sim.db(|db| {
            for ty in 0..8 {
                add_point(db, ty, 0, [EventClass::Class1, EventClass::Class2, EventClass::Class3][ty % 3]);
            }
        });
        let key = format!("limits:{caps:?}");
        let mut n = 0u64;
        let mut expected = 0usize;
        // interleave the types so that the last events stored belong to different types
        let max = *caps.iter().max().unwrap() as usize;
        for round in 0..max {
            for ty in 0..8 {
                if round < caps[ty] as usize {
                    let info = sim.db(|db| update_v(db, ty, 0, n, round as u64 + 1, false));
                    n += 1;
                    res.transitions += 1;
                    match info {
                        UpdateInfo::Created(_) => expected += 1,
                        other => {
                            res.violation = Some(Violation::new(&clause("1"), key, format!("update {} of {} (limit {}) reported {other:?} although no type is beyond its limit", round + 1, TYPES[ty], caps[ty])));
                            return res;
                        }
                    }
                }
            }
        }
        sim.take_out();
        sim.send(&app::request(1, fc::READ, &app::class_headers(true, true, true, false)));
        let mut got: Vec<u64> = Vec::new();
        let mut last: Option<app::Resp> = None;
        for _ in 0..10 {
            let rs = responses(&mut sim);
            if rs.is_empty() {
                break;
            }
            for r in rs {
                match carried(&r.objects) {
                    Ok(ids) => got.extend(ids),
                    Err(e) => {
                        res.violation = Some(Violation::new(&clause("2"), key, e));
                        return res;
                    }
                }
                if r.con() {
                    sim.send(&app::confirm(r.seq(), false));
                }
                last = Some(r);
            }
            if last.as_ref().map(|r| r.fin()).unwrap_or(false) {
                break;
            }
        }
        if transcript {
            res.transcript.push(format!("limits {caps:?}: {expected} events recorded, {} delivered", got.len()));
        }
        let mut want: Vec<u64> = (0..n).collect();
        want.sort();
        let mut g = got.clone();
        g.sort();
        if g != want {
            let missing: Vec<u64> = want.iter().filter(|x| !g.contains(x)).copied().collect();
            res.violation = Some(Violation::new(&clause("2"), key, format!("{} events recorded without any discard, {} delivered; missing updates {missing:?}", want.len(), g.len())));
            return res;
        }
        if let Some(r) = &last {
            if r.iin2 & 0x08 != 0 {
                res.violation = Some(Violation::new(&clause("3"), key, "overflow indicated although nothing was displaced".to_string()));
                return res;
            }
        }
        // everything confirmed: no class has events, nothing is offered again
        sim.take_out();
        sim.send(&app::request(2, fc::READ, &app::class_headers(true, true, true, false)));
        let after = responses(&mut sim);
        match after.last() {
            None => {
                res.violation = Some(Violation::new(&clause("0"), key, "READ not answered".to_string()));
                return res;
            }
            Some(r) => {
                if !r.objects.is_empty() || r.iin1 & 0x0E != 0 || r.iin2 & 0x08 != 0 {
                    res.violation = Some(Violation::new(
                        &clause("4"),
                        key,
                        format!("after every event was confirmed: response {} (IIN1 {:02X} IIN2 {:02X}, {} object octets)", app::hex(&r.raw[..4]), r.iin1, r.iin2, r.objects.len()),
                    ));
                    return res;
                }
            }
        }
        if let Some(f) = sim.failure() {
            res.violation = Some(Violation::new(&format!("{}.X0", self.id), f.clone(), f));
        }
        res.nontrivial = true;
        res.model_states.push(index as u64);
        res
    }
}

// ---------------------------------------------------------------------------------------
// (R) release out of buffer order
// ---------------------------------------------------------------------------------------

/// Two points of one type in different classes; events are released in every order the master
/// can cause (read one class, read one event of a class, read everything) while older events of
/// the other class stay behind.  Reference: a plain list.
pub struct ReleaseOrder {
    pub ty: usize,
    pub depth: usize,
}

#[derive(Clone, Copy, Debug, PartialEq)]
enum REv {
    Upd(u8),
    /// READ of class c (all events) and confirm
    Read(u8),
    /// READ of class c limited to one event and confirm
    ReadOne(u8),
    ReadAll,
}

const RALPHA: [REv; 7] = [REv::Upd(1), REv::Upd(2), REv::Read(1), REv::Read(2), REv::ReadOne(1), REv::ReadOne(2), REv::ReadAll];

impl Scenario for ReleaseOrder {
    fn name(&self) -> String {
        format!("release-order-{}-d{}", TYPES[self.ty], self.depth)
    }
    fn alphabet(&self) -> Vec<String> {
        RALPHA.iter().map(|e| format!("{e:?}")).collect()
    }
    fn depth(&self) -> usize {
        self.depth
    }
    fn run(&self, path: &[usize], transcript: bool) -> RunResult {
        let mut res = RunResult::default();
        let mut obs = Hasher::default();
        let cfg = OCfg { event_buf: [50; 8], confirm_timeout_ms: TO, class_zero_octet_strings: true, ..Default::default() };
        let mut sim = OSim::new(&cfg, 1);
        let ty = self.ty;
        sim.db(|db| {
            add_point(db, ty, 1, EventClass::Class1);
            add_point(db, ty, 2, EventClass::Class2);
        });
        sim.take_cb();
        sim.take_out();
        let key = format!("release-order:{}", TYPES[ty]);
        let mut alive: Vec<(u64, u8, u64)> = Vec::new(); // update number, class, id
        let mut next_n = 0u64;
        let mut per_point = [0u64; 3];
        let mut seq = 0u8;
        let mut steps: Vec<REv> = path.iter().map(|i| RALPHA[*i]).collect();
        steps.push(REv::ReadAll);
        for (si, ev) in steps.iter().enumerate() {
            res.transitions += 1;
            obs.add_str(&format!("{ev:?}"));
            match ev {
                REv::Upd(c) => {
                    let k = next_n;
                    next_n += 1;
                    per_point[*c as usize] += 1;
                    let info = sim.db(|db| update_v(db, ty, *c as u16, k, per_point[*c as usize], false));
                    match info {
                        UpdateInfo::Created(id) => alive.push((k, *c, id)),
                        other => {
                            res.violation = Some(Violation::new("C03.O1", key.clone(), format!("update #{k} reported {other:?} with {} of 50 events buffered", alive.len())));
                            break;
                        }
                    }
                }
                REv::Read(_) | REv::ReadOne(_) | REv::ReadAll => {
                    let (objs, want): (Vec<u8>, Vec<(u64, u8, u64)>) = match ev {
                        REv::Read(c) => (app::hdr_all(60, 1 + *c), alive.iter().filter(|a| a.1 == *c).cloned().collect()),
                        REv::ReadOne(c) => (app::hdr_count8(60, 1 + *c, 1), alive.iter().filter(|a| a.1 == *c).take(1).cloned().collect()),
                        _ => (app::class_headers(true, true, true, false), alive.clone()),
                    };
                    seq = (seq + 1) & 0x0F;
                    sim.take_out();
                    sim.send(&app::request(seq, fc::READ, &objs));
                    let Some(r) = responses(&mut sim).into_iter().last() else {
                        res.violation = Some(Violation::new("C03.O2", key.clone(), format!("step {si} {ev:?}: READ not answered")));
                        break;
                    };
                    let got = match carried(&r.objects) {
                        Ok(x) => x,
                        Err(e) => {
                            res.violation = Some(Violation::new("C03.O2", key.clone(), e));
                            break;
                        }
                    };
                    let want_n: Vec<u64> = want.iter().map(|w| w.0).collect();
                    if transcript {
                        res.transcript.push(format!("{ev:?}: carries updates {got:?}, buffered {:?}", alive.iter().map(|a| (a.0, a.1)).collect::<Vec<_>>()));
                    }
                    // class 1 is reported before class 2 in a read of everything; within a class oldest first
                    let mut got_sorted = got.clone();
                    got_sorted.sort();
                    let mut want_sorted = want_n.clone();
                    want_sorted.sort();
                    if got_sorted != want_sorted {
                        res.violation = Some(Violation::new(
                            "C03.O3",
                            key.clone(),
                            format!("step {si} {ev:?}: the response carries updates {got:?}; buffered and selected: {want_n:?}"),
                        ));
                        break;
                    }
                    if r.con() {
                        sim.send(&app::confirm(r.seq(), false));
                    }
                    let mut rel = cleared(&mut sim);
                    rel.sort();
                    let mut want_ids: Vec<u64> = want.iter().map(|w| w.2).collect();
                    want_ids.sort();
                    if rel != want_ids {
                        res.violation = Some(Violation::new("C03.O4", key.clone(), format!("step {si} {ev:?}: released ids {rel:?}, confirmed ids {want_ids:?}")));
                        break;
                    }
                    alive.retain(|a| !want.iter().any(|w| w.0 == a.0));
                    if !want.is_empty() {
                        res.nontrivial = true;
                    }
                }
            }
            if let Some(f) = sim.failure() {
                res.violation = Some(Violation::new("C03.X0", f.clone(), f));
                break;
            }
            res.model_states.push(alive.iter().fold(alive.len() as u64, |h, a| h * 3 + a.1 as u64));
        }
        res.obs = obs.0;
        res
    }
}

pub fn release_orders(tier: &str) -> Vec<ReleaseOrder> {
    if tier == "quick" {
        vec![ReleaseOrder { ty: 0, depth: 6 }]
    } else {
        vec![ReleaseOrder { ty: 0, depth: 7 }, ReleaseOrder { ty: 5, depth: 6 }, ReleaseOrder { ty: 7, depth: 6 }]
    }
}
