//! C15 — a master accepts only the answer to its question and confirms what it accepts.
//!
//! SM exploration of the real MasterTask over a pipe: for each kind of outstanding task, all
//! response histories up to a depth over a curated alphabet; oracle = acceptance predicate +
//! confirm ledger + handler call order (DESIGN §5 C15).

use std::time::Duration;

use dnp3::app::control::*;
use dnp3::app::{RetryStrategy, Timeout};
use dnp3::master::*;

use crate::explore::{Check, Hasher, RunResult, Scenario, Violation};
use crate::msim::{MCb, MCfg, MSim, MTx, OUTSTATION_ADDR};
use crate::wire::app::{self, fc};

const RT: u64 = 1000; // response timeout
const FOREIGN: u16 = 1025;

#[derive(Copy, Clone, Debug, PartialEq, Eq)]
enum Kind {
    Idle,
    UserRead,
    /// a user READ that brings its own ReadHandler: every fragment of its answer goes there
    UserReadWithHandler,
    DirectOperate,
    Select,
    Operate,
    AutoDisableUnsol,
    Integrity,
    FileInfo,
}

#[derive(Copy, Clone, Debug, PartialEq, Eq)]
enum Body {
    /// what the outstanding task would accept (data / echo / empty)
    Ideal,
    Truncated,
    UnknownObject,
}

#[derive(Clone, Debug, PartialEq)]
enum Ev {
    /// solicited response: fir, fin, con, uns, sequence delta, from foreign source, body, iin2
    Sol { fir: bool, fin: bool, con: bool, uns: bool, dseq: i8, foreign: bool, body: Body, iin2: u8 },
    /// unsolicited response: data?, con?, duplicate of the previous one, foreign
    Uns { data: bool, con: bool, dup: bool, foreign: bool },
    /// unsolicited response (CON) whose object header is truncated
    UnsMalformed,
    /// same sequence number, flags and IIN as the previous unsolicited fragment, new contents:
    /// not a repetition, so it is delivered (and confirmed) like any other accepted fragment
    UnsSameSeq,
    /// an unsolicited response that is not a single fragment (FIR and FIN not both set) is not
    /// acceptable: neither delivered nor confirmed
    UnsFlags(bool, bool),
    Silence,
    /// the connection is lost and re-established (driven with no task outstanding only): what was
    /// received on the old connection no longer counts as "already received"
    Reconnect,
}

fn alphabet() -> Vec<Ev> {
    let s = |fir, fin, con, dseq, foreign, body, iin2| Ev::Sol { fir, fin, con, uns: false, dseq, foreign, body, iin2 };
    vec![
        s(true, true, false, 0, false, Body::Ideal, 0),
        s(true, true, true, 0, false, Body::Ideal, 0),
        s(true, false, true, 0, false, Body::Ideal, 0),
        s(false, false, true, 0, false, Body::Ideal, 0),
        s(false, true, false, 0, false, Body::Ideal, 0),
        s(false, true, true, 0, false, Body::Ideal, 0),
        s(true, false, false, 0, false, Body::Ideal, 0),
        // a middle fragment that does not ask for a confirm
        s(false, false, false, 0, false, Body::Ideal, 0),
        s(true, true, false, -1, false, Body::Ideal, 0),
        s(true, true, true, 1, false, Body::Ideal, 0),
        s(true, true, false, 8, false, Body::Ideal, 0),
        s(true, true, true, 0, true, Body::Ideal, 0),
        Ev::Uns { data: false, con: true, dup: false, foreign: false },
        Ev::Uns { data: true, con: true, dup: false, foreign: false },
        Ev::Uns { data: true, con: true, dup: true, foreign: false },
        Ev::Uns { data: true, con: true, dup: false, foreign: true },
        Ev::Uns { data: true, con: false, dup: false, foreign: false },
        Ev::UnsMalformed,
        Ev::UnsSameSeq,
        Ev::UnsFlags(true, false),
        Ev::UnsFlags(false, true),
        Ev::UnsFlags(false, false),
        s(true, true, false, 0, false, Body::Truncated, 0),
        s(true, true, true, 0, false, Body::UnknownObject, 0),
        s(true, true, true, 0, false, Body::Ideal, app::iin2::NO_FUNC_CODE_SUPPORT),
        s(true, true, false, 0, false, Body::Ideal, app::iin2::OBJECT_UNKNOWN),
        s(true, true, true, 0, false, Body::Ideal, app::iin2::PARAMETER_ERROR),
        Ev::Sol { fir: true, fin: true, con: false, uns: true, dseq: 0, foreign: false, body: Body::Ideal, iin2: 0 },
        Ev::Silence,
        Ev::Reconnect,
    ]
}

/// the model's view of the outstanding request
#[derive(Clone, Debug)]
struct Out {
    seq: u8,
    func: u8,
    is_first: bool,
    request_objects: Vec<u8>,
}

#[derive(Copy, Clone, Debug, PartialEq, Eq)]
enum End {
    /// the task must not end in this step
    No,
    /// the task must end (success or failure is the task's business)
    Yes,
    /// the task must end in failure
    Fail,
    /// either ignored or failed, but never a success
    NotSuccess,
}

struct Expectation {
    deliveries: usize,
    confirms: Vec<(bool, u8)>,
    end: End,
    /// C17's rule / parse-level leniency: the confirm of this fragment is optional
    confirm_optional: bool,
}

pub struct C15 {
    kind: Kind,
    depth: usize,
    alphabet: Vec<Ev>,
}

fn crob_headers() -> CommandHeaders {
    CommandBuilder::single_header_u8(Group12Var1::new(ControlCode::from_op_type(OpType::LatchOn), 1, 100, 200), 3)
}

fn measurement_objects(n: u8) -> Vec<u8> {
    // g30v1 [0] = n, flags ONLINE
    let mut v = app::hdr_range8(30, 1, 0, 0);
    v.push(0x01);
    v.extend_from_slice(&(n as i32).to_le_bytes());
    v
}

impl C15 {
    fn setup(&self) -> (MSim, Option<AssociationHandle>) {
        let mut sim = MSim::new(&MCfg::default(), 1);
        let mut cfg = AssociationConfig::quiet();
        cfg.response_timeout = Timeout::from_duration(Duration::from_millis(RT)).unwrap();
        cfg.auto_tasks_retry_strategy = RetryStrategy::new(Duration::from_secs(100), Duration::from_secs(100));
        match self.kind {
            Kind::AutoDisableUnsol => cfg.disable_unsol_classes = EventClasses::all(),
            Kind::Integrity => cfg.startup_integrity_classes = Classes::all(),
            _ => {}
        }
        let assoc = sim.add_association(OUTSTATION_ADDR, cfg);
        if let Some(a) = &assoc {
            let mut a = a.clone();
            match self.kind {
                Kind::UserRead => {
                    sim.call("read", async move { a.read(ReadRequest::class_scan(Classes::class0())).await });
                }
                Kind::UserReadWithHandler => {
                    let h = Box::new(crate::msim::Handler { log: sim.cb.clone(), tag: "custom:" });
                    sim.call("read", async move { a.read_with_handler(ReadRequest::class_scan(Classes::class0()), h).await });
                }
                Kind::DirectOperate => {
                    sim.call("operate", async move { a.operate(CommandMode::DirectOperate, crob_headers()).await });
                }
                Kind::Select | Kind::Operate => {
                    sim.call("operate", async move { a.operate(CommandMode::SelectBeforeOperate, crob_headers()).await });
                }
                Kind::FileInfo => {
                    sim.call("file-info", async move { a.get_file_info("x").await });
                }
                _ => {}
            }
        }
        (sim, assoc)
    }
}

fn frag_of(t: &MTx) -> Option<(&[u8], u64)> {
    match t {
        MTx::Frag { data, ord, .. } => Some((data, *ord)),
        _ => None,
    }
}

impl Scenario for C15 {
    fn name(&self) -> String {
        format!("{:?}-d{}", self.kind, self.depth)
    }
    fn alphabet(&self) -> Vec<String> {
        self.alphabet.iter().map(|e| format!("{e:?}")).collect()
    }
    fn depth(&self) -> usize {
        self.depth
    }

    fn run(&self, path: &[usize], transcript: bool) -> RunResult {
        let mut res = RunResult::default();
        let mut obs = Hasher::default();
        let (mut sim, _assoc) = self.setup();
        let mut out: Option<Out> = None;
        let mut last_seq: u8 = 0;
        let mut integrity_done = self.kind != Kind::Integrity;
        let mut useq: u8 = 0;
        let mut last_unsol: Option<Vec<u8>> = None;
        let mut last_unsol_sent: Option<Vec<u8>> = None;
        let mut n_value: u8 = 0;
        let mut accepted_total = 0usize;

        // pick up the outstanding request
        let pickup = |sim: &mut MSim, out: &mut Option<Out>, last_seq: &mut u8, tr: &mut Vec<String>| {
            for t in sim.take_out() {
                if let Some((f, _)) = frag_of(&t) {
                    if f.len() >= 2 && f[1] != fc::CONFIRM {
                        *out = Some(Out { seq: f[0] & 0x0F, func: f[1], is_first: true, request_objects: f[2..].to_vec() });
                        *last_seq = f[0] & 0x0F;
                        if transcript {
                            tr.push(format!("   request <- {}", app::hex(f)));
                        }
                    }
                }
            }
        };
        pickup(&mut sim, &mut out, &mut last_seq, &mut res.transcript);
        sim.take_cb();
        if self.kind == Kind::Operate {
            // answer the SELECT ideally so that the OPERATE step is outstanding
            if let Some(o) = out.clone() {
                let echo = app::response(app::ctrl(true, true, false, false, o.seq), fc::RESPONSE, 0, 0, &o.request_objects);
                sim.respond(&echo);
                out = None;
                pickup(&mut sim, &mut out, &mut last_seq, &mut res.transcript);
                sim.take_cb();
            }
        }
        let expected_outstanding = self.kind != Kind::Idle;
        if expected_outstanding != out.is_some() {
            res.violation = Some(Violation::new("C15.P0", "setup-did-not-produce-outstanding-request", format!("{:?}", self.kind)));
            return res;
        }

        for &i in path {
            let ev = &self.alphabet[i];
            n_value = n_value.wrapping_add(1);
            let mut exp = Expectation { deliveries: 0, confirms: vec![], end: End::No, confirm_optional: false };
            let label = format!("{ev:?}");
            let mut sent: Option<Vec<u8>> = None;
            match ev {
                Ev::Silence => {
                    if out.is_some() {
                        exp.end = End::Fail;
                        out = None;
                    }
                    sim.advance(RT);
                }
                Ev::Reconnect => {
                    if self.kind == Kind::Idle && out.is_none() {
                        sim.disconnect();
                        sim.advance(1500);
                        sim.connect();
                        last_unsol = None;
                    }
                }
                Ev::UnsMalformed => {
                    useq = (useq + 1) & 0x0F;
                    let frag = app::response(app::ctrl(true, true, true, true, useq), fc::UNSOLICITED_RESPONSE, 0, 0, &[30, 1, 0x00, 0, 0, 0x01, 0x02]);
                    // not accepted: neither delivered nor confirmed
                    sim.respond(&frag);
                    sent = Some(frag);
                }
                Ev::UnsFlags(fir, fin) => {
                    useq = (useq + 1) & 0x0F;
                    let frag = app::response(app::ctrl(*fir, *fin, true, true, useq), fc::UNSOLICITED_RESPONSE, 0, 0, &measurement_objects(n_value));
                    sim.respond(&frag);
                    sent = Some(frag);
                }
                Ev::UnsSameSeq => {
                    let frag = app::response(app::ctrl(true, true, true, true, useq), fc::UNSOLICITED_RESPONSE, 0, 0, &measurement_objects(n_value));
                    let is_dup = last_unsol.as_deref() == Some(&frag[..]);
                    if integrity_done {
                        if !is_dup {
                            exp.deliveries = 1;
                        }
                        exp.confirms.push((true, useq));
                        last_unsol = Some(frag.clone());
                    }
                    sim.respond(&frag);
                    sent = Some(frag);
                }
                Ev::Uns { data, con, dup, foreign } => {
                    let frag = if *dup && last_unsol_sent.is_some() {
                        last_unsol_sent.clone().unwrap()
                    } else {
                        useq = (useq + 1) & 0x0F;
                        let objs = if *data { measurement_objects(n_value) } else { vec![] };
                        app::response(app::ctrl(true, true, *con, true, useq), fc::UNSOLICITED_RESPONSE, 0, 0, &objs)
                    };
                    let is_dup = !*foreign && last_unsol.as_deref() == Some(&frag[..]);
                    let has_data = frag.len() > 4;
                    let frag_con = frag[0] & app::CON != 0;
                    if !*foreign {
                        if integrity_done || !has_data {
                            if !is_dup {
                                exp.deliveries = 1;
                            }
                            if frag_con {
                                exp.confirms.push((true, frag[0] & 0x0F));
                            }
                            last_unsol = Some(frag.clone());
                            last_unsol_sent = Some(frag.clone());
                        }
                    }
                    if *foreign {
                        sim.respond_from(FOREIGN, &frag);
                    } else {
                        sim.respond(&frag);
                    }
                    sent = Some(frag);
                }
                Ev::Sol { fir, fin, con, uns, dseq, foreign, body, iin2 } => {
                    let base = out.as_ref().map(|o| o.seq).unwrap_or(last_seq);
                    let q = ((base as i16 + *dseq as i16).rem_euclid(16)) as u8;
                    let objs: Vec<u8> = match body {
                        Body::Ideal => match out.as_ref().map(|o| o.func) {
                            Some(fc::READ) | None => measurement_objects(n_value),
                            Some(fc::SELECT) | Some(fc::OPERATE) | Some(fc::DIRECT_OPERATE) => out.as_ref().unwrap().request_objects.clone(),
                            _ => vec![],
                        },
                        Body::Truncated => vec![30, 1, 0x00, 0, 0, 0x01, 0x02],
                        Body::UnknownObject => vec![99, 1, 0x06],
                    };
                    let frag = app::response(app::ctrl(*fir, *fin, *con, *uns, q), fc::RESPONSE, 0, *iin2, &objs);
                    // acceptance predicate
                    if *uns {
                        // a solicited response with the UNS bit is mis-flagged
                        if out.is_some() {
                            exp.end = End::NotSuccess;
                        }
                    } else if let Some(o) = out.clone() {
                        if *foreign || q != o.seq {
                            // stale or foreign: ignored
                        } else if o.func == fc::READ {
                            let bad_body = *body != Body::Ideal;
                            if (*fir && !o.is_first) || (!*fir && o.is_first) || (!*fin && !*con) || *iin2 & app::iin2::ERROR_MASK != 0 || bad_body {
                                exp.end = End::Fail;
                                out = None;
                            } else {
                                exp.deliveries = 1;
                                if *con {
                                    exp.confirms.push((false, q));
                                }
                                if *fin {
                                    exp.end = End::Yes;
                                    if self.kind == Kind::Integrity {
                                        integrity_done = true;
                                    }
                                    out = None;
                                } else {
                                    let o2 = out.as_mut().unwrap();
                                    o2.seq = (o2.seq + 1) & 0x0F;
                                    o2.is_first = false;
                                }
                            }
                        } else {
                            // non-READ task: one FIR|FIN fragment
                            if !(*fir && *fin) || *iin2 & app::iin2::ERROR_MASK != 0 {
                                exp.end = End::Fail;
                                out = None;
                            } else if *body != Body::Ideal {
                                exp.end = End::NotSuccess;
                                out = None;
                            } else {
                                if *con {
                                    exp.confirms.push((false, q));
                                }
                                // a faithful SELECT echo continues with the OPERATE step
                                exp.end = if o.func == fc::SELECT { End::No } else { End::Yes };
                                out = None;
                            }
                        }
                    }
                    if *foreign {
                        sim.respond_from(FOREIGN, &frag);
                    } else {
                        sim.respond(&frag);
                    }
                    sent = Some(frag);
                }
            }
            res.transitions += 1;
            let (cbs, _) = sim.take_cb();
            let outs = sim.take_out();
            obs.add_str(&label);
            for c in &cbs {
                obs.add_str(&format!("{c:?}"));
            }
            for t in &outs {
                if let Some((f, _)) = frag_of(t) {
                    obs.add(f);
                }
            }
            if transcript {
                res.transcript.push(format!("t={} EVENT {label}", sim.k.now_ms()));
                if let Some(f) = &sent {
                    res.transcript.push(format!("   -> {}", app::hex(f)));
                }
                for c in &cbs {
                    res.transcript.push(format!("   cb {c:?}"));
                }
                for t in &outs {
                    if let Some((f, _)) = frag_of(t) {
                        res.transcript.push(format!("   <- {}", app::hex(f)));
                    }
                }
            }
            if let Some(f) = sim.failure() {
                res.violation = Some(Violation::new("C15.X0", f.clone(), f));
                break;
            }

            // observations
            let begins: Vec<&MCb> = cbs.iter().filter(|c| matches!(c, MCb::BeginFragment { .. })).collect();
            let ends = cbs.iter().filter(|c| matches!(c, MCb::EndFragment { .. })).count();
            let confirms: Vec<(bool, u8)> = outs
                .iter()
                .filter_map(frag_of)
                .filter(|(f, _)| f.len() == 2 && f[1] == fc::CONFIRM)
                .map(|(f, _)| (f[0] & app::UNS != 0, f[0] & 0x0F))
                .collect();
            let succ = cbs.iter().filter(|c| matches!(c, MCb::TaskSuccess(..))).count();
            let fail = cbs.iter().filter(|c| matches!(c, MCb::TaskFail(..))).count();
            let done_ok = cbs.iter().filter(|c| matches!(c, MCb::Done(_, r) if r.starts_with("Ok"))).count();

            // the auto-task / next-step requests written in this step become outstanding
            let mut new_out = None;
            for t in &outs {
                if let Some((f, _)) = frag_of(t) {
                    if f.len() >= 2 && f[1] != fc::CONFIRM {
                        new_out = Some(Out { seq: f[0] & 0x0F, func: f[1], is_first: true, request_objects: f[2..].to_vec() });
                    }
                }
            }

            // (1) delivery
            if begins.len() != exp.deliveries || ends != exp.deliveries {
                let key = if begins.len() > exp.deliveries { "fragment-delivered-that-must-not-be" } else { "accepted-fragment-not-delivered" };
                res.violation = Some(Violation::new(
                    "C15.A1",
                    format!("{key}:{}", short(ev)),
                    format!("{} begin_fragment / {} end_fragment callbacks, expected {}", begins.len(), ends, exp.deliveries),
                ));
                break;
            }
            if exp.deliveries == 1 {
                if let (Some(MCb::BeginFragment { ctrl, .. }), Some(f)) = (begins.first(), &sent) {
                    if *ctrl != f[0] {
                        res.violation = Some(Violation::new("C15.A2", "delivered-fragment-is-not-the-one-on-the-wire", format!("ctrl {ctrl:02X} vs {:02X}", f[0])));
                        break;
                    }
                }
                // a READ with its own handler: the fragments of its answer go to that handler, everything
                // unsolicited to the association's
                if self.kind == Kind::UserReadWithHandler {
                    if let (Some(MCb::BeginFragment { read_type, ctrl, .. }), Some(_)) = (begins.first(), &sent) {
                        let unsolicited = *ctrl & app::UNS != 0;
                        if read_type.starts_with("custom:") == unsolicited {
                            res.violation = Some(Violation::new(
                                "C15.A3",
                                format!("fragment-delivered-to-the-wrong-handler:{}", short(ev)),
                                format!("fragment {ctrl:02X} ({}) delivered as {read_type}", if unsolicited { "unsolicited" } else { "answer to read_with_handler" }),
                            ));
                            break;
                        }
                    }
                }
                accepted_total += 1;
            }
            // (2) confirm ledger
            if confirms != exp.confirms && !(exp.confirm_optional && confirms.is_empty()) {
                let key = if confirms.len() < exp.confirms.len() {
                    format!("accepted-fragment-not-confirmed:{}", out_kind(&sent, ev))
                } else if confirms.len() > exp.confirms.len() {
                    format!("confirm-for-fragment-that-was-not-accepted:{}", short(ev))
                } else {
                    "confirm-with-wrong-sequence-or-uns-bit".to_string()
                };
                res.violation = Some(Violation::new("C15.C1", key, format!("confirms written {confirms:?}, expected {:?}", exp.confirms)));
                break;
            }
            // (3) completion
            let ended = succ + fail;
            let v = match exp.end {
                End::No => {
                    if ended > 0 && new_out.is_none() && false {
                        Some("task-ended-unexpectedly")
                    } else if succ > 0 || done_ok > 0 {
                        Some("task-completed-by-fragment-that-must-be-ignored")
                    } else {
                        None
                    }
                }
                End::Yes => {
                    if ended != 1 {
                        Some("accepted-final-fragment-did-not-end-the-task")
                    } else {
                        None
                    }
                }
                End::Fail => {
                    if succ > 0 || done_ok > 0 {
                        Some("task-succeeded-on-fragment-that-must-fail-it")
                    } else if fail != 1 {
                        Some("task-not-failed")
                    } else {
                        None
                    }
                }
                End::NotSuccess => {
                    if succ > 0 || done_ok > 0 {
                        Some("task-succeeded-on-malformed-fragment")
                    } else {
                        None
                    }
                }
            };
            if let Some(k) = v {
                res.violation = Some(Violation::new(
                    "C15.T1",
                    format!("{k}:{:?}:{}", self.kind, short(ev)),
                    format!("task_success {succ} task_fail {fail} user-future Ok {done_ok}; expectation {:?}", exp.end),
                ));
                break;
            }
            // a NotSuccess / No outcome may have failed the task: follow the implementation
            if matches!(exp.end, End::NotSuccess) || (exp.end == End::No && fail > 0) {
                if fail > 0 {
                    out = None;
                }
            }
            if let Some(n) = new_out {
                last_seq = n.seq;
                out = Some(n);
            }
            let mut h = Hasher::default();
            match &out {
                None => h.add_u64(0),
                Some(o) => {
                    h.add_u64(1 + o.func as u64);
                    h.add_u64(o.is_first as u64);
                }
            }
            h.add_u64(integrity_done as u64);
            h.add_u64(last_unsol.is_some() as u64);
            res.model_states.push(h.0);
        }
        res.obs = obs.0;
        res.nontrivial = accepted_total > 0;
        res
    }
}

fn short(ev: &Ev) -> String {
    match ev {
        Ev::Silence => "silence".into(),
        Ev::Reconnect => "reconnect".into(),
        Ev::UnsMalformed => "uns-malformed".into(),
        Ev::UnsSameSeq => "uns-same-seq-new-contents".into(),
        Ev::UnsFlags(fir, fin) => format!("uns-fir{}fin{}", *fir as u8, *fin as u8),
        Ev::Uns { data, con, dup, foreign } => format!("uns-data{}-con{}-dup{}-foreign{}", *data as u8, *con as u8, *dup as u8, *foreign as u8),
        Ev::Sol { fir, fin, con, uns, dseq, foreign, body, iin2 } => format!(
            "sol-fir{}fin{}con{}uns{}-dseq{}-foreign{}-{:?}-iin{}",
            *fir as u8, *fin as u8, *con as u8, *uns as u8, dseq, *foreign as u8, body, iin2
        ),
    }
}

fn out_kind(sent: &Option<Vec<u8>>, ev: &Ev) -> String {
    match (sent, ev) {
        (Some(f), _) if f[1] == fc::UNSOLICITED_RESPONSE => "unsolicited".into(),
        _ => "solicited".into(),
    }
}

fn scenarios(tier: &str) -> Vec<C15> {
    let d = if tier == "quick" { 3 } else { 4 };
    [Kind::Idle, Kind::UserRead, Kind::UserReadWithHandler, Kind::DirectOperate, Kind::Select, Kind::Operate, Kind::AutoDisableUnsol, Kind::Integrity, Kind::FileInfo]
        .into_iter()
        .map(|kind| C15 { kind, depth: d, alphabet: alphabet() })
        .collect()
}

pub fn replay(scenario: &str, path: &[usize]) -> Option<RunResult> {
    for tier in ["quick", "thorough"] {
        if let Some(s) = scenarios(tier).into_iter().find(|s| s.name() == scenario) {
            return Some(s.run(path, true));
        }
    }
    None
}

pub fn check(tier: &str) -> i32 {
    let mut c = Check::new("C15", tier);
    for s in scenarios(tier) {
        c.explore(&s);
    }
    c.finish(
        "model_checking",
        "for each of eight kinds of outstanding task (none, user READ, DIRECT_OPERATE, SELECT step, OPERATE step, automatic DISABLE_UNSOLICITED, start-up integrity poll, file-information request) every history up to depth 3 (4 thorough) over 28 responses (ideal; with CON; first / middle / last fragment of a series in and out of order; non-final without CON; sequence -1 / +1 / +8; foreign source; unsolicited null / data / duplicate / foreign / without CON; truncated object; unknown object; each of the three IIN2 rejection bits alone; solicited with UNS bit; silence past the response timeout) is delivered to the real MasterTask; an acceptance predicate written from the statement predicts deliveries to the handler, CONFIRM fragments and task completion; non-trivial = at least one fragment was accepted; distinct = distinct observation trace",
        &[
            "a malformed or mis-flagged fragment may be ignored or may fail the outstanding task, but must never complete it successfully nor reach the handler",
            "whether an accepted command / file response means success is C16's subject",
        ],
        serde_json::json!({"response_timeout_ms": RT}),
    )
}
