//! C13 — internal indication bits tell the truth.
//!
//! Same driver and event ledger as C03, with the IIN model switched on: every first
//! transmission of a response is compared with the indications the ledger implies.

use super::c03::{start_with_iin, Ev, Pt, C03};
use crate::explore::{Check, Hasher, RunResult, Scenario};

pub struct C13 {
    inner: C03,
}

fn alphabet(unsol: bool) -> Vec<Ev> {
    let mut v = vec![
        Ev::Upd(Pt::B0),
        Ev::Upd(Pt::B1),
        Ev::Read(true, false, false, None),
        Ev::Read(false, true, false, None),
        Ev::Read(true, true, true, None),
        Ev::SolConfirm(true),
        Ev::Timeout,
        Ev::Other,
        Ev::Upd(Pt::C0),
        Ev::ReadClass0,
        Ev::SolConfirm(false),
        Ev::Broadcast(0),
        Ev::Broadcast(1),
        Ev::Broadcast(2),
        Ev::WriteRestart(false),
        Ev::WriteRestart(true),
        Ev::Reconnect,
        Ev::Replace,
        Ev::AppIin(0),
        Ev::AppIin(3),
    ];
    if unsol {
        v.extend([Ev::UnsConfirm(true), Ev::UnsConfirm(false), Ev::Disable, Ev::EnableC1, Ev::EnableAll]);
    }
    v
}

fn reduced(unsol: bool) -> Vec<Ev> {
    let mut v = vec![
        Ev::Upd(Pt::B0),
        Ev::Upd(Pt::B1),
        Ev::Read(true, false, false, None),
        Ev::Read(true, true, true, None),
        Ev::SolConfirm(true),
        Ev::Timeout,
        Ev::Other,
        Ev::Broadcast(1),
        Ev::Reconnect,
    ];
    if unsol {
        v.extend([Ev::UnsConfirm(true), Ev::Disable, Ev::EnableAll]);
    }
    v
}

impl Scenario for C13 {
    fn name(&self) -> String {
        self.inner.name.clone()
    }
    fn alphabet(&self) -> Vec<String> {
        self.inner.alphabet.iter().map(|e| format!("{e:?}")).collect()
    }
    fn depth(&self) -> usize {
        self.inner.depth
    }
    fn run(&self, path: &[usize], transcript: bool) -> RunResult {
        let mut res = RunResult::default();
        let mut obs = Hasher::default();
        let cfg = self.inner.cfg();
        let mut d = start_with_iin(&cfg, self.inner.unsol, self.inner.cto);
        for &i in path {
            if let Some(mut v) = d.apply(&self.inner.alphabet[i], &mut res, &mut obs, transcript) {
                // ledger clauses found while checking C13 are reported under C13's name space
                if v.clause.starts_with("C03") {
                    v.clause = v.clause.replace("C03", "C13.L");
                }
                res.violation = Some(v);
                break;
            }
        }
        // one more response so that the final indications are observed
        if res.violation.is_none() {
            if let Some(mut v) = d.apply(&Ev::Other, &mut res, &mut obs, transcript) {
                if v.clause.starts_with("C03") {
                    v.clause = v.clause.replace("C03", "C13.L");
                }
                res.violation = Some(v);
            }
        }
        res.obs = obs.0;
        res.nontrivial = d.ledger.iin.as_ref().map(|m| m.checked >= 2).unwrap_or(false);
        res
    }
}

fn scenarios(tier: &str) -> Vec<C13> {
    let mk = |name: &str, a: Vec<Ev>, depth: usize, unsol: bool, buf: u16, retries: Option<usize>| C13 {
        inner: C03 { name: name.to_string(), alphabet: a, depth, unsol, buf, cto: false, retries },
    };
    let mut v = vec![
        mk("poll-d4-buf1", alphabet(false), 4, false, 1, Some(0)),
        mk("unsol-d4-buf1", alphabet(true), 4, true, 1, Some(0)),
        mk("unsol-d3-buf2-retry1", alphabet(true), 3, true, 2, Some(1)),
    ];
    if tier == "thorough" {
        v.push(mk("poll-d5-buf1", alphabet(false), 5, false, 1, Some(0)));
        v.push(mk("unsol-d5-buf1", alphabet(true), 5, true, 1, Some(0)));
        v.push(mk("unsol-d5-buf2-retry1", alphabet(true), 5, true, 2, Some(1)));
        v.push(mk("unsol-reduced-d6-buf1", reduced(true), 6, true, 1, Some(0)));
        v.push(mk("poll-reduced-d7-buf2", reduced(false), 7, false, 2, Some(0)));
    }
    v
}

pub fn replay(scenario: &str, path: &[usize]) -> Option<RunResult> {
    use crate::explore::CaseSpace;
    if scenario == super::c03x::OverflowPerType.name() {
        return Some(super::c03x::OverflowPerType.run(path[0], true));
    }
    scenarios("thorough").into_iter().find(|s| s.inner.name == scenario).map(|s| s.run(path, true))
}

pub fn check(tier: &str) -> i32 {
    let mut c = Check::new("C13", tier);
    for s in scenarios(tier) {
        c.explore(&s);
    }
    c.cases(&super::c03x::OverflowPerType);
    c.finish(
        "model_checking",
        "(overflow per type) every ordered pair of the 8 event types (one overflowed, the other holding exactly its limit or one less): the overflow bit is reported with the discard, stays after the confirmation exactly if a type is still at capacity, and clears once that type is confirmed too; (histories) every event history over the listed alphabet (C03's alphabet plus broadcasts of the three confirm modes, WRITE of the restart bit to 0 and 1, reconnect, flips of the application's need-time / config-corrupt answers) up to the listed depth, executed on the real OutstationTask; for every first transmission of a response the oracle recomputes IIN1 and IIN2.3/2.5 from the event ledger and the indication model and compares all ten bits; non-trivial = at least two responses were checked; distinct = distinct observation trace",
        &[
            "byte-identical re-sends of the response awaiting confirmation carry the bits of the moment they were built and are exempt",
            "updates are placed at quiescent points (H6 lock-point placements are not built)",
        ],
        serde_json::json!({}),
    )
}
