//! C13 — internal indication bits tell the truth.
//!
//! Same driver and event ledger as C03, with the IIN model switched on: every first
//! transmission of a response is compared with the indications the ledger implies.

use super::c03::{start_with_iin, Ev, Pt, C03};
use crate::explore::{Check, Hasher, RunResult, Scenario};

pub struct C13 {
    inner: C03,
}

fn alphabet(unsol: bool) -> Vec<Ev> {
    let mut v = vec![
        Ev::Upd(Pt::B0),
        Ev::Upd(Pt::B1),
        Ev::Read(true, false, false, None),
        Ev::Read(false, true, false, None),
        Ev::Read(true, true, true, None),
        Ev::SolConfirm(true),
        Ev::Timeout,
        Ev::Other,
        Ev::Upd(Pt::C0),
        Ev::ReadClass0,
        Ev::SolConfirm(false),
        Ev::Broadcast(0),
        Ev::Broadcast(1),
        Ev::Broadcast(2),
        Ev::WriteRestart(false),
        Ev::WriteRestart(true),
        Ev::Reconnect,
        Ev::Replace,
        Ev::AppIin(0),
        Ev::AppIin(3),
        Ev::BadRead,
    ];
    if unsol {
        v.extend([Ev::UnsConfirm(true), Ev::UnsConfirm(false), Ev::Disable, Ev::EnableC1, Ev::EnableAll]);
    }
    v
}

fn reduced(unsol: bool) -> Vec<Ev> {
    let mut v = vec![
        Ev::Upd(Pt::B0),
        Ev::Upd(Pt::B1),
        Ev::Read(true, false, false, None),
        Ev::Read(true, true, true, None),
        Ev::SolConfirm(true),
        Ev::Timeout,
        Ev::Other,
        Ev::Broadcast(1),
        Ev::Reconnect,
    ];
    if unsol {
        v.extend([Ev::UnsConfirm(true), Ev::Disable, Ev::EnableAll]);
    }
    v
}

impl Scenario for C13 {
    fn name(&self) -> String {
        self.inner.name.clone()
    }
    fn alphabet(&self) -> Vec<String> {
        self.inner.alphabet.iter().map(|e| format!("{e:?}")).collect()
    }
    fn depth(&self) -> usize {
        self.inner.depth
    }
    fn run(&self, path: &[usize], transcript: bool) -> RunResult {
        let mut res = RunResult::default();
        let mut obs = Hasher::default();
        let cfg = self.inner.cfg();
        let mut d = start_with_iin(&cfg, self.inner.unsol, self.inner.cto);
        for &i in path {
            if let Some(mut v) = d.apply(&self.inner.alphabet[i], &mut res, &mut obs, transcript) {
                // ledger clauses found while checking C13 are reported under C13's name space
                if v.clause.starts_with("C03") {
                    v.clause = v.clause.replace("C03", "C13.L");
                }
                res.violation = Some(v);
                break;
            }
        }
        // one more response so that the final indications are observed
        if res.violation.is_none() {
            if let Some(mut v) = d.apply(&Ev::Other, &mut res, &mut obs, transcript) {
                if v.clause.starts_with("C03") {
                    v.clause = v.clause.replace("C03", "C13.L");
                }
                res.violation = Some(v);
            }
        }
        res.obs = obs.0;
        res.nontrivial = d.ledger.iin.as_ref().map(|m| m.checked >= 2).unwrap_or(false);
        res
    }
}

fn scenarios(tier: &str) -> Vec<C13> {
    let mk = |name: &str, a: Vec<Ev>, depth: usize, unsol: bool, buf: u16, retries: Option<usize>| C13 {
        inner: C03 { name: name.to_string(), alphabet: a, depth, unsol, buf, cto: false, retries, overflow_model: false },
    };
    let mut v = vec![
        mk("poll-d4-buf1", alphabet(false), 4, false, 1, Some(0)),
        mk("unsol-d4-buf1", alphabet(true), 4, true, 1, Some(0)),
        mk("unsol-d3-buf2-retry1", alphabet(true), 3, true, 2, Some(1)),
    ];
    if tier == "thorough" {
        v.push(mk("poll-d5-buf1", alphabet(false), 5, false, 1, Some(0)));
        v.push(mk("unsol-d5-buf1", alphabet(true), 5, true, 1, Some(0)));
        v.push(mk("unsol-d5-buf2-retry1", alphabet(true), 5, true, 2, Some(1)));
        v.push(mk("unsol-reduced-d6-buf1", reduced(true), 6, true, 1, Some(0)));
        v.push(mk("poll-reduced-d7-buf2", reduced(false), 7, false, 2, Some(0)));
    }
    v
}

// ---------------------------------------------------------------------------------------
// the application's four indications, every combination
// ---------------------------------------------------------------------------------------

/// every combination of the four indications the application can raise (need time, local
/// control, device trouble, configuration corrupt) x the kind of response that reports them
/// (null unsolicited response at start-up, answer to a non-READ request, READ answer, data
/// unsolicited response): each bit mirrors the application's answer, independently of the others
pub struct AppIinProduct;

const APP_KINDS: [&str; 4] = ["null-unsolicited", "non-read-answer", "read-answer", "data-unsolicited"];

impl crate::explore::CaseSpace for AppIinProduct {
    fn name(&self) -> String {
        "application-indications".into()
    }
    fn seeded(&self) -> bool {
        true
    }
    fn total(&self) -> usize {
        16 * APP_KINDS.len()
    }
    fn run(&self, index: usize, transcript: bool) -> RunResult {
        use crate::explore::Violation;
        use crate::osim::{OCfg, OSim};
        use crate::wire::app::{self, fc};
        use dnp3::outstation::database::*;
        let mut res = RunResult::default();
        let bits = index % 16;
        let kind = index / 16;
        res.obs = index as u64 + 1313;
        let unsol = kind == 0 || kind == 3;
        let cfg = OCfg { unsolicited: unsol, event_buf: [5; 8], ..Default::default() };
        let mut sim = OSim::new_paused_app(&cfg, 1, |a| {
            a.iin.need_time = bits & 1 != 0;
            a.iin.local_control = bits & 2 != 0;
            a.iin.device_trouble = bits & 4 != 0;
            a.iin.config_corrupt = bits & 8 != 0;
        });
        sim.db(|db| {
            db.add(0, Some(EventClass::Class1), BinaryInputConfig::default());
        });
        let resp: Option<app::Resp> = match kind {
            0 => {
                sim.pump();
                sim.take_out().iter().filter_map(|t| t.frag()).filter_map(app::Resp::parse).find(|r| r.uns())
            }
            1 | 2 => {
                sim.take_out();
                let f = if kind == 1 { app::request(1, fc::DELAY_MEASURE, &[]) } else { app::request(1, fc::READ, &app::hdr_all(60, 1)) };
                sim.send(&f);
                sim.take_out().iter().filter_map(|t| t.frag()).filter_map(app::Resp::parse).find(|r| !r.uns() && r.seq() == 1)
            }
            _ => {
                super::common::null_unsol_handshake(&mut sim);
                sim.send(&app::request(1, fc::ENABLE_UNSOLICITED, &app::class_headers(true, true, true, false)));
                sim.take_out();
                sim.db(|db| {
                    db.update(0, &super::common::binary(true, 1), UpdateOptions::detect_event());
                });
                sim.pump();
                sim.take_out().iter().filter_map(|t| t.frag()).filter_map(app::Resp::parse).find(|r| r.uns())
            }
        };
        res.transitions += 1;
        let key = format!("{}:{}", APP_KINDS[kind], ["need-time", "local-control", "device-trouble", "config-corrupt"].iter().enumerate().filter(|(i, _)| bits & (1 << i) != 0).map(|(_, n)| *n).collect::<Vec<_>>().join("+"));
        if let Some(f) = sim.failure() {
            res.violation = Some(Violation::new("C13.X0", f.clone(), f));
            return res;
        }
        let Some(r) = resp else {
            res.violation = Some(Violation::new("C13.P0", key, "no response observed".to_string()));
            return res;
        };
        if transcript {
            res.transcript.push(format!("application answers {bits:04b} (corrupt, trouble, local, need-time) -> {}", app::hex(&r.raw[..4])));
        }
        let got = ((r.iin1 >> 4) & 1) | (((r.iin1 >> 5) & 1) << 1) | (((r.iin1 >> 6) & 1) << 2) | (((r.iin2 >> 5) & 1) << 3);
        if got as usize != bits {
            res.violation = Some(Violation::new(
                "C13.P1",
                key,
                format!("the application reports (config-corrupt, device-trouble, local-control, need-time) = {bits:04b}; the {} carries {got:04b} (IIN {:02X} {:02X})", APP_KINDS[kind], r.iin1, r.iin2),
            ));
            return res;
        }
        res.nontrivial = true;
        res.model_states.push(index as u64);
        res
    }
}

// ---------------------------------------------------------------------------------------
// clearing the restart indication with any range that covers it
// ---------------------------------------------------------------------------------------

/// WRITE g80v1 with every range [a, b], 0 <= a <= b <= 15, all
/// written bits 0 or all 1: the restart indication is cleared exactly when index 7 is in the
/// range and written as 0, whatever other indices the range names
/// An event series that does not fit one fragment awaits its first confirm with events of a small
/// type (analog or counter, capacity 3) selected but not yet sent; an update then overflows that
/// type and discards the oldest, selected event.  Cases: type (2) x class of the late point (2 / 3)
/// x number of binary events ahead (90 / 100).  Nothing fails; the next fragment reports the
/// overflow; once everything is confirmed and read again the class indications are all clear.
pub struct OverflowDuringSeries;

impl crate::explore::CaseSpace for OverflowDuringSeries {
    fn name(&self) -> String {
        "overflow-of-selected-events-during-a-series".into()
    }
    fn seeded(&self) -> bool {
        true
    }
    fn total(&self) -> usize {
        8
    }
    fn run(&self, index: usize, transcript: bool) -> RunResult {
        use super::common;
        use crate::explore::Violation;
        use crate::osim::{OCfg, OSim};
        use crate::wire::app::{self, fc};
        use dnp3::outstation::database::*;
        let mut res = RunResult::default();
        res.obs = index as u64 + 909090;
        let analog = index % 2 == 0;
        let late_class = if (index / 2) % 2 == 0 { EventClass::Class2 } else { EventClass::Class3 };
        let n_bin: u16 = if index / 4 == 0 { 90 } else { 100 };
        let mut buf = [0u16; 8];
        buf[0] = 120;
        buf[if analog { 5 } else { 3 }] = 3;
        let cfg = OCfg { sol_tx: 249, event_buf: buf, ..Default::default() };
        let mut sim = OSim::new(&cfg, 1);
        sim.db(|db| {
            common::add_binaries(db, n_bin, Some(EventClass::Class1));
            for i in 0..4u16 {
                let class = Some(if i == 3 { late_class } else { EventClass::Class2 });
                if analog {
                    db.add(i, class, AnalogInputConfig::default());
                } else {
                    db.add(i, class, CounterConfig::default());
                }
            }
        });
        sim.db(|db| {
            for i in 0..n_bin {
                db.update(i, &common::binary(true, 10 + i as u64), UpdateOptions::detect_event());
            }
            for i in 0..3u16 {
                if analog {
                    db.update(i, &common::analog(100.0 + i as f64, 500), UpdateOptions::detect_event());
                } else {
                    db.update(i, &common::counter(100 + i as u32, 500), UpdateOptions::detect_event());
                }
            }
        });
        sim.take_out();
        let key = format!("{}-late-{:?}-{}-binaries", if analog { "analog" } else { "counter" }, late_class, n_bin);
        let mut seq = 1u8;
        sim.send(&app::request(seq, fc::READ, &app::class_headers(true, true, true, false)));
        let first: Vec<app::Resp> = sim.take_out().iter().filter_map(|t| t.frag()).filter_map(app::Resp::parse).collect();
        res.transitions += 1;
        if first.len() != 1 || first[0].fin() || !first[0].con() {
            res.violation = Some(Violation::new("C13.S0", "series-prefix-not-reached", format!("{key}: {} fragments", first.len())));
            return res;
        }
        // the late update: the small type is at capacity, its oldest event is selected, not sent
        sim.db(|db| {
            if analog {
                db.update(3, &common::analog(777.0, 900), UpdateOptions::detect_event());
            } else {
                db.update(3, &common::counter(777, 900), UpdateOptions::detect_event());
            }
        });
        if let Some(f) = sim.failure() {
            res.violation = Some(Violation::new("C13.X0", f.clone(), f));
            return res;
        }
        // confirm fragment after fragment; then read and confirm until a READ returns no events
        let mut pending = Some(first[0].seq());
        let mut after_overflow: Option<app::Resp> = None;
        let mut last: Option<app::Resp> = None;
        for _round in 0..12 {
            if let Some(s) = pending.take() {
                sim.send(&app::confirm(s, false));
            } else {
                seq = (seq + 1) & 0x0F;
                sim.send(&app::request(seq, fc::READ, &app::class_headers(true, true, true, false)));
            }
            res.transitions += 1;
            let rs: Vec<app::Resp> = sim.take_out().iter().filter_map(|t| t.frag()).filter_map(app::Resp::parse).collect();
            if let Some(f) = sim.failure() {
                res.violation = Some(Violation::new("C13.X0", f.clone(), f));
                return res;
            }
            for r in rs {
                if transcript {
                    res.transcript.push(format!("<- {} ({} octets)", app::hex(&r.raw[..4]), r.raw.len()));
                }
                if after_overflow.is_none() {
                    after_overflow = Some(r.clone());
                }
                if r.con() {
                    pending = Some(r.seq());
                }
                last = Some(r);
            }
            if pending.is_none() && last.as_ref().map(|r| r.fin() && r.objects.is_empty()).unwrap_or(false) {
                break;
            }
        }
        let Some(next) = after_overflow else {
            res.violation = Some(Violation::new("C13.S1", "series-not-continued", key));
            return res;
        };
        if next.iin2 & app::iin2::EVENT_BUFFER_OVERFLOW == 0 {
            res.violation = Some(Violation::new(
                "C13.S2",
                "overflow-not-reported-in-the-next-fragment",
                format!("{key}: an event was discarded during the confirm wait; next fragment {}", app::hex(&next.raw[..4])),
            ));
            return res;
        }
        let Some(end) = last else {
            res.violation = Some(Violation::new("C13.S1", "series-not-continued", key));
            return res;
        };
        if !end.objects.is_empty() || end.iin1 & 0x0E != 0 {
            res.violation = Some(Violation::new(
                "C13.S3",
                "class-indication-without-events",
                format!("{key}: after everything was read and confirmed: {} ({} object octets)", app::hex(&end.raw[..4]), end.objects.len()),
            ));
            return res;
        }
        res.nontrivial = true;
        res.model_states.push(index as u64);
        res
    }
}

pub struct RestartWrites;

impl crate::explore::CaseSpace for RestartWrites {
    fn name(&self) -> String {
        "restart-bit-writes".into()
    }
    fn seeded(&self) -> bool {
        true
    }
    fn total(&self) -> usize {
        16 * 16 * 2
    }
    fn run(&self, index: usize, transcript: bool) -> RunResult {
        use crate::explore::Violation;
        use crate::osim::{OCfg, OSim};
        use crate::wire::app::{self, fc};
        let mut res = RunResult::default();
        let a = (index % 16) as u8;
        let b = ((index / 16) % 16) as u8;
        let ones = (index / 256) % 2 == 1;
        res.obs = index as u64 + 808080;
        if a > b {
            return res;
        }
        let cfg = OCfg { event_buf: [5; 8], ..Default::default() };
        let mut sim = OSim::new(&cfg, 1);
        sim.take_out();
        let n = (b - a + 1) as usize;
        // (the library supports the 8-bit start/stop form only; it rejects the 16-bit form with an
        // error indication, which is C12's subject)
        let mut objs = vec![80, 1, 0x00, a, b];
        objs.extend(std::iter::repeat(if ones { 0xFFu8 } else { 0 }).take((n + 7) / 8));
        sim.send(&app::request(1, fc::WRITE, &objs));
        let w: Option<app::Resp> = sim.take_out().iter().filter_map(|t| t.frag()).filter_map(app::Resp::parse).find(|r| !r.uns() && r.seq() == 1);
        sim.send(&app::request(2, fc::DELAY_MEASURE, &[]));
        let r: Option<app::Resp> = sim.take_out().iter().filter_map(|t| t.frag()).filter_map(app::Resp::parse).find(|r| !r.uns() && r.seq() == 2);
        res.transitions += 2;
        if let Some(f) = sim.failure() {
            res.violation = Some(Violation::new("C13.X0", f.clone(), f));
            return res;
        }
        let key = format!("write-g80v1-[{a},{b}]-{}", if ones { "ones" } else { "zeros" });
        let (Some(w), Some(r)) = (w, r) else {
            res.violation = Some(Violation::new("C13.W0", key, "request not answered".to_string()));
            return res;
        };
        if transcript {
            res.transcript.push(format!("{key}: WRITE -> {}, then -> {}", app::hex(&w.raw[..4]), app::hex(&r.raw[..4])));
        }
        let cleared = a <= 7 && 7 <= b && !ones;
        for (what, resp) in [("the WRITE's own response", &w), ("the next response", &r)] {
            let restart = resp.iin1 & 0x80 != 0;
            if restart == cleared {
                res.violation = Some(Violation::new(
                    "C13.W1",
                    key,
                    format!("{what} ({}) shows the restart indication {}; index 7 {} written as 0", app::hex(&resp.raw[..4]), if restart { "set" } else { "clear" }, if cleared { "was" } else { "was not" }),
                ));
                return res;
            }
        }
        res.nontrivial = true;
        res.model_states.push(cleared as u64);
        res
    }
}

pub fn replay(scenario: &str, path: &[usize]) -> Option<RunResult> {
    use crate::explore::CaseSpace;
    if scenario == super::c03x::OverflowPerType.name() {
        return Some(super::c03x::OverflowPerType.run(path[0], true));
    }
    if scenario == (super::c03x::Capacities { id: "C13" }).name() {
        return Some(super::c03x::Capacities { id: "C13" }.run(path[0], true));
    }
    if scenario == OverflowDuringSeries.name() {
        return Some(OverflowDuringSeries.run(path[0], true));
    }
    if scenario == RestartWrites.name() {
        return Some(RestartWrites.run(path[0], true));
    }
    if scenario == AppIinProduct.name() {
        return Some(AppIinProduct.run(path[0], true));
    }
    scenarios("thorough").into_iter().find(|s| s.inner.name == scenario).map(|s| s.run(path, true))
}

pub fn check(tier: &str) -> i32 {
    let mut c = Check::new("C13", tier);
    for s in scenarios(tier) {
        c.explore(&s);
    }
    c.cases(&super::c03x::OverflowPerType);
    c.cases(&super::c03x::Capacities { id: "C13" });
    c.cases(&AppIinProduct);
    c.cases(&RestartWrites);
    c.cases(&OverflowDuringSeries);
    c.finish(
        "model_checking",
        "(restart writes) WRITE g80v1 over every range [a, b] within 0..=15, all bits 0 or all 1: the restart indication clears exactly when index 7 is covered and written 0; (application indications) all 16 combinations of the application's need-time / local-control / device-trouble / config-corrupt answers x 4 kinds of response (null unsolicited, non-READ answer, READ answer, data unsolicited): each bit mirrors the answer; (limits differ per type) 16 assignments of the limits 1..8 to the 8 types and 8 with one type switched off, every type filled exactly to its limit: nothing is displaced, everything is delivered, and after the confirmation no class bit and no overflow bit remains; (overflow per type) every ordered pair of the 8 event types (one overflowed, the other holding exactly its limit, one less, or configured to keep no events at all): the overflow bit is reported with the discard, stays after the confirmation exactly if a type is still at capacity, and clears once that type is confirmed too; (histories) every event history over the listed alphabet (C03's alphabet plus broadcasts of the three confirm modes, WRITE of the restart bit to 0 and 1, reconnect, flips of the application's need-time / config-corrupt answers) up to the listed depth, executed on the real OutstationTask; for every first transmission of a response the oracle recomputes IIN1 and IIN2.3/2.5 from the event ledger and the indication model and compares all ten bits; non-trivial = at least two responses were checked; distinct = distinct observation trace",
        &[
            "byte-identical re-sends of the response awaiting confirmation carry the bits of the moment they were built and are exempt",
            "updates are placed at quiescent points (H6 lock-point placements are not built)",
        ],
        serde_json::json!({}),
    )
}
