//! C08 — the transport layer delivers exactly the fragments that were segmented.
//!
//! IN + SM over the real `transport::real::{Writer, Reader}` (link Layer + Assembler) through
//! byte pipes; oracle = reference segmenter / reassembler (wire::transport).

use dnp3::verif::seams::{TransportOut, TransportReaderSeam, TransportWriterSeam};

use crate::explore::{CaseSpace, Check, Hasher, RunResult, Violation};
use crate::wire::link;
use crate::wire::transport::{self, Reassembler, Segment};

const OWN: u16 = 10;
const PEER: u16 = 1;

fn body(n: usize, salt: u8) -> Vec<u8> {
    (0..n).map(|i| (i as u8).wrapping_mul(31).wrapping_add(salt)).collect()
}

fn encode(seg: &Segment) -> Vec<u8> {
    link::frame(link::DIR | link::PRM | link::PRI_UNCONFIRMED_USER_DATA, seg.dst, seg.src, &seg.data)
}

// ---------------------------------------------------------------------------------------
// writer: every length from every starting sequence; reader round trip under chunkings
// ---------------------------------------------------------------------------------------

struct WriterSpace {
    name: String,
    lens: Vec<usize>,
    starts: Vec<u8>,
}

fn build_writer(tier: &str) -> WriterSpace {
    let lens: Vec<usize> = if tier == "quick" {
        let mut v = vec![1usize, 2, 2047, 2048];
        for k in 1..=8 {
            for d in [-1i64, 0, 1] {
                let x = 249 * k as i64 + d;
                if x >= 1 && x <= 2048 {
                    v.push(x as usize);
                }
            }
        }
        // every residue of the link layer's 16-octet CRC blocks (segment data of 15, 16, 17 ... octets),
        // also in the last segment of a longer fragment
        for x in 3..=33usize {
            v.push(x);
            v.push(249 + x);
        }
        v.extend([239, 240, 241]);
        v.sort();
        v.dedup();
        v
    } else {
        (1..=2048).collect()
    };
    let starts: Vec<u8> = if tier == "quick" { vec![0, 1, 55, 56, 62, 63] } else { (0..64).collect() };
    WriterSpace { name: format!("writer-and-round-trip-{tier}"), lens, starts }
}

impl CaseSpace for WriterSpace {
    fn name(&self) -> String {
        self.name.clone()
    }
    fn total(&self) -> usize {
        self.lens.len() * self.starts.len()
    }
    fn run(&self, index: usize, transcript: bool) -> RunResult {
        let mut res = RunResult::default();
        let len = self.lens[index / self.starts.len()];
        let start = self.starts[index % self.starts.len()];
        let frag = body(len, 5);
        let mut w = TransportWriterSeam::new(true, PEER, false);
        // rotate the writer's sequence number with one-byte filler fragments
        for _ in 0..start {
            let _ = w.write(OWN, &[0xEE]);
        }
        let written = match w.write(OWN, &frag) {
            Ok(x) => x,
            Err(e) => {
                res.violation = Some(Violation::new("C08.W0", "writer-error", e));
                return res;
            }
        };
        res.transitions += 1;
        let mut h = Hasher::default();
        h.add_u64(len as u64);
        h.add_u64(start as u64);
        res.obs = h.0;
        // reference segmentation
        let segs = transport::segment(&frag, start);
        let reference: Vec<Vec<u8>> = segs
            .iter()
            .map(|s| link::frame(link::DIR | link::PRM | link::PRI_UNCONFIRMED_USER_DATA, OWN, PEER, s))
            .collect();
        if written != reference {
            let k = written.iter().zip(reference.iter()).position(|(a, b)| a != b).unwrap_or(written.len().min(reference.len()));
            res.violation = Some(Violation::new(
                "C08.W1",
                "segmentation-differs-from-reference",
                format!("fragment of {len} bytes from sequence {start}: {} writes vs {} reference segments; first difference at segment {k}", written.len(), reference.len()),
            ));
            return res;
        }
        // reader: deliver under chunkings, followed by a second fragment
        let tail = body(3, 9);
        let tail_segs = transport::segment(&tail, (start + segs.len() as u8) & 0x3F);
        let mut stream: Vec<u8> = written.concat();
        for s in &tail_segs {
            stream.extend(link::frame(link::DIR | link::PRM | link::PRI_UNCONFIRMED_USER_DATA, OWN, PEER, s));
        }
        let first_len = written[0].len();
        let last_start: usize = written[..written.len() - 1].iter().map(|x| x.len()).sum();
        let mut chunkings: Vec<Vec<usize>> = vec![vec![]];
        // per frame
        let mut acc = 0;
        let mut per_frame = Vec::new();
        for x in &written {
            acc += x.len();
            per_frame.push(acc);
        }
        chunkings.push(per_frame);
        // splits inside the first and the last frame
        for c in (1..first_len).step_by(if first_len > 60 { 7 } else { 1 }) {
            chunkings.push(vec![c]);
        }
        for c in ((last_start + 1)..stream.len()).step_by(if stream.len() - last_start > 60 { 7 } else { 1 }) {
            chunkings.push(vec![c]);
        }
        if len <= 40 || index % 97 == 0 {
            chunkings.push((1..stream.len()).collect());
        }
        for rx in [2048usize] {
            for cuts in &chunkings {
                let mut r = TransportReaderSeam::new(false, OWN, false, true, false, rx, false);
                let mut got = Vec::new();
                let mut prev = 0;
                let mut err = None;
                let mut pts = cuts.clone();
                pts.push(stream.len());
                for p in pts {
                    if p <= prev {
                        continue;
                    }
                    r.handle.push(&stream[prev..p]);
                    prev = p;
                    let (o, e) = r.drain();
                    got.extend(o);
                    if e.is_some() {
                        err = e;
                        break;
                    }
                }
                res.transitions += 1;
                let ok = err.is_none()
                    && got.len() == 2
                    && matches!(&got[0], TransportOut::Fragment { id: 0, src, broadcast: None, data } if *src == PEER && *data == frag)
                    && matches!(&got[1], TransportOut::Fragment { id: 1, src, broadcast: None, data } if *src == PEER && *data == tail);
                if !ok {
                    res.violation = Some(Violation::new(
                        "C08.R1",
                        "fragment-not-delivered-identically",
                        format!("length {len} start sequence {start} chunking {:?}: got {} deliveries, error {err:?}", &cuts[..cuts.len().min(4)], got.len()),
                    ));
                    return res;
                }
            }
        }
        if transcript {
            res.transcript.push(format!("fragment {len} bytes, start sequence {start}: {} segments, {} chunkings", written.len(), chunkings.len()));
        }
        res.model_states.push(((segs.len() as u64) << 8) | start as u64);
        res.nontrivial = true;
        res
    }
}

// ---------------------------------------------------------------------------------------
// mutated segment streams
// ---------------------------------------------------------------------------------------

#[derive(Clone, Debug, PartialEq)]
enum Op {
    Drop(usize),
    Dup(usize),
    Swap(usize),
    Readdress(usize),
    ClearFir,
    SetFir(usize),
    Interleave(usize),
    Overflow,
    BroadcastSeg(usize),
    SkipSeq(usize),
    /// the session is reset (connection lost and re-established) before segment i
    Reset(usize),
    /// a data frame without any user data (LEN = 5, no transport octet) arrives before segment i:
    /// it carries no segment and changes nothing
    EmptyFrame(usize),
}

fn ops_for(n: usize) -> Vec<Op> {
    let mut v = Vec::new();
    // positions: first, second, middle, last (deduplicated) keeps the product finite but covers
    // every structural position
    let mut pos: Vec<usize> = vec![0, 1, n / 2, n.saturating_sub(2), n - 1];
    pos.retain(|p| *p < n);
    pos.sort();
    pos.dedup();
    for &i in &pos {
        v.push(Op::Drop(i));
        v.push(Op::Dup(i));
        if i + 1 < n {
            v.push(Op::Swap(i));
        }
        v.push(Op::Readdress(i));
        if i >= 1 {
            v.push(Op::SetFir(i));
        }
        v.push(Op::Interleave(i));
        v.push(Op::BroadcastSeg(i));
        v.push(Op::SkipSeq(i));
        if i >= 1 {
            v.push(Op::Reset(i));
        }
        v.push(Op::EmptyFrame(i));
    }
    v.push(Op::EmptyFrame(n));
    v.push(Op::ClearFir);
    v.push(Op::Overflow);
    v
}

fn apply(op: &Op, segs: &mut Vec<Segment>, rx: usize) {
    // positions refer to real segments; reset markers (empty data) are skipped
    let real: Vec<usize> = segs.iter().enumerate().filter(|(_, s)| !s.data.is_empty()).map(|(k, _)| k).collect();
    let at = |i: usize| -> usize { real.get(i).copied().unwrap_or(usize::MAX) };
    let op = &match op {
        Op::Drop(i) => Op::Drop(at(*i)),
        Op::Dup(i) => Op::Dup(at(*i)),
        Op::Swap(i) => {
            // swap only two real neighbours
            if at(*i) != usize::MAX && at(*i + 1) == at(*i) + 1 {
                Op::Swap(at(*i))
            } else {
                Op::Swap(usize::MAX - 1)
            }
        }
        Op::Readdress(i) => Op::Readdress(at(*i)),
        Op::SetFir(i) => Op::SetFir(at(*i)),
        Op::BroadcastSeg(i) => Op::BroadcastSeg(at(*i)),
        Op::SkipSeq(i) => Op::SkipSeq(at(*i).min(segs.len())),
        Op::Reset(i) => Op::Reset(at(*i).min(segs.len())),
        Op::EmptyFrame(i) => Op::EmptyFrame(at(*i).min(segs.len())),
        Op::Interleave(i) => Op::Interleave(at(*i).min(segs.len())),
        Op::ClearFir => Op::ClearFir,
        Op::Overflow => Op::Overflow,
    };
    match op {
        Op::Drop(i) => {
            if *i < segs.len() {
                segs.remove(*i);
            }
        }
        Op::Dup(i) => {
            if *i < segs.len() {
                let s = segs[*i].clone();
                segs.insert(*i, s);
            }
        }
        Op::Swap(i) => {
            if *i + 1 < segs.len() {
                segs.swap(*i, *i + 1);
            }
        }
        Op::Readdress(i) => {
            if *i < segs.len() {
                segs[*i].src = 3;
            }
        }
        Op::ClearFir => {
            if let Some(s) = segs.iter_mut().find(|s| !s.data.is_empty()) {
                s.data[0] &= !transport::FIR;
            }
        }
        Op::SetFir(i) => {
            if *i < segs.len() {
                segs[*i].data[0] |= transport::FIR;
            }
        }
        Op::Interleave(i) => {
            let other = transport::segment(&body(300, 77), 20);
            let at = (*i).min(segs.len());
            for (k, d) in other.into_iter().enumerate() {
                segs.insert((at + 2 * k).min(segs.len()), Segment { src: 3, dst: OWN, broadcast: false, data: d });
            }
        }
        Op::Overflow => {
            // continue the series without FIN until it exceeds the receive buffer
            if let Some(last) = segs.iter_mut().rev().find(|s| !s.data.is_empty()) {
                last.data[0] &= !transport::FIN;
                let mut seq = last.data[0] & 0x3F;
                let src = last.src;
                let mut total: usize = segs.iter().filter(|s| !s.data.is_empty()).map(|s| s.data.len() - 1).sum();
                while total <= rx {
                    seq = (seq + 1) & 0x3F;
                    let mut d = vec![seq];
                    d.extend(body(249, 1));
                    total += 249;
                    segs.push(Segment { src, dst: OWN, broadcast: false, data: d });
                }
                seq = (seq + 1) & 0x3F;
                segs.push(Segment { src, dst: OWN, broadcast: false, data: vec![seq | transport::FIN, 1, 2, 3] });
            }
        }
        Op::BroadcastSeg(i) => {
            if *i < segs.len() {
                segs[*i].dst = 0xFFFF;
                segs[*i].broadcast = true;
            }
        }
        Op::Reset(i) => {
            // marker: an empty segment stands for "reset the reader here"
            let at = (*i).min(segs.len());
            segs.insert(at, Segment { src: 0, dst: 0, broadcast: false, data: vec![] });
        }
        Op::EmptyFrame(i) => {
            // marker: an empty segment addressed to the station stands for the empty data frame
            let at = (*i).min(segs.len());
            segs.insert(at, Segment { src: PEER, dst: OWN, broadcast: false, data: vec![] });
        }
        Op::SkipSeq(i) => {
            for s in segs.iter_mut().skip(*i).filter(|s| !s.data.is_empty()) {
                let h = s.data[0];
                s.data[0] = (h & 0xC0) | ((h & 0x3F).wrapping_add(1) & 0x3F);
            }
        }
    }
}

struct Mutations {
    name: String,
    cases: Vec<(usize, usize, Vec<Op>)>, // fragment length, rx buffer, ops
}

fn build_mutations(tier: &str) -> Mutations {
    let lens = [1usize, 249, 250, 498, 747, 2048];
    let rxs = [249usize, 250, 498, 2048];
    let max_ops = if tier == "quick" { 2 } else { 3 };
    let mut cases = Vec::new();
    for &len in &lens {
        let n = (len + 248) / 249;
        let ops = ops_for(n);
        for &rx in &rxs {
            cases.push((len, rx, vec![]));
            for a in &ops {
                cases.push((len, rx, vec![a.clone()]));
                for b in &ops {
                    cases.push((len, rx, vec![a.clone(), b.clone()]));
                    if max_ops >= 3 && (len == 498 || len == 747 || len == 250) {
                        for c in &ops {
                            cases.push((len, rx, vec![a.clone(), b.clone(), c.clone()]));
                        }
                    }
                }
            }
        }
    }
    Mutations { name: format!("mutated-segment-streams-{tier}"), cases }
}

impl CaseSpace for Mutations {
    fn name(&self) -> String {
        self.name.clone()
    }
    fn total(&self) -> usize {
        self.cases.len()
    }
    fn run(&self, index: usize, transcript: bool) -> RunResult {
        let mut res = RunResult::default();
        let (len, rx, ops) = &self.cases[index];
        let frag = body(*len, 5);
        let mut segs: Vec<Segment> = transport::segment(&frag, 60)
            .into_iter()
            .map(|d| Segment { src: PEER, dst: OWN, broadcast: false, data: d })
            .collect();
        for op in ops {
            apply(op, &mut segs, *rx);
        }
        // one clean fragment afterwards
        let tail = body(7, 9);
        for d in transport::segment(&tail, 11) {
            segs.push(Segment { src: PEER, dst: OWN, broadcast: false, data: d });
        }
        // reference
        let mut model = Reassembler::new(*rx);
        let mut expected = Vec::new();
        for s in &segs {
            if s.data.is_empty() && s.dst == OWN {
                continue; // a data frame without user data: no segment
            }
            if s.data.is_empty() {
                model.reset();
                continue;
            }
            if let Some(d) = model.push(s) {
                expected.push((d.src, s.broadcast, d.data));
            }
        }
        // implementation
        let mut r = TransportReaderSeam::new(false, OWN, false, true, false, *rx, false);
        let mut stream = Vec::new();
        let mut out = Vec::new();
        let mut err = None;
        for s in &segs {
            if s.data.is_empty() && s.dst == OWN {
                stream.extend(encode(s));
                continue;
            }
            if s.data.is_empty() {
                r.handle.push(&stream);
                stream.clear();
                let (o, e) = r.drain();
                out.extend(o);
                err = err.or(e);
                r.reset();
                continue;
            }
            stream.extend(encode(s));
        }
        r.handle.push(&stream);
        let (o, e) = r.drain();
        out.extend(o);
        let err = err.or(e);
        res.transitions += segs.len();
        let got: Vec<(u16, bool, Vec<u8>, u32)> = out
            .iter()
            .filter_map(|o| match o {
                TransportOut::Fragment { id, src, broadcast, data } => Some((*src, broadcast.is_some(), data.clone(), *id)),
                _ => None,
            })
            .collect();
        let mut h = Hasher::default();
        h.add_u64(*len as u64 * 10000 + *rx as u64);
        h.add_str(&format!("{ops:?}"));
        res.obs = h.0;
        let describe = |v: &Vec<(u16, bool, Vec<u8>)>| v.iter().map(|x| format!("src {} bcast {} len {}", x.0, x.1, x.2.len())).collect::<Vec<_>>().join("; ");
        let got3: Vec<(u16, bool, Vec<u8>)> = got.iter().map(|g| (g.0, g.1, g.2.clone())).collect();
        if err.is_some() {
            res.violation = Some(Violation::new("C08.M0", "reader-error-on-valid-link-frames", format!("{err:?}")));
        } else if got3 != expected {
            let extra = got3.iter().find(|g| !expected.contains(g));
            let key = match extra {
                Some(_) => "delivered-fragment-the-reference-rejects",
                None => "fragment-the-reference-delivers-was-lost",
            };
            res.violation = Some(Violation::new(
                "C08.M1",
                format!("{key}:{}", ops.iter().map(|o| format!("{o:?}").split('(').next().unwrap().to_string()).collect::<Vec<_>>().join("+")),
                format!("fragment {len} bytes, rx buffer {rx}, ops {ops:?}: delivered [{}] expected [{}]", describe(&got3), describe(&expected)),
            ));
        } else if !got3.last().map(|g| g.2 == tail).unwrap_or(false) {
            res.violation = Some(Violation::new("C08.M2", "clean-fragment-after-damaged-stream-not-delivered", format!("ops {ops:?}")));
        } else if got.windows(2).any(|w| w[1].3 != w[0].3 + 1) {
            res.violation = Some(Violation::new("C08.M3", "fragment-ids-not-consecutive", format!("{:?}", got.iter().map(|g| g.3).collect::<Vec<_>>())));
        }
        if transcript {
            res.transcript.push(format!("fragment {len} bytes, rx {rx}, ops {ops:?}: {} segments", segs.len()));
            res.transcript.push(format!("delivered [{}]", describe(&got3)));
            res.transcript.push(format!("expected  [{}]", describe(&expected)));
        }
        res.model_states.push(expected.len() as u64 * 64 + segs.len().min(63) as u64);
        res.nontrivial = !ops.is_empty();
        res
    }
}

// ---------------------------------------------------------------------------------------
// segments carried by the confirmed link service, with retransmitted frames
// ---------------------------------------------------------------------------------------

/// The peer uses CONFIRMED_USER_DATA (after RESET_LINK_STATES, frame count bit alternating
/// from 1) and repeats one frame with the same frame count bit once or twice (a lost ACK).
/// The repetition is not a new segment: both fragments arrive exactly as sent.
struct ConfirmedService;

const CS_LENS: [usize; 6] = [1, 249, 250, 349, 498, 747];

impl CaseSpace for ConfirmedService {
    fn name(&self) -> String {
        "confirmed-link-service-with-retransmissions".to_string()
    }
    fn total(&self) -> usize {
        // fragment length x (which frame is repeated: none, or index 0..=4 over both fragments) x repeats
        CS_LENS.len() * 6 * 2
    }
    fn run(&self, index: usize, transcript: bool) -> RunResult {
        let mut res = RunResult::default();
        let len = CS_LENS[index % CS_LENS.len()];
        let i = index / CS_LENS.len();
        let which = i % 6; // 0 = none
        let repeats = 1 + (i / 6) % 2;
        res.obs = index as u64 + 484848;
        let frag = body(len, 5);
        let tail = body(3, 9);
        let mut segs = transport::segment(&frag, 7);
        let n_first = segs.len();
        segs.extend(transport::segment(&tail, (7 + n_first as u8) & 0x3F));
        let mut stream: Vec<u8> = link::frame(link::DIR | link::PRM | link::PRI_RESET_LINK_STATES, OWN, PEER, &[]);
        let mut fcb = true;
        let mut repeated = false;
        for (k, sgm) in segs.iter().enumerate() {
            let ctrl = link::DIR | link::PRM | link::FCV | if fcb { link::FCB } else { 0 } | link::PRI_CONFIRMED_USER_DATA;
            let f = link::frame(ctrl, OWN, PEER, sgm);
            stream.extend(&f);
            if which != 0 && k == (which - 1).min(segs.len() - 1) && !repeated {
                repeated = true;
                for _ in 0..repeats {
                    stream.extend(&f);
                }
            }
            fcb = !fcb;
        }
        let mut r = TransportReaderSeam::new(false, OWN, false, true, false, 2048, false);
        r.handle.push(&stream);
        let (got, err) = r.drain();
        res.transitions += segs.len() + repeats;
        if transcript {
            res.transcript.push(format!("fragment of {len} octets in {n_first} confirmed frames + a 3-octet fragment; frame {:?} repeated {repeats}x: {} deliveries, error {err:?}", if which == 0 { None } else { Some((which - 1).min(segs.len() - 1)) }, got.len()));
        }
        let ok = err.is_none()
            && got.len() == 2
            && matches!(&got[0], TransportOut::Fragment { id: 0, src, broadcast: None, data } if *src == PEER && *data == frag)
            && matches!(&got[1], TransportOut::Fragment { id: 1, src, broadcast: None, data } if *src == PEER && *data == tail);
        if !ok {
            res.violation = Some(Violation::new(
                "C08.L1",
                "fragments-carried-by-confirmed-frames-not-delivered-identically",
                format!("length {len}, frame {:?} sent {}x with the same frame count bit: {} deliveries, error {err:?}", if which == 0 { None } else { Some((which - 1).min(segs.len() - 1)) }, repeats + 1, got.len()),
            ));
            return res;
        }
        res.nontrivial = true;
        res.model_states.push((n_first * 8 + which) as u64);
        res
    }
}

// ---------------------------------------------------------------------------------------
// datagram mode: a truncated datagram costs its own fragment only
// ---------------------------------------------------------------------------------------

struct Datagrams;

const DG_LENS: [usize; 4] = [1, 249, 250, 498];
const DG_CUTS: [usize; 7] = [0, 1, 5, 9, 10, 40, usize::MAX];
/// receive buffer sizes for the second part: a whole fragment (every frame of it) in one datagram
const DG_RX: [usize; 7] = [249, 250, 300, 498, 499, 747, 2048];

impl CaseSpace for Datagrams {
    fn name(&self) -> String {
        "datagram-mode-truncated-datagrams".to_string()
    }
    fn total(&self) -> usize {
        DG_LENS.len() * DG_LENS.len() * DG_CUTS.len() + DG_RX.len() * 3
    }
    fn run(&self, index: usize, transcript: bool) -> RunResult {
        let mut res = RunResult::default();
        let base = DG_LENS.len() * DG_LENS.len() * DG_CUTS.len();
        if index >= base {
            // the largest fragment the receiver accepts (and one octet less, and a small one), all
            // of its frames in a single datagram, then a second fragment in another datagram
            let i = index - base;
            let rx = DG_RX[i / 3];
            let len = match i % 3 {
                0 => rx,
                1 => rx - 1,
                _ => 7,
            };
            res.obs = index as u64 + 373737;
            let frag = body(len, 5);
            let tail = body(3, 9);
            let frame = |s: &Vec<u8>| link::frame(link::DIR | link::PRM | link::PRI_UNCONFIRMED_USER_DATA, OWN, PEER, s);
            let mut r = TransportReaderSeam::new(false, OWN, false, false, true, rx, false);
            let mut got = Vec::new();
            let mut err = None;
            let mut seq = 33u8;
            for f in [&frag, &tail] {
                let segs = transport::segment(f, seq);
                seq = (seq + segs.len() as u8) & 0x3F;
                let datagram: Vec<u8> = segs.iter().flat_map(|sgm| frame(sgm)).collect();
                r.handle.push(&datagram);
                let (o, e) = r.drain();
                got.extend(o);
                err = err.or(e);
            }
            res.transitions += 2;
            if transcript {
                res.transcript.push(format!("receive buffer {rx}: a fragment of {len} octets in one datagram, then one of 3 octets: {} deliveries, error {err:?}", got.len()));
            }
            let ok = err.is_none()
                && got.len() == 2
                && matches!(&got[0], TransportOut::Fragment { src, broadcast: None, data, .. } if *src == PEER && *data == frag)
                && matches!(&got[1], TransportOut::Fragment { src, broadcast: None, data, .. } if *src == PEER && *data == tail);
            if !ok {
                res.violation = Some(Violation::new(
                    "C08.D2",
                    "fragment-sent-in-one-datagram-not-delivered",
                    format!("receive buffer {rx}, fragment of {len} octets in one datagram: {} deliveries, error {err:?}", got.len()),
                ));
                return res;
            }
            res.nontrivial = true;
            res.model_states.push((rx * 4 + i % 3) as u64);
            return res;
        }
        let lost_len = DG_LENS[index % DG_LENS.len()];
        let i = index / DG_LENS.len();
        let len = DG_LENS[i % DG_LENS.len()];
        let cut = DG_CUTS[(i / DG_LENS.len()) % DG_CUTS.len()];
        res.obs = index as u64 + 373737;
        let lost = body(lost_len, 3);
        let frag = body(len, 5);
        let tail = body(3, 9);
        let frame = |s: &Vec<u8>| link::frame(link::DIR | link::PRM | link::PRI_UNCONFIRMED_USER_DATA, OWN, PEER, s);
        let mut r = TransportReaderSeam::new(false, OWN, false, false, true, 2048, false);
        let mut got = Vec::new();
        let mut err = None;
        let mut feed = |r: &mut TransportReaderSeam, bytes: &[u8], got: &mut Vec<TransportOut>, err: &mut Option<String>| {
            r.handle.push(bytes);
            let (o, e) = r.drain();
            got.extend(o);
            if e.is_some() && err.is_none() {
                *err = e;
            }
        };
        // a datagram that ends inside the first frame of a fragment (cut 0 = nothing is lost)
        if cut != 0 {
            let first = frame(&transport::segment(&lost, 0)[0]);
            let n = if cut == usize::MAX { first.len() - 1 } else { cut.min(first.len() - 1) };
            feed(&mut r, &first[..n], &mut got, &mut err);
        }
        let mut seq = 20u8;
        for f in [&frag, &tail] {
            let segs = transport::segment(f, seq);
            seq = (seq + segs.len() as u8) & 0x3F;
            for sgm in &segs {
                feed(&mut r, &frame(sgm), &mut got, &mut err);
            }
        }
        res.transitions += 3;
        if transcript {
            res.transcript.push(format!("datagram cut after {cut} octets of a {lost_len}-octet fragment's first frame, then fragments of {len} and 3 octets, one frame per datagram: {} deliveries, error {err:?}", got.len()));
        }
        let ok = err.is_none()
            && got.len() == 2
            && matches!(&got[0], TransportOut::Fragment { src, broadcast: None, data, .. } if *src == PEER && *data == frag)
            && matches!(&got[1], TransportOut::Fragment { src, broadcast: None, data, .. } if *src == PEER && *data == tail);
        if !ok {
            res.violation = Some(Violation::new(
                "C08.D1",
                "fragments-after-a-truncated-datagram-not-delivered",
                format!("datagram cut after {cut} octets, then fragments of {len} and 3 octets: {} deliveries, error {err:?}", got.len()),
            ));
            return res;
        }
        res.nontrivial = true;
        res.model_states.push((len * 8 + (cut.min(7))) as u64);
        res
    }
}

// ---------------------------------------------------------------------------------------
// stream mode, discard: a frame cut right after its header, then fragments
// ---------------------------------------------------------------------------------------

/// A read ends right after the header of a frame whose body never arrives (serial line noise,
/// `LinkErrorMode::Discard`); the following reads carry well-formed fragments.  Lost payload {1, 20}
/// x fragment length {30, 249, 250, 498} x {one frame per read, every frame of the fragment in
/// one read}: only the cut frame is lost, both fragments that follow are delivered as sent.
struct CutAfterHeader;

const CH_LOST: [usize; 2] = [1, 20];
const CH_LENS: [usize; 4] = [30, 249, 250, 498];

impl CaseSpace for CutAfterHeader {
    fn name(&self) -> String {
        "stream-discard-frame-cut-after-its-header".to_string()
    }
    fn total(&self) -> usize {
        CH_LOST.len() * CH_LENS.len() * 2
    }
    fn run(&self, index: usize, transcript: bool) -> RunResult {
        let mut res = RunResult::default();
        let lost_len = CH_LOST[index % 2];
        let len = CH_LENS[(index / 2) % 4];
        let per_frame = index / 8 == 0;
        res.obs = index as u64 + 383838;
        let frag = body(len, 5);
        let tail = body(3, 9);
        let frame = |s: &Vec<u8>| link::frame(link::DIR | link::PRM | link::PRI_UNCONFIRMED_USER_DATA, OWN, PEER, s);
        let mut r = TransportReaderSeam::new(false, OWN, false, false, false, 2048, false);
        let mut got = Vec::new();
        let mut err = None;
        let mut feed = |r: &mut TransportReaderSeam, bytes: &[u8], got: &mut Vec<TransportOut>, err: &mut Option<String>| {
            r.handle.push(bytes);
            let (o, e) = r.drain();
            got.extend(o);
            if e.is_some() && err.is_none() {
                *err = e;
            }
        };
        let cut = frame(&transport::segment(&body(lost_len, 3), 0)[0]);
        feed(&mut r, &cut[..10], &mut got, &mut err);
        let mut seq = 20u8;
        for f in [&frag, &tail] {
            let segs = transport::segment(f, seq);
            seq = (seq + segs.len() as u8) & 0x3F;
            if per_frame {
                for sgm in &segs {
                    feed(&mut r, &frame(sgm), &mut got, &mut err);
                }
            } else {
                let all: Vec<u8> = segs.iter().flat_map(|sgm| frame(sgm)).collect();
                feed(&mut r, &all, &mut got, &mut err);
            }
        }
        res.transitions += 3;
        if transcript {
            res.transcript.push(format!("header of a frame with {lost_len} payload octets, then fragments of {len} and 3 octets ({}): {} deliveries, error {err:?}", if per_frame { "one frame per read" } else { "one fragment per read" }, got.len()));
        }
        let ok = err.is_none()
            && got.len() == 2
            && matches!(&got[0], TransportOut::Fragment { src, broadcast: None, data, .. } if *src == PEER && *data == frag)
            && matches!(&got[1], TransportOut::Fragment { src, broadcast: None, data, .. } if *src == PEER && *data == tail);
        if !ok {
            res.violation = Some(Violation::new(
                "C08.D3",
                "fragments-after-a-frame-cut-after-its-header-not-delivered",
                format!("lost payload {lost_len}, fragment {len}, per-frame reads {per_frame}: {} deliveries, error {err:?}", got.len()),
            ));
            return res;
        }
        res.nontrivial = true;
        res.model_states.push(index as u64);
        res
    }
}

/// The session layer may look at a completed fragment, keep it and call `read` again before it
/// takes it (a request retained during a confirm wait).  Two fragments (lengths from the list, all
/// ordered pairs) and a third, all bytes available at once: with an extra `read` between every
/// completed `read` and `pop`, each fragment is still delivered once, in order.
struct RetainedFragment;

const RF_LENS: [usize; 4] = [1, 249, 250, 498];

impl CaseSpace for RetainedFragment {
    fn name(&self) -> String {
        "fragment-kept-across-a-further-read".to_string()
    }
    fn total(&self) -> usize {
        RF_LENS.len() * RF_LENS.len()
    }
    fn run(&self, index: usize, transcript: bool) -> RunResult {
        let mut res = RunResult::default();
        res.obs = index as u64 + 393939;
        let a = body(RF_LENS[index % 4], 5);
        let b = body(RF_LENS[index / 4], 6);
        let tail = body(3, 9);
        let mut r = TransportReaderSeam::new(false, OWN, false, true, false, 2048, false);
        r.read_again_before_pop = true;
        let mut stream = Vec::new();
        let mut seq = 7u8;
        for f in [&a, &b, &tail] {
            let segs = transport::segment(f, seq);
            seq = (seq + segs.len() as u8) & 0x3F;
            for sgm in &segs {
                stream.extend(link::frame(link::DIR | link::PRM | link::PRI_UNCONFIRMED_USER_DATA, OWN, PEER, sgm));
            }
        }
        r.handle.push(&stream);
        let (got, err) = r.drain();
        res.transitions += 3;
        let datas: Vec<Vec<u8>> = got.iter().filter_map(|o| if let TransportOut::Fragment { data, .. } = o { Some(data.clone()) } else { None }).collect();
        if transcript {
            res.transcript.push(format!("fragments of {}, {} and 3 octets, a further read before every pop: delivered {:?}, error {err:?}", a.len(), b.len(), datas.iter().map(|d| d.len()).collect::<Vec<_>>()));
        }
        if err.is_some() || datas != vec![a.clone(), b.clone(), tail] {
            res.violation = Some(Violation::new(
                "C08.K1",
                "fragment-lost-or-replaced-by-a-further-read-before-it-was-taken",
                format!("fragments of {}, {} and 3 octets: delivered lengths {:?}, error {err:?}", a.len(), b.len(), datas.iter().map(|d| d.len()).collect::<Vec<_>>()),
            ));
            return res;
        }
        res.nontrivial = true;
        res.model_states.push(index as u64);
        res
    }
}

pub fn replay(name: &str, path: &[usize]) -> Option<RunResult> {
    for tier in ["quick", "thorough"] {
        let w = build_writer(tier);
        if w.name == name {
            return Some(w.run(path[0], true));
        }
        let m = build_mutations(tier);
        if m.name == name {
            return Some(m.run(path[0], true));
        }
    }
    if ConfirmedService.name() == name {
        return Some(ConfirmedService.run(path[0], true));
    }
    if RetainedFragment.name() == name {
        return Some(RetainedFragment.run(path[0], true));
    }
    if CutAfterHeader.name() == name {
        return Some(CutAfterHeader.run(path[0], true));
    }
    if Datagrams.name() == name {
        return Some(Datagrams.run(path[0], true));
    }
    None
}

pub fn check(tier: &str) -> i32 {
    let mut c = Check::new("C08", tier);
    c.cases(&build_writer(tier));
    c.cases(&build_mutations(tier));
    c.cases(&ConfirmedService);
    c.cases(&Datagrams);
    c.cases(&CutAfterHeader);
    c.cases(&RetainedFragment);
    c.finish(
        "model_checking",
        "writer: fragment lengths (every multiple of 249 +-1, 1..=33, 250..=282, 239..=241, 2047, 2048 quick; every length 1..=2048 thorough) x starting transport sequence numbers (6 quick incl. the wrap; all 64 thorough), output compared byte for byte with the reference segmenter and fed to the real transport Reader (link Layer + Assembler) whole, per frame, split inside the first and last frame and bytewise; reader: all applications of <= 2 (3 for 250/498/747-byte fragments in the thorough tier) operators from {drop, duplicate, swap, re-address, clear FIR, set FIR, interleave a second sender, overflow the buffer, turn a segment into a broadcast, skip a sequence number, reset the session before a segment} at the structural positions of the segment streams of fragments of 1/249/250/498/747/2048 bytes into receive buffers 249/250/498/2048, each followed by a clean fragment; deliveries must equal the reference reassembler's exactly (bytes, source, broadcast class) with consecutive fragment ids; confirmed link service: fragments of 1/249/250/349/498/747 octets in CONFIRMED_USER_DATA frames after a link reset, one frame repeated once or twice with the same frame count bit; datagram mode: a datagram cut inside a frame (7 cut points) followed by two fragments, one frame per datagram; non-trivial = at least one operator applied or a multi-chunk round trip; distinct = distinct input",
        &["operators are applied at the first, second, middle, last-but-one and last segment"],
        serde_json::json!({}),
    )
}
