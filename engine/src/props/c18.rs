//! C18 — time synchronisation sets the outstation's clock to the master's.
//!
//! PAIR: real MasterTask and real OutstationTask on one virtual clock; the driver holds every
//! frame for a scripted one-way delay; the master clock is base + virtual now.

use std::time::Duration;

use dnp3::app::Timeout;
use dnp3::master::*;

use super::common::ideal_reply;
use crate::explore::{CaseSpace, Check, Hasher, RunResult, Violation};
use crate::msim::{MCb, MCfg, MSim, OUTSTATION_ADDR};
use crate::osim::{Cb, OCfg};
use crate::psim::Pair;
use crate::wire::app::{self, fc};
use crate::wire::{link, transport};

const MAX48: u64 = (1u64 << 48) - 1;
const DELAYS: [u64; 6] = [0, 1, 2, 7, 65535, 65536];
const PROCS: [u64; 5] = [0, 1, 2, 7, 65535];

#[derive(Copy, Clone, Debug, PartialEq, Eq)]
enum Variant {
    Honest,
    /// the outstation reports a processing delay larger than the round trip
    DishonestDelay,
    /// NEED_TIME stays set after the write
    NeedTimePersists,
}

fn procedure(k: usize) -> TimeSyncProcedure {
    match k {
        0 => TimeSyncProcedure::Lan,
        1 => TimeSyncProcedure::NonLan,
        _ => TimeSyncProcedure::DirectWriteAbsTime,
    }
}

struct Timing {
    cases: Vec<(u64, u64, u64, u64, usize, Variant, u8)>, // d_f, d_b, p, base, procedure, variant, interleave
}

fn build_timing(tier: &str) -> Timing {
    let mut cases = Vec::new();
    for &df in &DELAYS {
        for &db in &DELAYS {
            for &p in &PROCS {
                let total = df + db + p;
                // the last base makes the master's clock still fit 48 bits at the instant of the
                // write while clock + propagation delay does not (non-LAN): must be a failure
                let bases = [0u64, 1, 1 << 47, MAX48 - 3 * total - 100, MAX48 - 1, MAX48 - total - (df + db) / 4];
                for (bi, &base) in bases.iter().enumerate() {
                    if bi == 5 && df + db < 4 {
                        continue;
                    }
                    for proc_ in 0..3 {
                        for v in [Variant::Honest, Variant::DishonestDelay, Variant::NeedTimePersists] {
                            if v == Variant::DishonestDelay && proc_ != 1 {
                                continue;
                            }
                            if v != Variant::Honest && (bi != 0 || (tier == "quick" && (df > 7 || db > 7))) {
                                continue;
                            }
                            if tier == "quick" && bi >= 2 && !(df <= 2 && db <= 2 && p <= 1) && !(df == 65536 && db == 7 && p == 2) && !(bi == 5 && df <= 7 && db <= 7 && p <= 1) {
                                continue;
                            }
                            cases.push((df, db, p, base, proc_, v, 0));
                            // interleaved traffic at every protocol step
                            if v == Variant::Honest && bi == 0 && df <= 7 && db <= 7 && p <= 2 && (tier != "quick" || (df == 2 && db == 7)) {
                                for il in 1..=9u8 {
                                    cases.push((df, db, p, base, proc_, v, il));
                                }
                            }
                        }
                    }
                }
            }
        }
    }
    Timing { cases }
}

/// frames forged by the driver in the outstation's name (unrelated traffic)
fn forged(kind: u8, seq_hint: u8) -> Vec<u8> {
    let from = crate::psim::OUTSTATION;
    let to = crate::psim::MASTER;
    match kind {
        0 => {
            // unsolicited null response (without CON, so that nothing has to be confirmed)
            let f = app::response(app::ctrl(true, true, false, true, 5), fc::UNSOLICITED_RESPONSE, 0, 0, &[]);
            let seg = transport::segment(&f, 50);
            link::outstation_data(to, from, &seg[0])
        }
        1 => {
            // a solicited response with a stale sequence number
            let f = app::response(app::ctrl(true, true, false, false, (seq_hint + 7) & 0x0F), fc::RESPONSE, 0, 0, &[]);
            let seg = transport::segment(&f, 51);
            link::outstation_data(to, from, &seg[0])
        }
        _ => link::frame(link::PRM | link::PRI_REQUEST_LINK_STATUS, to, from, &[]),
    }
}

impl CaseSpace for Timing {
    fn name(&self) -> String {
        "paired-timing".to_string()
    }
    fn seeded(&self) -> bool {
        true
    }
    fn total(&self) -> usize {
        self.cases.len()
    }
    fn run(&self, index: usize, transcript: bool) -> RunResult {
        let (df, db, p, base, proc_k, variant, interleave) = self.cases[index];
        let mut res = RunResult::default();
        let mut h = Hasher::default();
        h.add_u64(index as u64);
        res.obs = h.0;
        let ocfg = OCfg { keep_alive_ms: None, ..Default::default() };
        let mut pair = Pair::new(&ocfg, 2048, true, 1000, 1);
        {
            let mut a = pair.app.lock().unwrap();
            a.iin.need_time = true;
            a.clear_need_time_on_write = variant != Variant::NeedTimePersists;
            a.processing_delay_ms = if variant == Variant::DishonestDelay { ((df + db + p + 1).min(65535)) as u16 } else { p as u16 };
        }
        if variant == Variant::DishonestDelay && df + db + p + 1 > 65535 {
            return res; // cannot be expressed in the 16-bit delay object
        }
        *pair.clock.base_ms.lock().unwrap() = Some(base);
        let mut cfg = AssociationConfig::quiet();
        cfg.response_timeout = Timeout::from_duration(Duration::from_secs(900)).unwrap();
        let Some(mut assoc) = pair.add_association(cfg) else {
            res.violation = Some(Violation::new("C18.P0", "setup", "add_association".to_string()));
            return res;
        };
        pair.delay_m2o = df;
        pair.delay_o2m = db + p;
        pair.take_mcb();
        pair.take_ocb();
        let proc_ = procedure(proc_k);
        pair.call("sync", async move { assoc.synchronize_time(proc_).await });
        pair.pump();
        // step from delivery to delivery
        let mut written: Vec<(u64, u64)> = Vec::new(); // (virtual time, value handed to the application)
        let mut done: Vec<String> = Vec::new();
        let mut steps = 0usize;
        let mut injected = 0u8;
        for _ in 0..64 {
            for c in pair.take_ocb() {
                if let Cb::WriteAbsTime(v) = c {
                    written.push((pair.k.now_ms(), v));
                }
            }
            for c in pair.take_mcb() {
                if let MCb::Done(n, r) = c {
                    if n == "sync" {
                        done.push(r);
                    }
                }
            }
            // unrelated traffic: kind (interleave-1)%3 injected at phase (interleave-1)/3
            if interleave > 0 && injected == 0 {
                let phase = (interleave - 1) / 3;
                if steps as u8 == phase {
                    injected = 1;
                    let f = forged((interleave - 1) % 3, steps as u8);
                    pair.inject(true, &f);
                }
            }
            if !done.is_empty() {
                break;
            }
            let Some(next) = pair.flights.iter().map(|f| f.deliver_at).min() else { break };
            pair.advance_to(next);
            steps += 1;
            res.transitions += 1;
        }
        if done.is_empty() {
            // give timers a chance (response timeout)
            pair.advance(901_000);
            for c in pair.take_mcb() {
                if let MCb::Done(n, r) = c {
                    if n == "sync" {
                        done.push(r);
                    }
                }
            }
        }
        if transcript {
            res.transcript.push(format!("d_f={df} d_b={db} p={p} base={base} {proc_:?} {variant:?} interleave={interleave}"));
            res.transcript.push(format!("write_absolute_time calls (t, value): {written:?}"));
            res.transcript.push(format!("result: {done:?}"));
            for (t, w) in &pair.m_written {
                res.transcript.push(format!("  master wrote t={t} {}", app::hex(&w[..w.len().min(40)])));
            }
            for (t, w) in &pair.o_written {
                res.transcript.push(format!("  outstation wrote t={t} {}", app::hex(&w[..w.len().min(40)])));
            }
        }
        if let Some(f) = pair.failure() {
            res.violation = Some(Violation::new("C18.X0", f.clone(), f));
            return res;
        }
        if done.len() != 1 {
            res.violation = Some(Violation::new("C18.U1", "synchronisation-not-resolved-exactly-once", format!("{} outcomes", done.len())));
            return res;
        }
        let ok = done[0].starts_with("Ok");
        let tag = format!("{proc_:?}");
        if ok {
            // the time handed to the application equals the master clock at that instant within the bound
            if written.len() != 1 {
                res.violation = Some(Violation::new(
                    "C18.A0",
                    format!("success-without-exactly-one-write:{tag}"),
                    format!("{} write_absolute_time calls", written.len()),
                ));
                return res;
            }
            let (tw, v) = written[0];
            let master_clock = base + tw;
            let err = (v as i128 - master_clock as i128).unsigned_abs() as u64;
            let bound = match proc_k {
                0 => df,
                1 => {
                    let a = if df > db { df - db } else { db - df };
                    if a == 0 {
                        0
                    } else {
                        a
                    }
                }
                _ => df,
            };
            if err > bound {
                res.violation = Some(Violation::new(
                    "C18.A1",
                    format!("clock-error-exceeds-bound:{tag}"),
                    format!("d_f={df} d_b={db} p={p} base={base}: wrote {v} at t={tw} (master clock {master_clock}), error {err} ms > bound {bound} ms"),
                ));
                return res;
            }
            if v > MAX48 {
                res.violation = Some(Violation::new("C18.A2", format!("success-although-time-exceeds-48-bits:{tag}"), format!("wrote {v}, master clock {master_clock}")));
                return res;
            }
            if variant != Variant::Honest {
                res.violation = Some(Violation::new(
                    "C18.F1",
                    format!("success-reported-although-{variant:?}:{tag}"),
                    format!("d_f={df} d_b={db} p={p}: {}", done[0]),
                ));
                return res;
            }
        } else {
            // failure in ideal conditions is a defect too
            let would_fit = base + 2 * (df + db + p) + 10 <= MAX48;
            if variant == Variant::Honest && would_fit {
                res.violation = Some(Violation::new(
                    "C18.L1",
                    format!("failure-in-ideal-conditions:{tag}"),
                    format!("d_f={df} d_b={db} p={p} base={base} interleave={interleave}: {}", done[0]),
                ));
                return res;
            }
        }
        res.model_states.push(proc_k as u64 * 8 + variant as u64 * 2 + ok as u64);
        res.nontrivial = !written.is_empty();
        res
    }
}

// ---------------------------------------------------------------------------------------
// an attempt that is abandoned half-way (a message is lost), then a complete one
// ---------------------------------------------------------------------------------------

/// The k-th message of the first attempt is lost, the master times out; after a pause a second
/// attempt runs over an ideal network.  Whatever the first attempt left behind in either
/// endpoint, a second attempt that reports success obeys the same error bound.
struct Repeated;

const R_DELAYS: [(u64, u64); 3] = [(0, 0), (7, 2), (50, 50)];
const R_GAPS: [u64; 3] = [0, 3_000, 70_000];

impl CaseSpace for Repeated {
    fn name(&self) -> String {
        "abandoned-then-repeated".to_string()
    }
    fn seeded(&self) -> bool {
        true
    }
    fn total(&self) -> usize {
        3 * 4 * R_DELAYS.len() * R_GAPS.len() * 2
    }
    fn run(&self, index: usize, transcript: bool) -> RunResult {
        let mut res = RunResult::default();
        let proc_k = index % 3;
        let i = index / 3;
        let lost = 1 + i % 4;
        let i = i / 4;
        let (df, db) = R_DELAYS[i % R_DELAYS.len()];
        let i = i / R_DELAYS.len();
        let gap = R_GAPS[i % R_GAPS.len()];
        let second_proc = if (i / R_GAPS.len()) % 2 == 0 { proc_k } else { (proc_k + 1) % 3 };
        res.obs = index as u64 + 181818;
        let base = 1_600_000_000_000u64;
        let ocfg = OCfg { keep_alive_ms: None, ..Default::default() };
        let mut pair = Pair::new(&ocfg, 2048, true, 1000, 1);
        {
            let mut a = pair.app.lock().unwrap();
            a.iin.need_time = true;
            a.clear_need_time_on_write = true;
            a.processing_delay_ms = 3;
        }
        *pair.clock.base_ms.lock().unwrap() = Some(base);
        let mut cfg = AssociationConfig::quiet();
        cfg.response_timeout = Timeout::from_duration(Duration::from_secs(2)).unwrap();
        let Some(assoc) = pair.add_association(cfg) else {
            return res;
        };
        pair.delay_m2o = df;
        pair.delay_o2m = db + 3;
        pair.take_mcb();
        pair.take_ocb();
        let mut written: Vec<(u64, u64)> = Vec::new();
        let mut outcomes: Vec<(String, String)> = Vec::new();
        let mut collect = |pair: &mut Pair, written: &mut Vec<(u64, u64)>, outcomes: &mut Vec<(String, String)>| {
            for c in pair.take_ocb() {
                if let Cb::WriteAbsTime(v) = c {
                    written.push((pair.k.now_ms(), v));
                }
            }
            for c in pair.take_mcb() {
                if let MCb::Done(n, r) = c {
                    outcomes.push((n, r));
                }
            }
        };
        // first attempt: the `lost`-th message in flight disappears
        {
            let mut a = assoc.clone();
            let p = procedure(proc_k);
            pair.call("first", async move { a.synchronize_time(p).await });
        }
        pair.pump();
        let mut deliveries = 0usize;
        for _ in 0..32 {
            collect(&mut pair, &mut written, &mut outcomes);
            if outcomes.iter().any(|o| o.0 == "first") {
                break;
            }
            if pair.flights.is_empty() {
                // nothing in flight: wait for the response timeout
                pair.advance(2_100);
                continue;
            }
            deliveries += 1;
            if deliveries == lost {
                pair.flights.clear();
                continue;
            }
            let next = pair.flights.iter().map(|f| f.deliver_at).min().unwrap();
            pair.advance_to(next);
            res.transitions += 1;
        }
        collect(&mut pair, &mut written, &mut outcomes);
        let first_writes = written.len();
        pair.advance(gap);
        // second attempt over an ideal network
        let t2 = pair.k.now_ms();
        {
            let mut a = assoc.clone();
            let p = procedure(second_proc);
            pair.call("second", async move { a.synchronize_time(p).await });
        }
        pair.pump();
        for _ in 0..32 {
            collect(&mut pair, &mut written, &mut outcomes);
            if outcomes.iter().any(|o| o.0 == "second") {
                break;
            }
            match pair.flights.iter().map(|f| f.deliver_at).min() {
                Some(next) => pair.advance_to(next),
                None => pair.advance(2_100),
            }
            res.transitions += 1;
        }
        collect(&mut pair, &mut written, &mut outcomes);
        if transcript {
            res.transcript.push(format!("first {:?} (message {lost} lost), pause {gap} ms, second {:?} at t={t2}; d_f={df} d_b={db}", procedure(proc_k), procedure(second_proc)));
            res.transcript.push(format!("write_absolute_time (t, value): {written:?}"));
            res.transcript.push(format!("outcomes: {outcomes:?}"));
        }
        if let Some(f) = pair.failure() {
            res.violation = Some(Violation::new("C18.X0", f.clone(), f));
            return res;
        }
        let tag = format!("{:?}-after-abandoned-{:?}", procedure(second_proc), procedure(proc_k));
        let second: Vec<&String> = outcomes.iter().filter(|o| o.0 == "second").map(|o| &o.1).collect();
        if second.len() != 1 {
            res.violation = Some(Violation::new("C18.U1", "synchronisation-not-resolved-exactly-once", format!("second attempt: {} outcomes", second.len())));
            return res;
        }
        if second[0].starts_with("Ok") {
            let w: Vec<&(u64, u64)> = written.iter().skip(first_writes).collect();
            if w.len() != 1 {
                res.violation = Some(Violation::new("C18.A0", format!("success-without-exactly-one-write:{tag}"), format!("{} writes during the second attempt", w.len())));
                return res;
            }
            let (tw, v) = *w[0];
            let clock = base + tw;
            let err = (v as i128 - clock as i128).unsigned_abs() as u64;
            let bound = match second_proc {
                1 => df.abs_diff(db),
                _ => df,
            };
            if err > bound {
                res.violation = Some(Violation::new(
                    "C18.A1",
                    format!("clock-error-exceeds-bound:{tag}"),
                    format!("message {lost} of the first attempt lost, pause {gap} ms, d_f={df} d_b={db}: second attempt wrote {v} at t={tw} (master clock {clock}), error {err} ms > bound {bound} ms"),
                ));
                return res;
            }
            res.nontrivial = true;
        } else {
            res.violation = Some(Violation::new("C18.L1", format!("failure-in-ideal-conditions:{tag}"), format!("second attempt over an ideal network: {}", second[0])));
            return res;
        }
        res.model_states.push((proc_k * 16 + lost * 3 + second_proc) as u64 + 500);
        res
    }
}

// ---------------------------------------------------------------------------------------
// master-side failure conditions with a scripted outstation
// ---------------------------------------------------------------------------------------

struct Replies;

const REPLY_VARIANTS: usize = 10; // (ninth and tenth: the ideal reply, but from a link address that is not associated / from the other association) (the eighth: the coarse delay object g52v1 in place of g52v2) ideal, unexpected objects, IIN2 error, NEED_TIME in final reply, empty where an object is expected, two delay objects in one header, a second delay header

impl CaseSpace for Replies {
    fn name(&self) -> String {
        "scripted-replies".to_string()
    }
    fn seeded(&self) -> bool {
        true
    }
    fn total(&self) -> usize {
        3 * 2 * REPLY_VARIANTS
    }
    fn run(&self, index: usize, transcript: bool) -> RunResult {
        let mut res = RunResult::default();
        res.obs = index as u64 + 181818;
        let proc_k = index % 3;
        let at_step = (index / 3) % 2;
        let variant = index / 6;
        let mut sim = MSim::new(&MCfg::default(), 1);
        let Some(mut a) = sim.add_association(OUTSTATION_ADDR, AssociationConfig::quiet()) else {
            res.violation = Some(Violation::new("C18.P0", "setup", "add_association".to_string()));
            return res;
        };
        if variant == 9 {
            sim.add_association(OUTSTATION_ADDR + 1, AssociationConfig::quiet());
        }
        sim.take_out();
        sim.take_cb();
        let proc_ = procedure(proc_k);
        sim.call("sync", async move { a.synchronize_time(proc_).await });
        let n_steps = if proc_k == 2 { 1 } else { 2 };
        let mut reply_from: Option<u16> = None;
        let mut applied = false;
        for step in 0..n_steps {
            let reqs: Vec<Vec<u8>> = sim.take_out().iter().filter_map(|t| t.frag()).filter(|f| f[1] != fc::CONFIRM).map(|f| f.to_vec()).collect();
            let Some(req) = reqs.first() else { break };
            let is_last = step == n_steps - 1;
            let mut r = ideal_reply(req, if is_last { 0 } else { app::iin1::NEED_TIME });
            if step == at_step.min(n_steps - 1) {
                match variant {
                    0 => {}
                    1 => {
                        r.extend_from_slice(&[30, 1, 0x00, 0, 0, 1, 0, 0, 0, 0]);
                        applied = true;
                    }
                    2 => {
                        r[3] |= app::iin2::PARAMETER_ERROR;
                        applied = true;
                    }
                    3 => {
                        if is_last {
                            r[2] |= app::iin1::NEED_TIME;
                            applied = true;
                        }
                    }
                    4 => {
                        if req[1] == fc::DELAY_MEASURE {
                            r.truncate(4);
                            applied = true;
                        }
                    }
                    5 => {
                        // one g52v2 header carrying two delay objects
                        if req[1] == fc::DELAY_MEASURE {
                            r.truncate(4);
                            r.extend_from_slice(&[52, 2, 0x07, 2, 100, 0, 0, 0]);
                            applied = true;
                        }
                    }
                    6 => {
                        // the delay object twice, in two headers
                        if req[1] == fc::DELAY_MEASURE {
                            r.extend_from_slice(&[52, 2, 0x07, 1, 0, 0]);
                            applied = true;
                        }
                    }
                    8 => {
                        reply_from = Some(77);
                        applied = true;
                    }
                    9 => {
                        reply_from = Some(OUTSTATION_ADDR + 1);
                        applied = true;
                    }
                    _ => {
                        // the *coarse* delay object (seconds) where the fine one (milliseconds) is required
                        if req[1] == fc::DELAY_MEASURE {
                            r.truncate(4);
                            r.extend_from_slice(&[52, 1, 0x07, 1, 1, 0]);
                            applied = true;
                        }
                    }
                }
            }
            if transcript {
                res.transcript.push(format!("step {step}: request {} reply {}", app::hex(req), app::hex(&r)));
            }
            if variant >= 5 {
                // a round trip longer than the delay the reply reports
                sim.advance(300);
            }
            match reply_from.take() {
                // the expected reply, but another station sends it: not an answer to this request
                Some(src) => sim.respond_from(src, &r),
                None => sim.respond(&r),
            }
            res.transitions += 1;
        }
        sim.advance(6000);
        let (cbs, _) = sim.take_cb();
        let done: Vec<&String> = cbs.iter().filter_map(|c| if let MCb::Done(n, r) = c { if n == "sync" { Some(r) } else { None } } else { None }).collect();
        if transcript {
            res.transcript.push(format!("{proc_:?} variant {variant} at step {at_step} applied={applied}: {done:?}"));
        }
        if done.len() != 1 {
            res.violation = Some(Violation::new("C18.U1", "synchronisation-not-resolved-exactly-once", format!("{} outcomes", done.len())));
            return res;
        }
        let ok = done[0].starts_with("Ok");
        if applied && ok {
            let what = ["ideal", "unexpected-objects", "iin2-error", "need-time-still-set", "missing-delay-object", "two-delay-objects-in-one-header", "two-delay-headers", "coarse-delay-object", "reply-from-unassociated-address", "reply-from-the-other-association"][variant];
            res.violation = Some(Violation::new("C18.F2", format!("success-reported-although-{what}:{proc_:?}"), done[0].clone()));
        } else if !applied && !ok {
            res.violation = Some(Violation::new("C18.L1", format!("failure-in-ideal-conditions:{proc_:?}"), done[0].clone()));
        }
        res.model_states.push(index as u64);
        res.nontrivial = true;
        res
    }
}

pub fn replay(name: &str, path: &[usize]) -> Option<RunResult> {
    for tier in ["quick", "thorough"] {
        let t = build_timing(tier);
        if t.name() == name && path[0] < t.total() {
            return Some(t.run(path[0], true));
        }
    }
    if Replies.name() == name {
        return Some(Replies.run(path[0], true));
    }
    if Repeated.name() == name {
        return Some(Repeated.run(path[0], true));
    }
    None
}

pub fn check(tier: &str) -> i32 {
    let mut c = Check::new("C18", tier);
    c.cases(&build_timing(tier));
    c.cases(&Replies);
    c.cases(&Repeated);
    c.finish(
        "model_checking",
        "paired real MasterTask + real OutstationTask on one virtual clock, the driver holding every frame for a scripted one-way delay: forward delay x backward delay in {0,1,2,7,65535,65536} ms x processing delay in {0,1,2,7,65535} ms x master clock base {0, 1, 2^47, just below and at 2^48-1} x {LAN, non-LAN, direct write} x {honest, processing delay reported larger than the round trip, NEED_TIME persisting}, plus unrelated traffic (unsolicited response, stale-sequence response, link status request) injected at each protocol step; success implies |time handed to the application - (base + virtual now)| <= d_f (LAN, direct) / |d_f - d_b| (non-LAN) and exactly one write; the failure conditions imply a reported failure; ideal conditions imply success. Plus scripted master-side replies (unexpected objects, IIN2 error, NEED_TIME in the final reply, missing delay object, two delay objects, the coarse delay object, the ideal reply from an unassociated address and from the other association) at each step of each procedure; non-trivial = the application's clock was written; distinct = distinct case",
        &[
            "integer-millisecond arithmetic; the halving in the non-LAN procedure truncates by < 1 ms, which the bound absorbs whenever it is non-zero",
            "quick tier restricts the master-clock bases and interleavings to a boundary subset of delays; thorough runs the full products",
        ],
        serde_json::json!({}),
    )
}
