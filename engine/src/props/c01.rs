//! C01 -- bytes from the peer can never crash or wedge a master or an outstation.
//!
//! Every case drives the real task (outstation inside the real server task, or master inside
//! the copy of the client loop) over the production link and transport layers through a byte
//! pipe.  The hostile input arrives in a stated session state; afterwards a *probe* -- a
//! well-formed request (outstation) or a fresh user task with an ideal reply (master) -- must
//! be served.  Oracle: no panic (arithmetic overflow included: overflow checks are on), no
//! livelock (poll cap) and no hang (watchdog), and the probe is served on the current session,
//! or -- where the link error mode is Close and the session ended -- on the next one.

use std::time::Duration;

use dnp3::app::control::*;
use dnp3::master::*;
use dnp3::outstation::database::*;

use crate::explore::{CaseSpace, Check, Hasher, RunResult, Violation};
use crate::msim::{MCb, MCfg, MSim};
use crate::osim::{OCfg, OSim};
use crate::props::c09::{hostile_menu, hostile_objects};
use crate::props::common::*;
use crate::wire::app::{self, fc};
use crate::wire::link;
use crate::wire::transport;

const CONFIRM_MS: u64 = 5000;

// ---------------------------------------------------------------------------------------
// configuration corners
// ---------------------------------------------------------------------------------------

#[derive(Clone, Copy, Debug)]
struct Corner {
    sol_tx: usize,
    unsol_tx: usize,
    rx: usize,
    decode_all: bool,
    close: bool,
}

fn corners(tier: &str) -> Vec<Corner> {
    let mut v = vec![
        Corner { sol_tx: 2048, unsol_tx: 2048, rx: 2048, decode_all: true, close: true },
        Corner { sol_tx: 249, unsol_tx: 249, rx: 249, decode_all: true, close: false },
        Corner { sol_tx: 249, unsol_tx: 2048, rx: 2048, decode_all: false, close: true },
    ];
    if tier != "quick" {
        v.push(Corner { sol_tx: 2048, unsol_tx: 249, rx: 249, decode_all: false, close: false });
        v.push(Corner { sol_tx: 300, unsol_tx: 300, rx: 1000, decode_all: true, close: false });
    }
    v
}

fn ocfg(c: &Corner, unsolicited: bool) -> OCfg {
    OCfg {
        unsolicited,
        sol_tx: c.sol_tx,
        unsol_tx: c.unsol_tx,
        rx: c.rx,
        confirm_timeout_ms: CONFIRM_MS,
        decode_all: c.decode_all,
        close_on_error: c.close,
        event_buf: [3; 8],
        class_zero_octet_strings: true,
        ..Default::default()
    }
}

fn populate(sim: &mut OSim, many: bool) {
    sim.db_quiet(|db| {
        // two points of one type in different classes: an overflow caused by one class can
        // discard an event of the other
        db.add(0, Some(EventClass::Class1), BinaryInputConfig::default());
        db.add(1, Some(EventClass::Class2), BinaryInputConfig::default());
        add_counters(db, 1, Some(EventClass::Class2));
        db.add(0, Some(EventClass::Class3), OctetStringConfig);
        add_analogs(db, if many { 120 } else { 1 }, Some(EventClass::Class2));
    });
}

// ---------------------------------------------------------------------------------------
// outstation probe
// ---------------------------------------------------------------------------------------

struct OProbe {
    seq: u8,
}

impl OProbe {
    fn next(&mut self) -> u8 {
        self.seq = (self.seq + 1) & 0x0F;
        self.seq
    }

    /// READ g1v0 (all binary inputs): answered with this sequence number within the window?
    /// Returns the objects of the answer.
    fn probe(&mut self, sim: &mut OSim, window_ms: u64, transcript: Option<&mut Vec<String>>) -> Result<Vec<u8>, String> {
        let seq = self.next();
        sim.take_out();
        let req = app::request(seq, fc::READ, &app::hdr_all(1, 0));
        sim.send(&req);
        let mut waited = 0u64;
        let mut t = transcript;
        loop {
            if let Some(f) = sim.failure() {
                return Err(f);
            }
            for tx in sim.take_out() {
                if let Some(r) = tx.frag().and_then(app::Resp::parse) {
                    if let Some(t) = t.as_deref_mut() {
                        t.push(format!("   <- {}", app::hex(&r.raw[..r.raw.len().min(40)])));
                    }
                    if !r.uns() && r.func == fc::RESPONSE && r.seq() == seq && r.fir() {
                        return Ok(r.objects);
                    }
                }
            }
            if waited >= window_ms {
                return Err(format!("a well-formed READ (seq {seq}) is not answered within {window_ms} ms of virtual time"));
            }
            let step = (window_ms - waited).min(1000);
            sim.advance(step);
            waited += step;
        }
    }
}

/// the probe's answer reports binary inputs 0..=1 (whatever variation and values)
fn binaries_ok(objs: &[u8]) -> bool {
    match app::walk(objs, false) {
        Ok(hs) => {
            let mut idx = Vec::new();
            for h in &hs {
                match (h.group, &h.range) {
                    (1, app::RangeSpec::StartStop(a, b)) => idx.extend(*a..=*b),
                    _ => return false,
                }
            }
            idx == vec![0, 1]
        }
        Err(_) => false,
    }
}

/// a panic is one defect whatever input reaches it: key it by its location
fn fail_key(default: &str, failure: &str) -> String {
    if let Some(i) = failure.rfind(" @ ") {
        if failure.contains("panic") {
            return format!("panic@{}", failure[i + 3..].trim_start_matches("/repo/"));
        }
    }
    default.to_string()
}

fn finish(res: &mut RunResult, sim: &OSim, clause: &str, key: String, what: &str) {
    if res.violation.is_none() {
        if let Some(f) = sim.failure() {
            res.violation = Some(Violation::new(clause, fail_key(&key, &f), format!("{what}: {f}")));
        }
    }
}

// ---------------------------------------------------------------------------------------
// (O-a) application fragments: every function code, and the object-header product
// ---------------------------------------------------------------------------------------

struct OFrags {
    tier: String,
    corners: Vec<Corner>,
    gvs: Vec<(u8, u8)>,
    quals: Vec<u8>,
    funcs: Vec<u8>,
}

/// quick: the acceptance product's menu; thorough: every variation number of every group in it
fn menu(tier: &str) -> (Vec<(u8, u8)>, Vec<u8>) {
    let (gvs, quals) = hostile_menu("quick");
    if tier == "quick" {
        return (gvs, quals);
    }
    let mut groups: Vec<u8> = gvs.iter().map(|x| x.0).collect();
    groups.dedup();
    let mut wide = Vec::new();
    for g in groups {
        for v in 0..=255u8 {
            wide.push((g, v));
        }
    }
    (wide, quals)
}

fn build_ofrags(tier: &str) -> OFrags {
    let (gvs, quals) = menu(tier);
    let funcs: Vec<u8> = if tier == "quick" {
        vec![fc::READ, fc::WRITE, fc::SELECT, fc::DIRECT_OPERATE]
    } else {
        vec![fc::READ, fc::WRITE, fc::SELECT, fc::OPERATE, fc::DIRECT_OPERATE, fc::DIRECT_OPERATE_NR, 7, 9, 11, 20, 21, 22, 23, 24, 25, 129, 130]
    };
    OFrags { tier: tier.to_string(), corners: corners(tier), gvs, quals, funcs }
}

/// a well-formed body of the file object g70v<var> (Annex A layout), where the variation has one
fn file_object_template(var: u8) -> Option<Vec<u8>> {
    let w = |v: u16| v.to_le_bytes().to_vec();
    let mut b: Vec<u8> = Vec::new();
    match var {
        2 => {
            // user name offset, size, password offset, size, authentication key, "ab", "cd"
            for x in [12u16, 2, 14, 2] {
                b.extend(w(x));
            }
            b.extend_from_slice(&[0; 4]);
            b.extend_from_slice(b"abcd");
        }
        3 => {
            // name offset, size, time(6), permissions, key(4), size(4), mode, max block, request id, "f"
            b.extend(w(26));
            b.extend(w(1));
            b.extend_from_slice(&[0; 6]);
            b.extend(w(0x1FF));
            b.extend_from_slice(&[0; 4]);
            b.extend_from_slice(&[0; 4]);
            b.extend(w(1));
            b.extend(w(100));
            b.extend(w(7));
            b.push(b'f');
        }
        4 => {
            b.extend_from_slice(&[1, 0, 0, 0, 9, 0, 0, 0]);
            b.extend(w(100));
            b.extend(w(7));
            b.push(0);
            b.push(b't');
        }
        5 => b.extend_from_slice(&[1, 0, 0, 0, 0, 0, 0, 0x80, 0xAA]),
        6 => b.extend_from_slice(&[1, 0, 0, 0, 0, 0, 0, 0x80, 0, b't']),
        7 => {
            // name offset, size, type, size(4), time(6), permissions, request id, "f"
            b.extend(w(20));
            b.extend(w(1));
            b.extend(w(1));
            b.extend_from_slice(&[0; 4]);
            b.extend_from_slice(&[0; 6]);
            b.extend(w(0x1FF));
            b.extend(w(7));
            b.push(b'f');
        }
        8 => b.extend_from_slice(b"name"),
        _ => return None,
    }
    Some(b)
}

/// Free-format (qualifier 0x5B) file objects g70v<var> whose 16-bit offset / size fields take
/// extreme values. Bodies: the well-formed object of the variation (where it has one) and zero
/// bodies of the lengths of the fixed parts; in each, the 16-bit word at every octet offset is set
/// to each of {0xFFFF, 0xFFF4, 0xFFF3, 0x8000, 0, the body length}; the declared object length
/// is the body length. The unmutated bodies come first.
fn free_format_extremes(var: u8) -> Vec<Vec<u8>> {
    let mut bodies: Vec<Vec<u8>> = Vec::new();
    if let Some(t) = file_object_template(var) {
        bodies.push(t);
    }
    for len in [8usize, 13, 26] {
        bodies.push(vec![0u8; len]);
    }
    let mut out = Vec::new();
    let wrap = |body: &[u8]| {
        let mut o = vec![70, var, 0x5B, 1, body.len() as u8, 0];
        o.extend_from_slice(body);
        o
    };
    for body in &bodies {
        out.push(wrap(body));
        for off in 0..body.len() - 1 {
            for val in [0xFFFFu16, 0xFFF4, 0xFFF3, 0x8000, 0, body.len() as u16] {
                let mut m = body.clone();
                m[off] = val as u8;
                m[off + 1] = (val >> 8) as u8;
                if m != *body {
                    out.push(wrap(&m));
                }
            }
        }
    }
    out
}

const FF_VARS: [u8; 10] = [0, 1, 2, 3, 4, 5, 6, 7, 8, 9];

/// link address of the simulated outstation
const OUT: u16 = crate::osim::OUTSTATION_ADDR;

const CTRLS: [u8; 6] = [0xC0, 0xE0, 0xD0, 0x80, 0x40, 0x00];

impl OFrags {
    /// batches: [0, 256 * corners) one function code each; then one per (gv, qual, corner)
    fn n_func(&self) -> usize {
        256 * self.corners.len()
    }
    fn n_product(&self) -> usize {
        self.gvs.len() * self.quals.len() * self.corners.len()
    }
    fn batch(&self, index: usize) -> (Corner, String, Vec<(u16, Vec<u8>)>) {
        // returns fragments with their link destination; the sequence nibble is set by the driver
        if index < self.n_func() {
            let c = self.corners[index % self.corners.len()];
            let func = (index / self.corners.len()) as u8;
            let mut v = Vec::new();
            let crob = app::prefixed8(12, 1, &[(0, app::crob(0x03, 1, 10, 10, 0))]);
            for ctrl in CTRLS {
                for objs in [vec![], app::hdr_all(60, 1), crob.clone(), vec![0xFF], vec![1, 2, 0x00, 0, 7]] {
                    for dst in [OUT, 0xFFFF, 0xFFFD] {
                        if dst != OUT && !(ctrl == 0xC0 || ctrl == 0xE0) {
                            continue;
                        }
                        v.push((dst, app::request_ctrl(ctrl, func, &objs)));
                    }
                }
            }
            // degenerate fragments ride along with function 0
            if func == 0 {
                v.push((OUT, vec![]));
                v.push((OUT, vec![0xC0]));
            }
            (c, format!("function {func}"), v)
        } else if index < self.n_func() + self.n_product() {
            let i = index - self.n_func();
            let c = self.corners[i % self.corners.len()];
            let i = i / self.corners.len();
            let q = self.quals[i % self.quals.len()];
            let (g, var) = self.gvs[i / self.quals.len()];
            let max = if self.tier == "quick" { 700 } else { 5000 };
            let mut v = Vec::new();
            for objs in hostile_objects(g, var, q, max) {
                for f in &self.funcs {
                    v.push((OUT, app::request(0, *f, &objs)));
                }
            }
            (c, format!("g{g}v{var} qualifier {q:02X}"), v)
        } else {
            let i = index - self.n_func() - self.n_product();
            let c = self.corners[i % self.corners.len()];
            let var = FF_VARS[i / self.corners.len()];
            let funcs: &[u8] = if self.tier == "quick" { &[29, 25] } else { &[29, 25, 26, 27, 28, 30, 1, 2] };
            let mut v = Vec::new();
            for objs in free_format_extremes(var) {
                for f in funcs {
                    v.push((OUT, app::request(0, *f, &objs)));
                }
            }
            (c, format!("g70v{var} free-format field extremes"), v)
        }
    }
}

impl CaseSpace for OFrags {
    fn name(&self) -> String {
        format!("outstation-fragments-{}", self.tier)
    }
    fn seeded(&self) -> bool {
        true
    }
    fn total(&self) -> usize {
        self.n_func() + self.n_product() + FF_VARS.len() * self.corners.len()
    }
    fn run(&self, index: usize, transcript: bool) -> RunResult {
        let mut res = RunResult::default();
        let (c, label, frags) = self.batch(index);
        let mut h = Hasher::default();
        h.add_str(&label);
        h.add_str(&format!("{c:?}"));
        let mut sim = OSim::new(&ocfg(&c, false), 1);
        populate(&mut sim, false);
        let mut p = OProbe { seq: 0 };
        if transcript {
            res.transcript.push(format!("{label}, {c:?}: {} hostile fragments, each followed by a READ probe", frags.len()));
        }
        for (dst, f) in &frags {
            let mut f = f.clone();
            if !f.is_empty() {
                f[0] = (f[0] & 0xF0) | p.next();
            }
            res.transitions += 1;
            sim.take_out();
            sim.send_from(1, *dst, &f);
            h.add(&f);
            if transcript {
                res.transcript.push(format!("-> (dst {dst}) {}", app::hex(&f[..f.len().min(48)])));
                for tx in sim.take_out() {
                    if let Some(d) = tx.frag() {
                        res.transcript.push(format!("   <= {}", app::hex(&d[..d.len().min(40)])));
                    }
                }
            }
            let r = p.probe(&mut sim, 2 * CONFIRM_MS + 1000, if transcript { Some(&mut res.transcript) } else { None });
            let key = format!("outstation/idle/fc{}", f.get(1).copied().unwrap_or(0));
            match r {
                Ok(objs) => {
                    if !binaries_ok(&objs) {
                        res.violation = Some(Violation::new(
                            "C01.O2",
                            key,
                            format!("{label}: after {} the READ probe is answered with {} instead of the two binary inputs", app::hex(&f[..f.len().min(48)]), app::hex(&objs)),
                        ));
                        break;
                    }
                    res.nontrivial = true;
                }
                Err(e) => {
                    let clause = if sim.failure().is_some() { "C01.O1" } else { "C01.O3" };
                    res.violation = Some(Violation::new(clause, fail_key(&key, &e), format!("{label}, {c:?}: after {} (to {dst}): {e}", app::hex(&f[..f.len().min(48)]))));
                    break;
                }
            }
        }
        finish(&mut res, &sim, "C01.O1", "outstation/idle".into(), &label);
        res.model_states.push(sim.sessions as u64);
        res.obs = h.0;
        res
    }
}

// ---------------------------------------------------------------------------------------
// (O-b) session states x a small hostile set
// ---------------------------------------------------------------------------------------

const OSTATES: [&str; 10] = [
    "idle",
    "solicited-confirm-wait",
    "series-after-fragment-1",
    "series-after-fragment-2",
    "unsolicited-null-confirm-wait",
    "unsolicited-data-confirm-wait",
    "deferred-read-pending",
    "overflow-during-confirm-wait",
    "selected",
    "overflow-during-unsolicited-confirm-wait",
];

fn small_hostile() -> Vec<(String, Vec<u8>)> {
    let mut v: Vec<(String, Vec<u8>)> = Vec::new();
    for func in 0..=255u8 {
        v.push((format!("fc{func}"), app::request(0, func, &[])));
    }
    let crob = app::crob(0x03, 1, 10, 10, 0);
    let crobs8 = |n: usize| app::prefixed8(12, 1, &(0..n).map(|i| (i as u8, crob.clone())).collect::<Vec<_>>());
    let special: Vec<(&str, u8, u8, Vec<u8>)> = vec![
        ("read-all-classes", 0xC0, fc::READ, app::class_headers(true, true, true, true)),
        ("read-events", 0xC0, fc::READ, app::class_headers(true, true, true, false)),
        ("read-g110-to-65535", 0xC0, fc::READ, app::hdr_range16(110, 0, 65534, 65535)),
        ("read-g1-0-to-65535", 0xC0, fc::READ, app::hdr_range16(1, 2, 0, 65535)),
        ("read-count-65535", 0xC0, fc::READ, app::hdr_count16(2, 0, 65535)),
        ("read-truncated-header", 0xC0, fc::READ, vec![60, 1]),
        ("read-unknown-object", 0xC0, fc::READ, vec![99, 1, 0x06]),
        ("read-bad-qualifier", 0xC0, fc::READ, vec![1, 2, 0x33]),
        ("write-g80-clear-restart", 0xC0, fc::WRITE, app::write_restart_objects(false)),
        ("write-g80-set-restart", 0xC0, fc::WRITE, app::write_restart_objects(true)),
        ("write-time", 0xC0, fc::WRITE, app::g50v1_objects(1_600_000_000_000)),
        ("write-time-truncated", 0xC0, fc::WRITE, app::g50v1_objects(1)[..9].to_vec()),
        ("write-g110-to-65535", 0xC0, fc::WRITE, {
            let mut o = app::hdr_range16(110, 1, 65535, 65535);
            o.push(0x41);
            o
        }),
        ("select-1-crob", 0xC0, fc::SELECT, crobs8(1)),
        ("select-20-crobs", 0xC0, fc::SELECT, crobs8(20)),
        ("operate-1-crob", 0xC0, fc::OPERATE, crobs8(1)),
        ("direct-operate-19-crobs", 0xC0, fc::DIRECT_OPERATE, crobs8(19)),
        ("direct-operate-20-crobs", 0xC0, fc::DIRECT_OPERATE, crobs8(20)),
        ("direct-operate-truncated", 0xC0, fc::DIRECT_OPERATE, crobs8(2)[..20].to_vec()),
        ("direct-operate-nr", 0xC0, fc::DIRECT_OPERATE_NR, crobs8(1)),
        ("freeze-all-counters", 0xC0, 7, app::hdr_all(20, 0)),
        ("freeze-clear-range-to-65535", 0xC0, 9, app::hdr_range16(20, 0, 0, 65535)),
        ("enable-unsolicited", 0xC0, 20, app::class_headers(true, true, true, false)),
        ("disable-unsolicited", 0xC0, 21, app::class_headers(true, true, true, false)),
        ("assign-class", 0xC0, 22, {
            let mut o = app::hdr_all(60, 2);
            o.extend(app::hdr_all(1, 0));
            o
        }),
        ("delay-measure", 0xC0, 23, vec![]),
        ("record-current-time", 0xC0, 24, vec![]),
        ("confirm-solicited-seq0", 0xC0, 0, vec![]),
        ("confirm-unsolicited-seq0", 0xD0, 0, vec![]),
        ("response-to-an-outstation", 0xC0, 129, vec![0, 0]),
        ("unsolicited-to-an-outstation", 0xF0, 130, vec![0, 0]),
        ("con-bit-read", 0xE0, fc::READ, app::hdr_all(60, 1)),
        ("fir-only-read", 0x80, fc::READ, app::hdr_all(60, 1)),
        ("no-fir-fin-read", 0x00, fc::READ, app::hdr_all(60, 1)),
    ];
    for (n, c, f, o) in special {
        v.push((n.to_string(), app::request_ctrl(c, f, &o)));
    }
    v.push(("empty-fragment".into(), vec![]));
    v.push(("one-octet-fragment".into(), vec![0xC0]));
    v
}

struct OStates {
    corners: Vec<Corner>,
    hostile: Vec<(String, Vec<u8>)>,
}

/// seq to use for a hostile fragment relative to the state: same as expected confirm, next, other
const SEQ_MODES: usize = 3;

fn enter_state(sim: &mut OSim, state: usize, p: &mut OProbe) -> Result<Option<(u8, bool)>, String> {
    // returns the (sequence number, unsolicited) of the confirm the outstation is waiting for
    let resp_of = |sim: &mut OSim, uns: bool| -> Option<app::Resp> {
        sim.take_out().iter().filter_map(|t| t.frag()).filter_map(app::Resp::parse).filter(|r| r.uns() == uns).last()
    };
    match state {
        0 => Ok(None),
        1 | 7 => {
            sim.db(|db| {
                db.update(0, &binary(true, 10), UpdateOptions::detect_event());
            });
            sim.take_out();
            let s = p.next();
            sim.send(&app::request(s, fc::READ, &app::class_headers(true, false, false, false)));
            let r = resp_of(sim, false).ok_or("no response to the event READ")?;
            if !r.con() {
                return Err("event response does not ask for a confirmation".into());
            }
            if state == 7 {
                // overflow the 3-deep binary buffer while the response is unconfirmed
                sim.db(|db| {
                    for k in 0..5u64 {
                        db.update(1, &binary(k % 2 == 0, 20 + k), UpdateOptions::detect_event());
                    }

                });
            }
            Ok(Some((r.seq(), false)))
        }
        2 | 3 => {
            let s = p.next();
            sim.take_out();
            sim.send(&app::request(s, fc::READ, &app::class_headers(false, false, false, true)));
            let r = resp_of(sim, false).ok_or("no response to the class 0 READ")?;
            if r.fin() {
                return Err("class 0 response is a single fragment".into());
            }
            if state == 2 {
                return Ok(Some((r.seq(), false)));
            }
            sim.send(&app::confirm(r.seq(), false));
            let r2 = resp_of(sim, false).ok_or("no second fragment")?;
            if r2.fin() {
                return Err("series has only two fragments".into());
            }
            Ok(Some((r2.seq(), false)))
        }
        4 => {
            sim.pump();
            let r = resp_of(sim, true).ok_or("no null unsolicited response")?;
            Ok(Some((r.seq(), true)))
        }
        5 | 6 | 9 => {
            let s0 = null_unsol_handshake(sim).ok_or("no null unsolicited response")?;
            let _ = s0;
            let s = p.next();
            sim.take_out();
            sim.send(&app::request(s, 20, &app::class_headers(true, true, true, false)));
            sim.take_out();
            sim.db(|db| {
                db.update(0, &binary(true, 10), UpdateOptions::detect_event());
            });
            let r = resp_of(sim, true).ok_or("no unsolicited response with data")?;
            if state == 6 {
                let s = p.next();
                sim.send(&app::request(s, fc::READ, &app::class_headers(false, false, false, true)));
            }
            if state == 9 {
                // the other class overflows the 3-deep binary buffer and discards the event
                // that the unconfirmed unsolicited response carries
                sim.db(|db| {
                    for k in 0..5u64 {
                        db.update(1, &binary(k % 2 == 0, 20 + k), UpdateOptions::detect_event());
                    }
                });
            }
            Ok(Some((r.seq(), true)))
        }
        _ => {
            let s = p.next();
            sim.take_out();
            let crob = app::prefixed8(12, 1, &[(0, app::crob(0x03, 1, 10, 10, 0))]);
            sim.send(&app::request(s, fc::SELECT, &crob));
            resp_of(sim, false).ok_or("no response to SELECT")?;
            Ok(None)
        }
    }
}

impl CaseSpace for OStates {
    fn name(&self) -> String {
        "outstation-states".into()
    }
    fn seeded(&self) -> bool {
        true
    }
    fn total(&self) -> usize {
        self.corners.len() * OSTATES.len() * self.hostile.len() * SEQ_MODES
    }
    fn run(&self, index: usize, transcript: bool) -> RunResult {
        let mut res = RunResult::default();
        let c = self.corners[index % self.corners.len()];
        let i = index / self.corners.len();
        let state = i % OSTATES.len();
        let i = i / OSTATES.len();
        let mode = i % SEQ_MODES;
        let (label, frag) = &self.hostile[i / SEQ_MODES];
        let unsol = (4..=6).contains(&state) || state == 9;
        let mut sim = OSim::new(&ocfg(&c, unsol), 1);
        let mut sim = sim;
        sim.db_quiet(|db| {
            if state == 2 || state == 3 {
                // enough static data for a series of at least three fragments
                add_analogs(db, if c.sol_tx > 1000 { 1000 } else { 150 }, Some(EventClass::Class2));
            }
        });
        populate(&mut sim, false);
        let mut p = OProbe { seq: 3 };
        let mut h = Hasher::default();
        h.add_str(label);
        h.add_u64(index as u64);
        let key = format!("outstation/{}/{}", OSTATES[state], label);
        let awaited = match enter_state(&mut sim, state, &mut p) {
            Ok(a) => a,
            Err(e) => {
                // the state is not reachable in this corner (e.g. the series fits one fragment)
                if transcript {
                    res.transcript.push(format!("state {} not reached with {c:?}: {e}", OSTATES[state]));
                }
                if std::env::var("VERIF_C01_STRICT").is_ok() {
                    res.violation = Some(Violation::new("C01.X0", key.clone(), format!("state not reached: {e}")));
                }
                finish(&mut res, &sim, "C01.O1", key, "while entering the state");
                res.obs = h.0;
                return res;
            }
        };
        let mut f = frag.clone();
        if !f.is_empty() {
            let seq = match (mode, awaited) {
                (0, Some((s, _))) => s,
                (0, None) => p.seq,
                (1, _) => p.next(),
                _ => (p.seq + 7) & 0x0F,
            };
            f[0] = (f[0] & 0xF0) | seq;
        }
        if transcript {
            res.transcript.push(format!("{c:?}, state {} (awaiting confirm {awaited:?})", OSTATES[state]));
            res.transcript.push(format!("-> {label}: {}", app::hex(&f[..f.len().min(64)])));
        }
        res.transitions += 1;
        sim.send(&f);
        h.add(&f);
        match p.probe(&mut sim, 3 * CONFIRM_MS + 1000, if transcript { Some(&mut res.transcript) } else { None }) {
            Ok(objs) => {
                if !binaries_ok(&objs) {
                    res.violation = Some(Violation::new("C01.O2", key.clone(), format!("{c:?}: after {label} in state {} the READ probe is answered with {}", OSTATES[state], app::hex(&objs))));
                }
                res.nontrivial = true;
            }
            Err(e) => {
                let clause = if sim.failure().is_some() { "C01.O1" } else { "C01.O3" };
                res.violation = Some(Violation::new(clause, fail_key(&key, &e), format!("{c:?}: {label} ({}) in state {}: {e}", app::hex(&f[..f.len().min(48)]), OSTATES[state])));
            }
        }
        // let every timer run out as well
        sim.advance(4 * CONFIRM_MS);
        finish(&mut res, &sim, "C01.O1", key, label);
        res.model_states.push(state as u64);
        res.obs = h.0;
        res
    }
}

// ---------------------------------------------------------------------------------------
// (O-c) maximal control requests: every length around the transmit and receive sizes
// ---------------------------------------------------------------------------------------

struct OMax {
    cases: Vec<(Corner, u8, usize)>,
}

/// control objects whose fragment is exactly `len` octets long (application header included)
fn controls_of_len(len: usize) -> Option<Vec<u8>> {
    if len < 2 + 4 + 4 {
        return None;
    }
    let body = len - 2;
    let crob = app::crob(0x03, 1, 10, 10, 0);
    // header (4) + a * 12 (g12v1, 8-bit index) ; header (4) + b * 4 (g41v2, 8-bit index) ;
    // header (5) + c * 5 (g41v2, 16-bit index)
    for c in 0..5usize {
        let hc = if c > 0 { 5 + c * 5 } else { 0 };
        if hc > body {
            break;
        }
        let rest = body - hc;
        for a in (0..=((rest.saturating_sub(4)) / 12).min(255)).rev() {
            let ha = if a > 0 { 4 + 12 * a } else { 0 };
            if ha > rest {
                continue;
            }
            let r2 = rest - ha;
            if r2 == 0 && (a > 0 || c > 0) {
                return Some(build_controls(a, 0, c, &crob));
            }
            if r2 >= 8 && (r2 - 4) % 4 == 0 && (r2 - 4) / 4 <= 255 {
                return Some(build_controls(a, (r2 - 4) / 4, c, &crob));
            }
        }
    }
    None
}

fn build_controls(a: usize, b: usize, c: usize, crob: &[u8]) -> Vec<u8> {
    let mut o = Vec::new();
    if a > 0 {
        o.extend(app::prefixed8(12, 1, &(0..a).map(|i| (i as u8, crob.to_vec())).collect::<Vec<_>>()));
    }
    if b > 0 {
        o.extend(app::prefixed8(41, 2, &(0..b).map(|i| (i as u8, app::g41v2(i as i16, 0))).collect::<Vec<_>>()));
    }
    if c > 0 {
        o.extend(app::prefixed16(41, 2, &(0..c).map(|i| (i as u16, app::g41v2(-(i as i16), 0))).collect::<Vec<_>>()));
    }
    o
}

fn build_omax(tier: &str) -> OMax {
    let mut cases = Vec::new();
    let cs = [
        Corner { sol_tx: 249, unsol_tx: 249, rx: 2048, decode_all: true, close: true },
        Corner { sol_tx: 2048, unsol_tx: 2048, rx: 2048, decode_all: true, close: true },
        Corner { sol_tx: 249, unsol_tx: 249, rx: 249, decode_all: false, close: false },
        Corner { sol_tx: 300, unsol_tx: 300, rx: 600, decode_all: true, close: false },
    ];
    for c in cs {
        let mut lens: Vec<usize> = Vec::new();
        let spread = if tier == "quick" { 6 } else { 30 };
        for l in c.sol_tx.saturating_sub(spread)..=c.sol_tx + spread {
            lens.push(l);
        }
        for l in c.rx.saturating_sub(spread)..=c.rx + 3 {
            if !lens.contains(&l) {
                lens.push(l);
            }
        }
        for l in lens {
            for f in [fc::SELECT, fc::OPERATE, fc::DIRECT_OPERATE, fc::DIRECT_OPERATE_NR] {
                cases.push((c, f, l));
            }
        }
    }
    OMax { cases }
}

impl CaseSpace for OMax {
    fn name(&self) -> String {
        "outstation-maximal-controls".into()
    }
    fn seeded(&self) -> bool {
        true
    }
    fn total(&self) -> usize {
        self.cases.len()
    }
    fn run(&self, index: usize, transcript: bool) -> RunResult {
        let mut res = RunResult::default();
        let (c, func, len) = self.cases[index];
        res.obs = index as u64 + 99;
        let Some(objs) = controls_of_len(len) else { return res };
        let mut cfg = ocfg(&c, false);
        cfg.max_controls = None;
        let mut sim = OSim::new(&cfg, 1);
        populate(&mut sim, false);
        let mut p = OProbe { seq: 0 };
        let key = format!("outstation/maximal/fc{func}");
        // OPERATE: after the matching SELECT (odd lengths), or after a small SELECT that it does
        // not match (even lengths) -- the echo is built by different branches
        if func == fc::OPERATE {
            let s = p.next();
            if len % 2 == 1 {
                sim.send(&app::request(s, fc::SELECT, &objs));
            } else {
                sim.send(&app::request(s, fc::SELECT, &app::prefixed8(12, 1, &[(0, app::crob(0x03, 1, 10, 10, 0))])));
            }
        }
        let s = p.next();
        let f = app::request(s, func, &objs);
        debug_assert_eq!(f.len(), len);
        res.transitions += 1;
        sim.take_out();
        sim.send(&f);
        if transcript {
            res.transcript.push(format!("{c:?}: function {func}, fragment of {len} octets"));
        }
        match p.probe(&mut sim, 2 * CONFIRM_MS, if transcript { Some(&mut res.transcript) } else { None }) {
            Ok(objs) => {
                if !binaries_ok(&objs) {
                    res.violation = Some(Violation::new("C01.O2", key.clone(), format!("{c:?}: after a {len}-octet function {func} request the probe is answered with {}", app::hex(&objs))));
                }
                res.nontrivial = true;
            }
            Err(e) => {
                let clause = if sim.failure().is_some() { "C01.O1" } else { "C01.O3" };
                res.violation = Some(Violation::new(clause, fail_key(&key, &e), format!("{c:?}: {len}-octet function {func} request: {e}")));
            }
        }
        finish(&mut res, &sim, "C01.O1", key, "maximal control request");
        res.model_states.push(len as u64);
        res
    }
}

/// a legal but very large receive buffer: one request carrying more than 65 535 control objects
struct OHuge;

impl CaseSpace for OHuge {
    fn name(&self) -> String {
        "outstation-huge-control-request".into()
    }
    fn seeded(&self) -> bool {
        true
    }
    fn total(&self) -> usize {
        4 * 2 * 2
    }
    fn run(&self, index: usize, transcript: bool) -> RunResult {
        let mut res = RunResult::default();
        let func = [fc::SELECT, fc::OPERATE, fc::DIRECT_OPERATE, fc::DIRECT_OPERATE_NR][index % 4];
        let decode_all = (index / 4) % 2 == 1;
        let limited = index / 8 == 1;
        res.obs = index as u64 + 65536;
        let c = Corner { sol_tx: 2048, unsol_tx: 2048, rx: 300_000, decode_all, close: true };
        let mut cfg = ocfg(&c, false);
        cfg.max_controls = if limited { Some(10) } else { None };
        let mut sim = OSim::new(&cfg, 1);
        populate(&mut sim, false);
        let mut p = OProbe { seq: 0 };
        // 258 headers x 255 g41v2 objects (8-bit index) = 65 790 controls, 264 192 octets
        let mut objs = Vec::new();
        for h in 0..258usize {
            objs.extend(app::prefixed8(41, 2, &(0..255usize).map(|i| (i as u8, app::g41v2((h + i) as i16, 0))).collect::<Vec<_>>()));
        }
        let key = format!("outstation/huge/fc{func}");
        if func == fc::OPERATE {
            let s = p.next();
            sim.send(&app::request(s, fc::SELECT, &objs));
        }
        let s = p.next();
        sim.take_out();
        sim.send(&app::request(s, func, &objs));
        res.transitions += 1;
        if transcript {
            res.transcript.push(format!("function {func}: 65 790 control objects in one {}-octet fragment; rx buffer 300 000, max_controls {:?}", objs.len() + 2, cfg.max_controls));
        }
        match p.probe(&mut sim, 2 * CONFIRM_MS, if transcript { Some(&mut res.transcript) } else { None }) {
            Ok(o) if binaries_ok(&o) => res.nontrivial = true,
            Ok(o) => res.violation = Some(Violation::new("C01.O2", key.clone(), format!("probe answered with {}", app::hex(&o)))),
            Err(e) => {
                let clause = if sim.failure().is_some() { "C01.O1" } else { "C01.O3" };
                res.violation = Some(Violation::new(clause, fail_key(&key, &e), format!("function {func} with 65 790 control objects (rx buffer 300 000): {e}")));
            }
        }
        finish(&mut res, &sim, "C01.O1", key, "huge control request");
        res
    }
}

// ---------------------------------------------------------------------------------------
// (O-d) link noise and transport segment sequences, every chunking
// ---------------------------------------------------------------------------------------

fn link_tokens() -> Vec<(String, Vec<u8>)> {
    let mut v: Vec<(String, Vec<u8>)> = vec![
        ("05".into(), vec![0x05]),
        ("64".into(), vec![0x64]),
        ("0564".into(), vec![0x05, 0x64]),
        ("00".into(), vec![0x00]),
        ("FF".into(), vec![0xFF]),
    ];
    for len in [0u8, 4, 5, 6, 21, 22, 255] {
        // header with a valid CRC and that length octet, no body
        let mut h = vec![0x05, 0x64, len, 0xC4, 0x00, 0x04, 0x01, 0x00];
        let c = crate::wire::crc::crc16(&h);
        h.extend_from_slice(&c.to_le_bytes());
        v.push((format!("header-len{len}"), h.clone()));
        let mut bad = h.clone();
        bad[9] ^= 0xFF;
        v.push((format!("header-len{len}-bad-crc"), bad));
    }
    let body: Vec<u8> = (0..16u8).collect();
    let mut blk = body.clone();
    let c = crate::wire::crc::crc16(&blk);
    blk.extend_from_slice(&c.to_le_bytes());
    v.push(("valid-body-block".into(), blk.clone()));
    blk[3] ^= 0x10;
    v.push(("damaged-body-block".into(), blk));
    v.push(("link-status-request".into(), link::frame(0xC9, OUT, 1, &[])));
    v.push(("reset-link".into(), link::frame(0xC0, OUT, 1, &[])));
    v.push(("test-link".into(), link::frame(0xF2, OUT, 1, &[])));
    v.push(("ack".into(), link::frame(0x80, OUT, 1, &[])));
    v.push(("confirmed-user-data".into(), link::frame(0xF3, OUT, 1, &[0xC0, 0xC1, 0x01, 1, 0, 0x06])));
    v.push(("data-from-outstation-direction".into(), link::frame(0x44, OUT, 1, &[0xC0, 0xC1, 0x01])));
    v.push(("data-to-other-address".into(), link::frame(0xC4, 77, 1, &[0xC0, 0xC1, 0x01])));
    v.push(("data-zero-payload".into(), link::frame(0xC4, OUT, 1, &[])));
    v.push(("data-max-payload".into(), link::frame(0xC4, OUT, 1, &[0xC1; 250])));
    v
}

struct OStream {
    tokens: Vec<(String, Vec<u8>)>,
    depth: usize,
    modes: Vec<(bool, bool, bool)>, // close, datagram, decode_all
}

fn build_ostream(tier: &str) -> OStream {
    OStream {
        tokens: link_tokens(),
        depth: if tier == "quick" { 2 } else { 3 },
        modes: vec![(false, false, true), (true, false, true), (false, true, false), (true, true, true)],
    }
}

fn decode_seq(mut idx: usize, n: usize, depth: usize) -> Vec<usize> {
    let mut len = 1;
    loop {
        let c = n.pow(len as u32);
        if idx < c || len == depth {
            break;
        }
        idx -= c;
        len += 1;
    }
    let mut v = Vec::new();
    for _ in 0..len {
        v.push(idx % n);
        idx /= n;
    }
    v
}

/// after hostile bytes on the link: keep sending probes until the latest one is answered;
/// a closed session is replaced (Close mode only)
fn link_liveness(sim: &mut OSim, p: &mut OProbe, close: bool, datagram: bool, transcript: &mut Option<&mut Vec<String>>) -> Result<usize, String> {
    let mut reconnects = 0;
    for attempt in 0..24 {
        if let Some(f) = sim.failure() {
            return Err(f);
        }
        let ended = sim.pipe.as_ref().map(|p| p.is_closed()).unwrap_or(true);
        if ended {
            if !close && !datagram {
                return Err("the session ended although the link error mode is Discard".into());
            }
            reconnects += 1;
            if reconnects > 2 {
                return Err("every new session ends as well".into());
            }
            if let Some(t) = transcript.as_deref_mut() {
                t.push("   session ended; connecting a new one".into());
            }
            sim.connect(datagram);
        }
        match p.probe(sim, if attempt % 4 == 3 { 2 * CONFIRM_MS } else { 0 }, None) {
            Ok(objs) => {
                if !binaries_ok(&objs) {
                    return Err(format!("probe answered with {}", app::hex(&objs)));
                }
                return Ok(attempt);
            }
            Err(e) => {
                if sim.failure().is_some() {
                    return Err(e);
                }
            }
        }
    }
    Err("24 consecutive well-formed READ requests stay unanswered".into())
}

impl CaseSpace for OStream {
    fn name(&self) -> String {
        format!("outstation-link-noise-depth{}", self.depth)
    }
    fn seeded(&self) -> bool {
        true
    }
    fn total(&self) -> usize {
        let n = self.tokens.len();
        (1..=self.depth).map(|d| n.pow(d as u32)).sum::<usize>() * self.modes.len()
    }
    fn run(&self, index: usize, transcript: bool) -> RunResult {
        let mut res = RunResult::default();
        let (close, datagram, decode_all) = self.modes[index % self.modes.len()];
        let seq = decode_seq(index / self.modes.len(), self.tokens.len(), self.depth);
        let mut noise = Vec::new();
        let mut labels = Vec::new();
        for i in &seq {
            noise.extend_from_slice(&self.tokens[*i].1);
            labels.push(self.tokens[*i].0.clone());
        }
        let mut h = Hasher::default();
        h.add(&noise);
        h.add_u64((index % self.modes.len()) as u64);
        res.obs = h.0;
        let c = Corner { sol_tx: 2048, unsol_tx: 2048, rx: 2048, decode_all, close };
        // chunkings: whole, one octet at a time, every 2-way split (sampled to <= 40 cut points
        // spread evenly: the interesting ones are token boundaries, which are always included)
        let mut cuts: Vec<Vec<usize>> = vec![vec![], (1..noise.len()).collect()];
        let mut bounds = Vec::new();
        let mut off = 0;
        for i in &seq {
            off += self.tokens[*i].1.len();
            if off < noise.len() {
                bounds.push(off);
            }
        }
        for b in &bounds {
            for d in [-1i64, 0, 1, 2] {
                let c = *b as i64 + d;
                if c > 0 && (c as usize) < noise.len() && !cuts.contains(&vec![c as usize]) {
                    cuts.push(vec![c as usize]);
                }
            }
        }
        for c in [1usize, 2, 3, 9, 10, 11] {
            if c < noise.len() && !cuts.contains(&vec![c]) {
                cuts.push(vec![c]);
            }
        }
        let key = format!("outstation/link/{}", labels.join("+"));
        for cut in &cuts {
            let mut cfg = ocfg(&c, false);
            cfg.datagram = datagram;
            let mut sim = OSim::new(&cfg, 1);
            populate(&mut sim, false);
            let mut p = OProbe { seq: 0 };
            let mut last = 0;
            for &c in cut.iter().chain(std::iter::once(&noise.len())) {
                sim.send_raw(&noise[last..c]);
                last = c;
            }
            res.transitions += 1;
            let how = if cut.is_empty() { "whole".to_string() } else if cut.len() > 1 { "one octet at a time".to_string() } else { format!("split at {}", cut[0]) };
            if transcript {
                res.transcript.push(format!("[{}] ({} octets) delivered {how}; close={close} datagram={datagram}", labels.join(" "), noise.len()));
            }
            let mut t = if transcript { Some(&mut res.transcript) } else { None };
            match link_liveness(&mut sim, &mut p, close, datagram, &mut t) {
                Ok(n) => {
                    if datagram && n > 0 && sim.sessions == 1 {
                        res.violation = Some(Violation::new("C01.O3", key.clone(), format!("datagram mode: after noise [{}] the first well-formed request datagram is not served (needed {} more)", labels.join(" "), n)));
                        return res;
                    }
                    res.nontrivial = true;
                    res.model_states.push(((sim.sessions as u64) << 8) | n as u64);
                }
                Err(e) => {
                    let clause = if sim.failure().is_some() { "C01.O1" } else { "C01.O3" };
                    res.violation = Some(Violation::new(clause, fail_key(&key, &e), format!("[{}] delivered {how} (close={close}, datagram={datagram}): {e}", labels.join(" "))));
                    return res;
                }
            }
        }
        res
    }
}

struct OTransport {
    depth: usize,
    alphabet: Vec<(String, u8, i8, usize, u16)>, // label, FIR/FIN bits, seq delta, payload, source
}

fn build_otransport(tier: &str) -> OTransport {
    let mut alphabet = Vec::new();
    for (bits, bl) in [(0xC0u8, "FIR+FIN"), (0x40, "FIR"), (0x80, "FIN"), (0x00, "middle")] {
        for delta in [0i8, 1, -1] {
            for payload in [0usize, 1, 249] {
                for src in [1u16, 2] {
                    if tier == "quick" && ((delta == -1 && payload == 1) || (src == 2 && payload != 249)) {
                        continue;
                    }
                    alphabet.push((format!("{bl}/seq{delta:+}/{payload}B/src{src}"), bits, delta, payload, src));
                }
            }
        }
    }
    OTransport { depth: if tier == "quick" { 2 } else { 3 }, alphabet }
}

impl CaseSpace for OTransport {
    fn name(&self) -> String {
        format!("outstation-transport-segments-depth{}", self.depth)
    }
    fn seeded(&self) -> bool {
        true
    }
    fn total(&self) -> usize {
        let n = self.alphabet.len();
        (1..=self.depth).map(|d| n.pow(d as u32)).sum::<usize>() * 2
    }
    fn run(&self, index: usize, transcript: bool) -> RunResult {
        let mut res = RunResult::default();
        let small = index % 2 == 1;
        let seq = decode_seq(index / 2, self.alphabet.len(), self.depth);
        let c = Corner { sol_tx: 2048, unsol_tx: 2048, rx: if small { 249 } else { 500 }, decode_all: !small, close: true };
        let mut sim = OSim::new(&ocfg(&c, false), 1);
        populate(&mut sim, false);
        let mut p = OProbe { seq: 0 };
        let mut tseq: u8 = 17;
        let mut labels = Vec::new();
        for i in &seq {
            let (label, bits, delta, payload, src) = &self.alphabet[*i];
            tseq = (tseq as i16 + *delta as i16).rem_euclid(64) as u8;
            let mut seg = vec![bits | tseq];
            seg.extend((0..*payload).map(|k| if k == 0 { 0xC1 } else { k as u8 }));
            sim.send_raw(&link::master_data(OUT, *src, &seg));
            labels.push(label.clone());
            res.transitions += 1;
        }
        let key = format!("outstation/transport/{}", labels.join(","));
        res.obs = index as u64 + 7777;
        if transcript {
            res.transcript.push(format!("segments [{}], rx buffer {}", labels.join(" "), c.rx));
        }
        // the probe is a fresh FIR+FIN fragment: it must be served at once
        sim.tseq = (tseq + 5) & 0x3F;
        match p.probe(&mut sim, 0, if transcript { Some(&mut res.transcript) } else { None }) {
            Ok(objs) if binaries_ok(&objs) => res.nontrivial = true,
            Ok(objs) => res.violation = Some(Violation::new("C01.O2", key.clone(), format!("after segments [{}] the probe is answered with {}", labels.join(" "), app::hex(&objs)))),
            Err(e) => {
                let clause = if sim.failure().is_some() { "C01.O1" } else { "C01.O3" };
                res.violation = Some(Violation::new(clause, fail_key(&key, &e), format!("after segments [{}] (rx {}): {e}", labels.join(" "), c.rx)));
            }
        }
        finish(&mut res, &sim, "C01.O1", key, "transport segments");
        res.model_states.push(seq.len() as u64);
        res
    }
}

// ---------------------------------------------------------------------------------------
// (O-e) a connection that replaces a live one: nothing of the old connection may leak
// ---------------------------------------------------------------------------------------

/// The TCP server hands a new connection to the outstation while the old session is still
/// open (half-open connection: the master's side died, the outstation never saw it end).
/// Whatever the old connection delivered -- half a frame, half a fragment, a request in
/// progress -- the stream of the new connection is well-formed and must be served as such.
struct OReplaced {
    prefixes: Vec<(String, Vec<u8>)>,
}

fn build_oreplaced() -> OReplaced {
    let mut v: Vec<(String, Vec<u8>)> = vec![("nothing".into(), vec![])];
    let read = link::master_data(OUT, 1, &[0xC0, 0xC1, 0x01, 60, 1, 0x06]);
    for n in [1usize, 2, 3, 5, 9, 10, 11, 14, read.len() - 1] {
        v.push((format!("first-{n}-octets-of-a-request-frame"), read[..n].to_vec()));
    }
    v.push(("05".into(), vec![0x05]));
    let mut seg = vec![0x40u8 | 9];
    seg.extend_from_slice(&[0xC0, 0x02, 50, 1, 0x07, 1]);
    v.push(("first-segment-of-a-two-segment-fragment".into(), link::master_data(OUT, 1, &seg)));
    let mut big = vec![0x40u8 | 3];
    big.extend((0..249).map(|k| if k == 0 { 0xC1 } else { k as u8 }));
    v.push(("full-first-segment".into(), link::master_data(OUT, 1, &big)));
    v.push(("reset-link-then-half-a-frame".into(), {
        let mut b = link::frame(0xC0, OUT, 1, &[]);
        b.extend_from_slice(&read[..7]);
        b
    }));
    OReplaced { prefixes: v }
}

impl CaseSpace for OReplaced {
    fn name(&self) -> String {
        "outstation-replaced-connection".into()
    }
    fn seeded(&self) -> bool {
        true
    }
    fn total(&self) -> usize {
        self.prefixes.len() * 4 * 3
    }
    fn run(&self, index: usize, transcript: bool) -> RunResult {
        let mut res = RunResult::default();
        let (label, prefix) = &self.prefixes[index % self.prefixes.len()];
        let i = index / self.prefixes.len();
        let close = i % 2 == 0;
        let decode_all = (i / 2) % 2 == 0;
        let state = i / 4; // 0 idle, 1 solicited confirm wait, 2 unsolicited confirm wait
        res.obs = index as u64 + 4242;
        let c = Corner { sol_tx: 2048, unsol_tx: 2048, rx: 2048, decode_all, close };
        let mut sim = OSim::new(&ocfg(&c, state == 2), 1);
        populate(&mut sim, false);
        let mut p = OProbe { seq: 0 };
        let key = format!("outstation/replaced-connection/{label}");
        if enter_state(&mut sim, [0usize, 1, 5][state], &mut p).is_err() {
            return res;
        }
        sim.send_raw(prefix);
        res.transitions += 1;
        if transcript {
            res.transcript.push(format!("state {state}, close={close}: old connection delivered {label} ({} octets); a new connection replaces it", prefix.len()));
        }
        // no EOF on the old pipe: the server task drops the running session for the new one
        sim.connect(false);
        let sessions = sim.sessions;
        let window = if state == 2 { 3 * CONFIRM_MS } else { 0 };
        match p.probe(&mut sim, window, if transcript { Some(&mut res.transcript) } else { None }) {
            Ok(objs) if binaries_ok(&objs) => res.nontrivial = true,
            Ok(objs) => res.violation = Some(Violation::new("C01.O2", key.clone(), format!("probe answered with {}", app::hex(&objs)))),
            Err(e) => {
                let ended = sim.pipe.as_ref().map(|p| p.is_closed()).unwrap_or(true);
                let clause = if sim.failure().is_some() { "C01.O1" } else { "C01.O4" };
                res.violation = Some(Violation::new(
                    clause,
                    fail_key("outstation/replaced-connection", &e),
                    format!(
                        "old connection delivered {label}, then was replaced (close={close}, state {state}): the first well-formed request on the new connection: {e}{}",
                        if ended { "; the new session was ended although its own stream is well-formed" } else { "" }
                    ),
                ));
            }
        }
        let _ = sessions;
        finish(&mut res, &sim, "C01.O1", key, label);
        res.model_states.push(state as u64);
        res
    }
}

// ---------------------------------------------------------------------------------------
// master
// ---------------------------------------------------------------------------------------

const RESPONSE_TIMEOUT_MS: u64 = 1000;

fn quiet_assoc() -> AssociationConfig {
    let mut a = AssociationConfig::quiet();
    a.response_timeout = dnp3::app::Timeout::from_millis(RESPONSE_TIMEOUT_MS).unwrap();
    a
}

fn startup_assoc() -> AssociationConfig {
    let mut a = AssociationConfig::new(
        EventClasses::all(),
        EventClasses::all(),
        Classes::all(),
        EventClasses::none(),
    );
    a.response_timeout = dnp3::app::Timeout::from_millis(RESPONSE_TIMEOUT_MS).unwrap();
    a.auto_time_sync = Some(TimeSyncProcedure::Lan);
    a
}

fn mcfg(decode_all: bool, close: bool, small: bool) -> MCfg {
    MCfg { tx: if small { 249 } else { 2048 }, rx: if small { 2048 } else { 4096 }, decode_all, close_on_error: close, reconnect_delay_ms: 1000 }
}

fn last_request(sim: &mut MSim) -> Option<Vec<u8>> {
    sim.take_out().iter().filter_map(|t| t.frag()).filter(|f| f.len() >= 2 && f[1] != 0).last().map(|f| f.to_vec())
}

/// a fresh user READ must be written and its ideal reply must complete it
fn master_probe(sim: &mut MSim, a: &AssociationHandle, name: &str, transcript: Option<&mut Vec<String>>) -> Result<(), String> {
    let mut t = transcript;
    if let Some(f) = sim.failure() {
        return Err(f);
    }
    // a closed session: the client loop reconnects after its delay
    sim.take_cb();
    let mut h = a.clone();
    let id = name.to_string();
    sim.take_out();
    sim.call(&id, async move { h.read(ReadRequest::class_scan(Classes::class0())).await });
    let mut waited = 0u64;
    let limit = 40_000u64;
    loop {
        if let Some(f) = sim.failure() {
            return Err(f);
        }
        if sim.pipe.as_ref().map(|p| p.is_closed()).unwrap_or(true) {
            sim.advance(1100);
            waited += 1100;
            sim.connect();
            if let Some(t) = t.as_deref_mut() {
                t.push("   session ended; new connection".into());
            }
        }
        let reqs: Vec<Vec<u8>> = sim.take_out().iter().filter_map(|t| t.frag()).filter(|f| f.len() >= 2 && f[1] != 0).map(|f| f.to_vec()).collect();
        for r in reqs {
            if let Some(t) = t.as_deref_mut() {
                t.push(format!("   master writes {}", app::hex(&r[..r.len().min(32)])));
            }
            // answer everything the master asks, ideally
            sim.respond(&ideal_reply(&r, 0));
        }
        let (cbs, _) = sim.take_cb();
        for c in cbs {
            if let MCb::Done(n, r) = &c {
                if n == &id {
                    if r.starts_with("Ok") {
                        return Ok(());
                    }
                    return Err(format!("the probe READ failed with {r}"));
                }
            }
        }
        if waited >= limit {
            return Err(format!("a fresh user READ is not completed within {limit} ms of virtual time although every request is answered"));
        }
        sim.advance(500);
        waited += 500;
    }
}

const MSTATES: [&str; 9] = [
    "idle",
    "awaiting-read-reply",
    "awaiting-select-reply",
    "awaiting-operate-reply",
    "startup-disable-unsolicited",
    "startup-integrity",
    "between-fragments",
    "awaiting-link-status",
    "awaiting-file-open-reply",
];

/// bring a master into a state; returns the association and the request it is waiting on
fn enter_mstate(sim: &mut MSim, state: usize) -> Result<(AssociationHandle, Option<Vec<u8>>), String> {
    let startup = state == 4 || state == 5;
    let a = sim.add_association(1024, if startup { startup_assoc() } else { quiet_assoc() }).ok_or("association not added")?;
    match state {
        0 => Ok((a, None)),
        1 | 6 => {
            let mut h = a.clone();
            sim.call("state-read", async move { h.read(ReadRequest::class_scan(Classes::all())).await });
            let r = last_request(sim).ok_or("no READ request written")?;
            if state == 6 {
                // first fragment of a series, confirmed by the master if it asks
                let mut v = app::hdr_range8(30, 1, 0, 0);
                v.push(0x01);
                v.extend_from_slice(&7i32.to_le_bytes());
                let f = app::response(app::ctrl(true, false, true, false, r[0] & 0x0F), fc::RESPONSE, 0, 0, &v);
                sim.respond(&f);
                sim.take_out();
            }
            Ok((a, Some(r)))
        }
        2 | 3 => {
            let mut h = a.clone();
            let cmd = CommandBuilder::single_header_u8(Group12Var1::from_op_type(OpType::LatchOn), 3);
            sim.call("state-command", async move { h.operate(CommandMode::SelectBeforeOperate, cmd).await });
            let r = last_request(sim).ok_or("no SELECT request written")?;
            if state == 2 {
                return Ok((a, Some(r)));
            }
            sim.respond(&ideal_reply(&r, 0));
            let r2 = last_request(sim).ok_or("no OPERATE request written")?;
            Ok((a, Some(r2)))
        }
        4 => {
            let r = last_request(sim).ok_or("no start-up request written")?;
            Ok((a, Some(r)))
        }
        5 => {
            let r = last_request(sim).ok_or("no start-up request written")?;
            sim.respond(&ideal_reply(&r, 0));
            let r2 = last_request(sim).ok_or("no integrity request written")?;
            Ok((a, Some(r2)))
        }
        7 => {
            let mut h = a.clone();
            sim.call("state-link-status", async move { h.check_link_status().await });
            sim.take_out();
            Ok((a, None))
        }
        _ => {
            let mut h = a.clone();
            sim.call("state-file", async move { h.get_file_info("x").await });
            let r = last_request(sim).ok_or("no file request written")?;
            Ok((a, Some(r)))
        }
    }
}

struct MFrags {
    tier: String,
    gvs: Vec<(u8, u8)>,
    quals: Vec<u8>,
}

fn build_mfrags(tier: &str) -> MFrags {
    let (gvs, quals) = menu(tier);
    MFrags { tier: tier.to_string(), gvs, quals }
}

const MCORNERS: [(bool, bool, bool); 3] = [(true, true, false), (false, false, true), (true, false, false)];

impl MFrags {
    fn n_func(&self) -> usize {
        256 * MCORNERS.len()
    }
}

impl CaseSpace for MFrags {
    fn name(&self) -> String {
        format!("master-fragments-{}", self.tier)
    }
    fn seeded(&self) -> bool {
        true
    }
    fn total(&self) -> usize {
        self.n_func() + self.gvs.len() * self.quals.len() * MCORNERS.len() + FF_VARS.len() * MCORNERS.len()
    }
    fn run(&self, index: usize, transcript: bool) -> RunResult {
        let mut res = RunResult::default();
        // (fragment, as reply to the outstanding READ?)
        let mut frags: Vec<(Vec<u8>, bool)> = Vec::new();
        let (corner, label) = if index < self.n_func() {
            let func = (index / MCORNERS.len()) as u8;
            for ctrl in [0xC0u8, 0xE0, 0xD0, 0xF0, 0x80, 0x40, 0x00, 0xA0] {
                for body in [vec![], vec![0u8, 0], vec![0x80, 0x00], vec![0xFF, 0xFF, 1, 2, 0x00, 0, 0, 0x81], vec![0, 0, 0xFF]] {
                    for reply in [true, false] {
                        let mut f = vec![ctrl, func];
                        f.extend_from_slice(&body);
                        frags.push((f, reply));
                    }
                }
            }
            if func == 0 {
                frags.push((vec![], true));
                frags.push((vec![0xC0], true));
                frags.push((vec![0xC0, 129, 0], true));
            }
            (MCORNERS[index % MCORNERS.len()], format!("function {func}"))
        } else if index >= self.n_func() + self.gvs.len() * self.quals.len() * MCORNERS.len() {
            let i = index - self.n_func() - self.gvs.len() * self.quals.len() * MCORNERS.len();
            let corner = MCORNERS[i % MCORNERS.len()];
            let var = FF_VARS[i / MCORNERS.len()];
            for objs in free_format_extremes(var) {
                frags.push((app::response(0xC0, fc::RESPONSE, 0, 0, &objs), true));
                if self.tier != "quick" {
                    frags.push((app::response(0xF0, fc::UNSOLICITED_RESPONSE, 0, 0, &objs), false));
                }
            }
            (corner, format!("g70v{var} free-format field extremes"))
        } else {
            let i = index - self.n_func();
            let corner = MCORNERS[i % MCORNERS.len()];
            let i = i / MCORNERS.len();
            let q = self.quals[i % self.quals.len()];
            let (g, v) = self.gvs[i / self.quals.len()];
            let max = if self.tier == "quick" { 700 } else { 5000 };
            for objs in hostile_objects(g, v, q, max) {
                frags.push((app::response(0xC0, fc::RESPONSE, 0, 0, &objs), true));
                frags.push((app::response(0xF0, fc::UNSOLICITED_RESPONSE, 0, 0, &objs), false));
                if self.tier != "quick" {
                    frags.push((app::response(0x80, fc::RESPONSE, 0x90, 0, &objs), true));
                }
            }
            (corner, format!("g{g}v{v} qualifier {q:02X}"))
        };
        let (decode_all, close, small) = corner;
        let mut h = Hasher::default();
        h.add_str(&label);
        h.add_u64((index % MCORNERS.len()) as u64);
        let mut sim = MSim::new(&mcfg(decode_all, close, small), 1);
        let key_base = format!("master/read-reply/{label}");
        let Some(a) = sim.add_association(1024, quiet_assoc()) else {
            res.violation = Some(Violation::new("C01.M1", key_base, "association cannot be added".to_string()));
            return res;
        };
        if transcript {
            res.transcript.push(format!("{label}: {} hostile fragments; decode_all={decode_all} close={close} small buffers={small}", frags.len()));
        }
        for (k, (f, reply)) in frags.iter().enumerate() {
            res.transitions += 1;
            let mut f = f.clone();
            if *reply {
                let mut hh = a.clone();
                sim.call(&format!("read-{k}"), async move { hh.read(ReadRequest::class_scan(Classes::class123())).await });
                if let Some(r) = last_request(&mut sim) {
                    if !f.is_empty() {
                        f[0] = (f[0] & 0xF0) | (r[0] & 0x0F);
                    }
                }
            } else if !f.is_empty() {
                f[0] = (f[0] & 0xF0) | (k as u8 & 0x0F);
            }
            h.add(&f);
            if transcript {
                res.transcript.push(format!("-> {} {}", if *reply { "as the reply to a class READ:" } else { "unasked:" }, app::hex(&f[..f.len().min(48)])));
            }
            sim.respond(&f);
            let key = format!("master/{}/fc{}", if *reply { "awaiting-read-reply" } else { "idle" }, f.get(1).copied().unwrap_or(0));
            match master_probe(&mut sim, &a, &format!("probe-{k}"), if transcript { Some(&mut res.transcript) } else { None }) {
                Ok(()) => res.nontrivial = true,
                Err(e) => {
                    let clause = if sim.failure().is_some() { "C01.M1" } else { "C01.M3" };
                    res.violation = Some(Violation::new(clause, fail_key(&key, &e), format!("{label}: after {} ({}): {e}", app::hex(&f[..f.len().min(48)]), if *reply { "reply" } else { "unasked" })));
                    break;
                }
            }
        }
        if res.violation.is_none() {
            if let Some(f) = sim.failure() {
                res.violation = Some(Violation::new("C01.M1", key_base, f));
            }
        }
        res.model_states.push(sim.sessions as u64);
        res.obs = h.0;
        res
    }
}

struct MStates {
    hostile: Vec<(String, Vec<u8>)>,
}

fn master_small_hostile() -> Vec<(String, Vec<u8>)> {
    let mut v: Vec<(String, Vec<u8>)> = Vec::new();
    for func in 0..=255u8 {
        v.push((format!("fc{func}"), vec![0xC0, func, 0, 0]));
    }
    let mut g30 = app::hdr_range8(30, 1, 0, 0);
    g30.push(1);
    g30.extend_from_slice(&5i32.to_le_bytes());
    let special: Vec<(&str, u8, u8, u8, u8, Vec<u8>)> = vec![
        ("empty-response", 0xC0, 129, 0, 0, vec![]),
        ("response-con", 0xE0, 129, 0, 0, g30.clone()),
        ("response-not-fin", 0x80, 129, 0, 0, g30.clone()),
        ("response-not-fin-con", 0xA0, 129, 0, 0, g30.clone()),
        ("response-not-fir", 0x40, 129, 0, 0, g30.clone()),
        ("response-middle", 0x00, 129, 0, 0, g30.clone()),
        ("response-uns-bit", 0xD0, 129, 0, 0, g30.clone()),
        ("unsolicited-with-data", 0xF0, 130, 0, 0, g30.clone()),
        ("unsolicited-without-uns-bit", 0xE0, 130, 0, 0, g30.clone()),
        ("unsolicited-null-restart", 0xF0, 130, 0x80, 0, vec![]),
        ("unsolicited-not-fin", 0xB0, 130, 0, 0, g30.clone()),
        ("response-all-iin", 0xC0, 129, 0xFF, 0xFF, vec![]),
        ("response-need-time", 0xC0, 129, 0x10, 0, vec![]),
        ("response-restart", 0xC0, 129, 0x80, 0, vec![]),
        ("response-truncated-object", 0xC0, 129, 0, 0, g30[..7].to_vec()),
        ("response-unknown-object", 0xC0, 129, 0, 0, vec![99, 1, 0x06]),
        ("response-g110-to-65535", 0xC0, 129, 0, 0, {
            let mut o = app::hdr_range16(110, 1, 65535, 65535);
            o.push(0x41);
            o
        }),
        ("response-g1-range-to-65535", 0xC0, 129, 0, 0, {
            let mut o = app::hdr_range16(1, 1, 65528, 65535);
            o.push(0xAA);
            o
        }),
        ("response-g52-delay", 0xC0, 129, 0, 0, vec![52, 2, 0x07, 1, 0xFF, 0xFF]),
        ("response-g50-time", 0xC0, 129, 0, 0, app::g50v1_objects((1 << 48) - 1)),
        ("response-file-status", 0xC0, 129, 0, 0, free_format(4, &[1, 0, 0, 0, 0, 0, 0, 0, 100, 0, 0, 0, 5])),
        ("response-file-truncated", 0xC0, 129, 0, 0, free_format(7, &[20, 0, 200, 0])),
        ("response-crob-echo", 0xC0, 129, 0, 0, app::prefixed8(12, 1, &[(3, app::crob(0x03, 1, 0, 0, 0))])),
        ("response-crob-status-127", 0xC0, 129, 0, 0, app::prefixed8(12, 1, &[(3, app::crob(0x03, 1, 0, 0, 127))])),
        ("request-read", 0xC0, fc::READ, 60, 1, vec![0x06]),
        ("request-confirm", 0xC0, 0, 0, 0, vec![]),
    ];
    for (n, c, f, i1, i2, o) in special {
        let mut b = vec![c, f, i1, i2];
        b.extend(o);
        v.push((n.to_string(), b));
    }
    v.push(("empty-fragment".into(), vec![]));
    v.push(("three-octet-fragment".into(), vec![0xC0, 129, 0]));
    v
}

impl CaseSpace for MStates {
    fn name(&self) -> String {
        "master-states".into()
    }
    fn seeded(&self) -> bool {
        true
    }
    fn total(&self) -> usize {
        MCORNERS.len() * MSTATES.len() * self.hostile.len() * SEQ_MODES
    }
    fn run(&self, index: usize, transcript: bool) -> RunResult {
        let mut res = RunResult::default();
        let (decode_all, close, small) = MCORNERS[index % MCORNERS.len()];
        let i = index / MCORNERS.len();
        let state = i % MSTATES.len();
        let i = i / MSTATES.len();
        let mode = i % SEQ_MODES;
        let (label, frag) = &self.hostile[i / SEQ_MODES];
        let mut h = Hasher::default();
        h.add_str(label);
        h.add_u64(index as u64);
        res.obs = h.0;
        let mut sim = MSim::new(&mcfg(decode_all, close, small), 1);
        let key = format!("master/{}/{}", MSTATES[state], label);
        let (a, req) = match enter_mstate(&mut sim, state) {
            Ok(x) => x,
            Err(e) => {
                if let Some(f) = sim.failure() {
                    res.violation = Some(Violation::new("C01.M1", key, format!("while entering the state: {f}")));
                } else if transcript {
                    res.transcript.push(format!("state not reached: {e}"));
                }
                if std::env::var("VERIF_C01_STRICT").is_ok() && res.violation.is_none() {
                    res.violation = Some(Violation::new("C01.X0", format!("master/{}", MSTATES[state]), format!("state not reached: {e}")));
                }
                return res;
            }
        };
        let mut f = frag.clone();
        if !f.is_empty() {
            let want = req.as_ref().map(|r| r[0] & 0x0F).unwrap_or(0);
            let seq = match mode {
                0 => want,
                1 => (want + 1) & 0x0F,
                _ => (want + 15) & 0x0F,
            };
            f[0] = (f[0] & 0xF0) | seq;
        }
        if transcript {
            res.transcript.push(format!("state {} (outstanding request {:?}); decode_all={decode_all} close={close} small={small}", MSTATES[state], req.as_ref().map(|r| app::hex(&r[..r.len().min(16)]))));
            res.transcript.push(format!("-> {label}: {}", app::hex(&f[..f.len().min(64)])));
        }
        res.transitions += 1;
        sim.respond(&f);
        match master_probe(&mut sim, &a, "probe", if transcript { Some(&mut res.transcript) } else { None }) {
            Ok(()) => res.nontrivial = true,
            Err(e) => {
                let clause = if sim.failure().is_some() { "C01.M1" } else { "C01.M3" };
                res.violation = Some(Violation::new(clause, fail_key(&key, &e), format!("{label} ({}) in state {}: {e}", app::hex(&f[..f.len().min(48)]), MSTATES[state])));
            }
        }
        sim.advance(10_000);
        if res.violation.is_none() {
            if let Some(f) = sim.failure() {
                res.violation = Some(Violation::new("C01.M1", key, f));
            }
        }
        res.model_states.push(state as u64);
        res
    }
}

struct MStream {
    tokens: Vec<(String, Vec<u8>)>,
    depth: usize,
}

fn master_link_tokens() -> Vec<(String, Vec<u8>)> {
    let mut v: Vec<(String, Vec<u8>)> = Vec::new();
    for (n, b) in link_tokens() {
        if n.starts_with("header") || n.len() <= 4 || n.contains("body-block") {
            v.push((n, b));
        }
    }
    v.push(("link-status-request".into(), link::frame(0x49, 1, 1024, &[])));
    v.push(("link-status".into(), link::frame(0x0B, 1, 1024, &[])));
    v.push(("ack".into(), link::frame(0x00, 1, 1024, &[])));
    v.push(("nack".into(), link::frame(0x01, 1, 1024, &[])));
    v.push(("data-from-master-direction".into(), link::frame(0xC4, 1, 1024, &[0xC0, 0xC1, 0x81, 0, 0])));
    v.push(("data-to-other-address".into(), link::frame(0x44, 77, 1024, &[0xC0, 0xC1, 0x81, 0, 0])));
    v.push(("data-zero-payload".into(), link::frame(0x44, 1, 1024, &[])));
    v.push(("data-max-payload".into(), link::frame(0x44, 1, 1024, &[0xC1; 250])));
    v.push(("middle-segment".into(), link::frame(0x44, 1, 1024, &[0x05, 1, 2, 3])));
    v
}

impl CaseSpace for MStream {
    fn name(&self) -> String {
        format!("master-link-noise-depth{}", self.depth)
    }
    fn seeded(&self) -> bool {
        true
    }
    fn total(&self) -> usize {
        let n = self.tokens.len();
        (1..=self.depth).map(|d| n.pow(d as u32)).sum::<usize>() * 4
    }
    fn run(&self, index: usize, transcript: bool) -> RunResult {
        let mut res = RunResult::default();
        let close = index % 2 == 1;
        let awaiting = (index / 2) % 2 == 1;
        let seq = decode_seq(index / 4, self.tokens.len(), self.depth);
        let mut noise = Vec::new();
        let mut labels = Vec::new();
        for i in &seq {
            noise.extend_from_slice(&self.tokens[*i].1);
            labels.push(self.tokens[*i].0.clone());
        }
        res.obs = index as u64 + 31337;
        let key = format!("master/link/{}", labels.join("+"));
        let mut cuts: Vec<Vec<usize>> = vec![vec![], (1..noise.len()).collect()];
        for c in [1usize, 2, 9, 10, 11] {
            if c < noise.len() {
                cuts.push(vec![c]);
            }
        }
        let mut off = 0;
        for i in &seq {
            off += self.tokens[*i].1.len();
            if off < noise.len() && !cuts.contains(&vec![off]) {
                cuts.push(vec![off]);
            }
        }
        for cut in &cuts {
            let mut sim = MSim::new(&mcfg(!close, close, false), 1);
            let Some(a) = sim.add_association(1024, quiet_assoc()) else { return res };
            if awaiting {
                let mut hh = a.clone();
                sim.call("outstanding", async move { hh.read(ReadRequest::class_scan(Classes::class123())).await });
                sim.take_out();
            }
            let mut last = 0;
            for &c in cut.iter().chain(std::iter::once(&noise.len())) {
                sim.send_raw(&noise[last..c]);
                last = c;
            }
            res.transitions += 1;
            let how = if cut.is_empty() { "whole".to_string() } else if cut.len() > 1 { "one octet at a time".to_string() } else { format!("split at {}", cut[0]) };
            if transcript {
                res.transcript.push(format!("[{}] delivered {how}; close={close}, request outstanding={awaiting}", labels.join(" ")));
            }
            // in Discard mode a half-received frame may swallow the first replies: repeat
            let mut ok = false;
            let mut last_err = String::new();
            for attempt in 0..16 {
                match master_probe(&mut sim, &a, &format!("probe-{attempt}"), if transcript { Some(&mut res.transcript) } else { None }) {
                    Ok(()) => {
                        ok = true;
                        res.model_states.push(((sim.sessions as u64) << 8) | attempt as u64);
                        break;
                    }
                    Err(e) => {
                        last_err = e;
                        if sim.failure().is_some() {
                            break;
                        }
                    }
                }
            }
            if !ok {
                let clause = if sim.failure().is_some() { "C01.M1" } else { "C01.M3" };
                res.violation = Some(Violation::new(clause, fail_key(&key, &last_err), format!("[{}] delivered {how} (close={close}, outstanding={awaiting}): {last_err}", labels.join(" "))));
                return res;
            }
            res.nontrivial = true;
        }
        res
    }
}

// ---------------------------------------------------------------------------------------
// (M-d) a peer that never answers but never falls silent either
// ---------------------------------------------------------------------------------------

/// For each task state with an outstanding request: the peer never answers that request but
/// keeps sending something the master ignores (or handles without it being the answer), at a
/// period shorter than the response timeout.  The master must not stall: the outstanding task
/// ends (times out) and a fresh user READ, whose request *is* answered, completes.
struct MChatter;

const CHATTER: [&str; 6] = [
    "unsolicited-with-data",
    "response-uns-bit",
    "response-from-other-address",
    "link-status-request",
    "stale-response",
    "unsolicited-null",
];
const CHATTER_PERIODS: [u64; 3] = [300, 700, 999];
const CHATTER_STATES: [usize; 7] = [1, 2, 3, 4, 5, 6, 8];

fn chatter_bytes(sim: &mut MSim, kind: usize, outstanding_seq: u8, round: u8) -> Vec<u8> {
    let mut g30 = app::hdr_range8(30, 1, 0, 0);
    g30.push(1);
    g30.extend_from_slice(&5i32.to_le_bytes());
    match kind {
        0 => sim.frame_fragment(1024, 1, &app::response(0xF0 | (round & 0x0F), 130, 0, 0, &g30)),
        1 => sim.frame_fragment(1024, 1, &app::response(0xD0 | outstanding_seq, 129, 0, 0, &g30)),
        2 => sim.frame_fragment(77, 1, &app::response(0xC0 | outstanding_seq, 129, 0, 0, &g30)),
        3 => link::frame(0x49, 1, 1024, &[]),
        4 => sim.frame_fragment(1024, 1, &app::response(0xC0 | ((outstanding_seq + 8) & 0x0F), 129, 0, 0, &g30)),
        _ => sim.frame_fragment(1024, 1, &app::response(0xF0 | (round & 0x0F), 130, 0, 0, &[])),
    }
}

impl CaseSpace for MChatter {
    fn name(&self) -> String {
        "master-chatter".into()
    }
    fn seeded(&self) -> bool {
        true
    }
    fn total(&self) -> usize {
        CHATTER.len() * CHATTER_PERIODS.len() * CHATTER_STATES.len() * 2
    }
    fn run(&self, index: usize, transcript: bool) -> RunResult {
        let mut res = RunResult::default();
        let kind = index % CHATTER.len();
        let i = index / CHATTER.len();
        let period = CHATTER_PERIODS[i % CHATTER_PERIODS.len()];
        let i = i / CHATTER_PERIODS.len();
        let state = CHATTER_STATES[i % CHATTER_STATES.len()];
        let decode_all = i / CHATTER_STATES.len() == 0;
        res.obs = index as u64 + 777;
        let key = format!("master/{}/chatter-{}", MSTATES[state], CHATTER[kind]);
        let mut sim = MSim::new(&mcfg(decode_all, false, false), 1);
        let (a, req) = match enter_mstate(&mut sim, state) {
            Ok((a, Some(r))) => (a, r),
            Ok((_, None)) => return res,
            Err(e) => {
                if let Some(f) = sim.failure() {
                    res.violation = Some(Violation::new("C01.M1", key, format!("while entering the state: {f}")));
                } else if transcript {
                    res.transcript.push(format!("state not reached: {e}"));
                }
                return res;
            }
        };
        if transcript {
            res.transcript.push(format!(
                "state {} (outstanding request {}), never answered; the peer sends {} every {period} ms",
                MSTATES[state],
                app::hex(&req[..req.len().min(16)]),
                CHATTER[kind]
            ));
        }
        let mut h = a.clone();
        sim.take_cb();
        sim.take_out();
        sim.call("probe", async move { h.read(ReadRequest::class_scan(Classes::class0())).await });
        let limit = 12 * RESPONSE_TIMEOUT_MS;
        let mut waited = 0u64;
        let mut round = 0u8;
        let mut served = false;
        'outer: while waited < limit {
            let reqs: Vec<Vec<u8>> = sim.take_out().iter().filter_map(|t| t.frag()).filter(|f| f.len() >= 2 && f[1] != 0).map(|f| f.to_vec()).collect();
            for r in reqs {
                if transcript {
                    res.transcript.push(format!("   t+{waited}: master writes {}", app::hex(&r[..r.len().min(32)])));
                }
                if r != req {
                    sim.respond(&ideal_reply(&r, 0));
                }
            }
            let (cbs, _) = sim.take_cb();
            for c in cbs {
                if let MCb::Done(n, r) = &c {
                    if transcript {
                        res.transcript.push(format!("   t+{waited}: {n} -> {r}"));
                    }
                    if n == "probe" {
                        served = r.starts_with("Ok");
                        break 'outer;
                    }
                }
            }
            if sim.failure().is_some() {
                break;
            }
            round = round.wrapping_add(1);
            let b = chatter_bytes(&mut sim, kind, req[0] & 0x0F, round);
            sim.send_raw(&b);
            res.transitions += 1;
            sim.advance(period);
            waited += period;
        }
        if let Some(f) = sim.failure() {
            res.violation = Some(Violation::new("C01.M1", fail_key(&key, &f), f));
        } else if !served {
            res.violation = Some(Violation::new(
                "C01.M3",
                key,
                format!(
                    "request {} is never answered while the peer sends {} every {period} ms (response timeout {RESPONSE_TIMEOUT_MS} ms): after {waited} ms a fresh user READ has still not completed",
                    app::hex(&req[..req.len().min(16)]),
                    CHATTER[kind]
                ),
            ));
        } else {
            res.nontrivial = true;
        }
        res.model_states.push((state * 10 + kind) as u64);
        res
    }
}

// ---------------------------------------------------------------------------------------

fn spaces(tier: &str) -> Vec<Box<dyn CaseSpace>> {
    vec![
        Box::new(build_ofrags(tier)),
        Box::new(OStates { corners: corners(tier), hostile: small_hostile() }),
        Box::new(build_omax(tier)),
        Box::new(OHuge),
        Box::new(build_ostream(tier)),
        Box::new(build_otransport(tier)),
        Box::new(build_oreplaced()),
        Box::new(build_mfrags(tier)),
        Box::new(MStates { hostile: master_small_hostile() }),
        Box::new(MChatter),
        Box::new(MStream { tokens: master_link_tokens(), depth: if tier == "quick" { 2 } else { 3 } }),
    ]
}

pub fn replay(name: &str, path: &[usize]) -> Option<RunResult> {
    for tier in ["quick", "thorough"] {
        for s in spaces(tier) {
            if s.name() == name && path[0] < s.total() {
                return Some(s.run(path[0], true));
            }
        }
    }
    None
}

pub fn check(tier: &str) -> i32 {
    let mut c = Check::new("C01", tier);
    for s in spaces(tier) {
        c.cases(s.as_ref());
    }
    let _ = Duration::from_millis(0);
    let _ = transport::FIN;
    c.finish(
        "model_checking",
        "finite products of hostile input x session state x configuration corner, each run against the real outstation task (inside the real server task) or the real master task (inside the client loop) over the production link and transport layers and a byte pipe on a virtual clock: \
         outstation: (a) every function code 0..=255 x 6 control octets x 5 object strings x {own address, broadcast 0xFFFF / 0xFFFD}, and the object-header product (every known variation + unknown ones x 12 qualifier codes x 7 count/range shapes x {exact, -1 octet, +1 octet, header only} x {data, no data}) under 4 (17 thorough) function codes; (b) 10 session states (idle, solicited confirm wait, after fragment 1 / 2 of a series, unsolicited null / data confirm wait, deferred READ pending, event overflow during a solicited / an unsolicited confirm wait, selected) x 290 hostile fragments x {awaited, next, unrelated sequence number}; (c) control requests of every length around the transmit and receive buffer sizes; (d) every sequence of <= 2 (3) link tokens (sync fragments, headers with 7 length octets with good and bad CRC, body blocks, link-layer frames, wrong direction / address, empty and maximal payloads) under every relevant chunking x {Discard, Close} x {stream, datagram}; (e) every sequence of <= 2 (3) transport segments over FIR/FIN x sequence step x payload {0,1,249} x source, receive buffers 249 / 500; \
         master: (f) every function code x 8 control octets x 5 bodies and the object-header product as a reply to an outstanding READ and unasked / unsolicited; (g) 9 task states (idle, awaiting READ / SELECT / OPERATE / start-up / integrity / file replies, between fragments, link status) x 285 hostile fragments x 3 sequence numbers; (h) link tokens as in (d); (i) 7 task states with an outstanding request that is never answered x 6 kinds of traffic the master does not take as the answer (unsolicited data / null responses, response with the UNS bit, response from another address, link status requests, stale sequence number) repeated at 3 periods below the response timeout: a fresh user READ must still complete. \
         After the hostile input a probe must be served: outstation = READ g1v0 answered with the probe's sequence number and the two binary inputs (repeated probes and a new session only where a mis-framed stream legitimately swallows frames or Close ends the session); master = a fresh user READ is written and completed by its ideal reply. Every run is under catch_unwind with overflow checks, a poll cap (livelock) and a wall-clock watchdog (hang). \
         non-trivial = the probe was served after hostile input; distinct = distinct (input, state, corner)",
        &[
            "object *values* inside well-formed objects are pattern bytes, not enumerated (C04/C10/C18 cover the interpreted ones)",
            "the pipe replaces sockets: OS-level partial writes and back-pressure are not modelled",
            "decode levels: everything on (all Display code runs through the formatting subscriber) or everything off; buffer sizes: 249 / 300 / 2048 and mixed",
            "in stream mode a mis-framed prefix may legitimately swallow following frames: the oracle demands that repeated well-formed requests are served within 24 attempts",
        ],
        serde_json::json!({}),
    )
}
