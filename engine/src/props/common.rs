//! helpers shared by the outstation state-machine checks

use dnp3::app::measurement::*;
use dnp3::app::Timestamp;
use dnp3::outstation::database::*;

use crate::explore::{Hasher, RunResult};
use crate::osim::{Cb, OSim, Tx};
use crate::wire::app;

pub struct Step {
    pub now: u64,
    pub cbs: Vec<Cb>,
    /// observation order of each callback (comparable with `Tx::Frag::ord`)
    pub cb_ords: Vec<u64>,
    pub out: Vec<Tx>,
}

impl Step {
    pub fn frags(&self) -> Vec<&[u8]> {
        self.out.iter().filter_map(|t| t.frag()).collect()
    }
    pub fn resps(&self) -> Vec<app::Resp> {
        self.frags().into_iter().filter_map(app::Resp::parse).collect()
    }
}

/// collect what happened since the last call, fold it into the observation hash and the
/// transcript
pub fn collect(
    sim: &mut OSim,
    res: &mut RunResult,
    obs: &mut Hasher,
    label: &str,
    sent: Option<&[u8]>,
    transcript: bool,
) -> Step {
    let (cbs, cb_ords) = sim.take_cb_ordered();
    let step = Step { now: sim.k.now_ms(), cbs, cb_ords, out: sim.take_out() };
    res.transitions += 1;
    obs.add_str(label);
    for c in &step.cbs {
        obs.add_str(&format!("{c:?}"));
    }
    for t in &step.out {
        match t {
            Tx::Frag { data, .. } => obs.add(data),
            Tx::Link { frame, .. } => {
                obs.add(&[frame.ctrl]);
            }
            Tx::Garbage { len, .. } => obs.add_u64(*len as u64),
        }
    }
    if transcript {
        res.transcript.push(format!("t={} EVENT {}", step.now, label));
        if let Some(f) = sent {
            res.transcript.push(format!("   -> {}", app::hex(f)));
        }
        for c in &step.cbs {
            res.transcript.push(format!("   cb {c:?}"));
        }
        for t in &step.out {
            match t {
                Tx::Frag { t, data, .. } => res.transcript.push(format!("   <- (t={t}) {}", app::hex(data))),
                other => res.transcript.push(format!("   <- {other:?}")),
            }
        }
    }
    step
}

pub fn ts(ms: u64) -> Time {
    Time::Synchronized(Timestamp::new(ms))
}

pub fn binary(v: bool, t: u64) -> BinaryInput {
    BinaryInput::new(v, Flags::ONLINE, ts(t))
}

pub fn analog(v: f64, t: u64) -> AnalogInput {
    AnalogInput::new(v, Flags::ONLINE, ts(t))
}

pub fn counter(v: u32, t: u64) -> Counter {
    Counter::new(v, Flags::ONLINE, ts(t))
}

/// `n` analog inputs (g30v1 static, class 2) : forces multi-fragment class-0 responses at 249
pub fn add_analogs(db: &mut Database, n: u16, class: Option<EventClass>) {
    for i in 0..n {
        db.add(i, class, AnalogInputConfig::default());
    }
}

pub fn add_binaries(db: &mut Database, n: u16, class: Option<EventClass>) {
    for i in 0..n {
        db.add(i, class, BinaryInputConfig::default());
    }
}

pub fn add_counters(db: &mut Database, n: u16, class: Option<EventClass>) {
    for i in 0..n {
        db.add(i, class, CounterConfig::default());
    }
}

/// run the null-unsolicited handshake with an ideal master: confirm the first null response.
/// Returns the UNS sequence number that was confirmed.
pub fn null_unsol_handshake(sim: &mut OSim) -> Option<u8> {
    sim.pump();
    let out = sim.take_out();
    let r = out.iter().filter_map(|t| t.frag()).filter_map(app::Resp::parse).find(|r| r.uns())?;
    let seq = r.seq();
    sim.send(&app::confirm(seq, true));
    Some(seq)
}
