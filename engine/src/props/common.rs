//! helpers shared by the outstation state-machine checks

use dnp3::app::measurement::*;
use dnp3::app::Timestamp;
use dnp3::outstation::database::*;

use crate::explore::{Hasher, RunResult};
use crate::osim::{Cb, OSim, Tx};
use crate::wire::app::{self, fc};

pub struct Step {
    pub now: u64,
    pub cbs: Vec<Cb>,
    /// observation order of each callback (comparable with `Tx::Frag::ord`)
    pub cb_ords: Vec<u64>,
    pub out: Vec<Tx>,
}

impl Step {
    pub fn frags(&self) -> Vec<&[u8]> {
        self.out.iter().filter_map(|t| t.frag()).collect()
    }
    pub fn resps(&self) -> Vec<app::Resp> {
        self.frags().into_iter().filter_map(app::Resp::parse).collect()
    }
}

/// collect what happened since the last call, fold it into the observation hash and the
/// transcript
pub fn collect(
    sim: &mut OSim,
    res: &mut RunResult,
    obs: &mut Hasher,
    label: &str,
    sent: Option<&[u8]>,
    transcript: bool,
) -> Step {
    let (cbs, cb_ords) = sim.take_cb_ordered();
    let step = Step { now: sim.k.now_ms(), cbs, cb_ords, out: sim.take_out() };
    res.transitions += 1;
    obs.add_str(label);
    for c in &step.cbs {
        obs.add_str(&format!("{c:?}"));
    }
    for t in &step.out {
        match t {
            Tx::Frag { data, .. } => obs.add(data),
            Tx::Link { frame, .. } => {
                obs.add(&[frame.ctrl]);
            }
            Tx::Garbage { len, .. } => obs.add_u64(*len as u64),
        }
    }
    if transcript {
        res.transcript.push(format!("t={} EVENT {}", step.now, label));
        if let Some(f) = sent {
            res.transcript.push(format!("   -> {}", app::hex(f)));
        }
        for c in &step.cbs {
            res.transcript.push(format!("   cb {c:?}"));
        }
        for t in &step.out {
            match t {
                Tx::Frag { t, data, .. } => res.transcript.push(format!("   <- (t={t}) {}", app::hex(data))),
                other => res.transcript.push(format!("   <- {other:?}")),
            }
        }
    }
    step
}

pub fn ts(ms: u64) -> Time {
    Time::Synchronized(Timestamp::new(ms))
}

pub fn binary(v: bool, t: u64) -> BinaryInput {
    BinaryInput::new(v, Flags::ONLINE, ts(t))
}

pub fn analog(v: f64, t: u64) -> AnalogInput {
    AnalogInput::new(v, Flags::ONLINE, ts(t))
}

pub fn counter(v: u32, t: u64) -> Counter {
    Counter::new(v, Flags::ONLINE, ts(t))
}

/// `n` analog inputs (g30v1 static, class 2) : forces multi-fragment class-0 responses at 249
pub fn add_analogs(db: &mut Database, n: u16, class: Option<EventClass>) {
    for i in 0..n {
        db.add(i, class, AnalogInputConfig::default());
    }
}

pub fn add_binaries(db: &mut Database, n: u16, class: Option<EventClass>) {
    for i in 0..n {
        db.add(i, class, BinaryInputConfig::default());
    }
}

pub fn add_counters(db: &mut Database, n: u16, class: Option<EventClass>) {
    for i in 0..n {
        db.add(i, class, CounterConfig::default());
    }
}

/// run the null-unsolicited handshake with an ideal master: confirm the first null response.
/// Returns the UNS sequence number that was confirmed.
pub fn null_unsol_handshake(sim: &mut OSim) -> Option<u8> {
    sim.pump();
    let out = sim.take_out();
    let r = out.iter().filter_map(|t| t.frag()).filter_map(app::Resp::parse).find(|r| r.uns())?;
    let seq = r.seq();
    sim.send(&app::confirm(seq, true));
    Some(seq)
}

// ---------------------------------------------------------------------------------------
// master side: an ideal outstation's reply to any request the master writes
// ---------------------------------------------------------------------------------------

pub fn free_format(var: u8, data: &[u8]) -> Vec<u8> {
    let mut v = vec![70, var, 0x5B, 1, data.len() as u8, (data.len() >> 8) as u8];
    v.extend_from_slice(data);
    v
}

/// ideal reply (a single FIR|FIN response fragment) to a request fragment; `iin1` is OR-ed in
pub fn ideal_reply(req: &[u8], iin1: u8) -> Vec<u8> {
    let seq = req[0] & 0x0F;
    let func = req[1];
    let objs = &req[2..];
    let ctrl = app::ctrl(true, true, false, false, seq);
    let file_obj = objs.len() >= 3 && objs[0] == 70 && objs[2] == 0x5B;
    let body: Vec<u8> = match func {
        fc::READ => {
            if file_obj && objs[1] == 5 {
                // file read: answer with the last (empty) block of the requested handle
                let h = &objs[6..10];
                let mut d = h.to_vec();
                let blk = u32::from_le_bytes([objs[10], objs[11], objs[12], objs[13]]) | 0x8000_0000;
                d.extend_from_slice(&blk.to_le_bytes());
                free_format(5, &d)
            } else {
                let mut v = app::hdr_range8(30, 1, 0, 0);
                v.push(0x01);
                v.extend_from_slice(&7i32.to_le_bytes());
                v
            }
        }
        fc::WRITE => {
            if file_obj && objs[1] == 5 {
                let mut d = objs[6..14].to_vec();
                d.push(0); // status success
                free_format(6, &d)
            } else {
                vec![]
            }
        }
        fc::SELECT | fc::OPERATE | fc::DIRECT_OPERATE => objs.to_vec(),
        fc::COLD_RESTART | fc::WARM_RESTART => vec![52, 2, 0x07, 1, 5, 0],
        fc::DELAY_MEASURE => vec![52, 2, 0x07, 1, 0, 0],
        fc::OPEN_FILE | fc::CLOSE_FILE => {
            // g70v4: handle, size, max block, request id, status
            let mut d = Vec::new();
            d.extend_from_slice(&7u32.to_le_bytes());
            d.extend_from_slice(&0u32.to_le_bytes());
            d.extend_from_slice(&100u16.to_le_bytes());
            d.extend_from_slice(&0u16.to_le_bytes());
            d.push(0);
            free_format(4, &d)
        }
        fc::GET_FILE_INFO => {
            let name = b"x";
            let mut d = Vec::new();
            d.extend_from_slice(&20u16.to_le_bytes());
            d.extend_from_slice(&(name.len() as u16).to_le_bytes());
            d.extend_from_slice(&1u16.to_le_bytes()); // simple file
            d.extend_from_slice(&4u32.to_le_bytes());
            d.extend_from_slice(&app::time48(1000));
            d.extend_from_slice(&0x01FFu16.to_le_bytes());
            d.extend_from_slice(&0u16.to_le_bytes());
            d.extend_from_slice(name);
            free_format(7, &d)
        }
        fc::AUTHENTICATE_FILE => {
            let mut d = Vec::new();
            d.extend_from_slice(&12u16.to_le_bytes());
            d.extend_from_slice(&0u16.to_le_bytes());
            d.extend_from_slice(&12u16.to_le_bytes());
            d.extend_from_slice(&0u16.to_le_bytes());
            d.extend_from_slice(&0xCAFEu32.to_le_bytes());
            free_format(2, &d)
        }
        _ => vec![],
    };
    app::response(ctrl, fc::RESPONSE, iin1, 0, &body)
}
