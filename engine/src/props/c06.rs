//! C06 — only intact link frames are delivered, and every frame sent is recovered.
//!
//! IN + SM over the real `link::reader::Reader` (parser + buffering) and the real frame
//! formatters; oracle = bit-serial CRC + specification framer (wire::link).

use dnp3::verif::seams::{self, FrameOut, LinkReaderSeam};

use crate::explore::{CaseSpace, Check, Hasher, RunResult, Violation};
use crate::wire::app::hex;
use crate::wire::link::{self, LinkFrame};

fn pattern(kind: u8, n: usize) -> Vec<u8> {
    match kind {
        0 => vec![0u8; n],
        1 => (0..n).map(|i| (i * 7 + 3) as u8).collect(),
        _ => {
            // contains start bytes and a complete embedded valid frame
            let mut v = Vec::new();
            let inner = link::frame(0xC4, 1, 2, &[0xC0, 0x01]);
            while v.len() < n {
                v.extend_from_slice(&[0x05, 0x64]);
                v.extend_from_slice(&inner);
                v.push(0x05);
            }
            v.truncate(n);
            v
        }
    }
}

fn same(a: &FrameOut, b: &LinkFrame) -> bool {
    a.ctrl == b.ctrl && a.dst == b.dst && a.src == b.src && a.payload == b.payload
}

/// feed `bytes` split at the given cut points; returns delivered frames and the first error
fn feed(close: bool, datagram: bool, frag: usize, bytes: &[u8], cuts: &[usize]) -> (Vec<FrameOut>, Option<String>) {
    let mut r = LinkReaderSeam::new(close, datagram, frag, false);
    let mut out = Vec::new();
    let mut prev = 0;
    let mut err = None;
    let mut points: Vec<usize> = cuts.to_vec();
    points.push(bytes.len());
    for p in points {
        if p <= prev || p > bytes.len() {
            continue;
        }
        r.handle.push(&bytes[prev..p]);
        prev = p;
        let (f, e) = r.drain();
        out.extend(f);
        if e.is_some() {
            err = e;
            break;
        }
    }
    (out, err)
}

fn feed_bytewise(close: bool, frag: usize, bytes: &[u8]) -> (Vec<FrameOut>, Option<String>) {
    let cuts: Vec<usize> = (1..bytes.len()).collect();
    feed(close, false, frag, bytes, &cuts)
}

// ---------------------------------------------------------------------------------------
// 1. round trip
// ---------------------------------------------------------------------------------------

struct RoundTrip {
    name: String,
    cases: Vec<(u8, u16, u16, usize, u8)>, // ctrl, dst, src, payload len, pattern
    all_splits: bool,
}

fn build_roundtrip(tier: &str) -> RoundTrip {
    let ctrls: Vec<u8> = if tier == "quick" {
        vec![0x44, 0xC4, 0x00, 0x0B, 0x49, 0xC9, 0x40, 0xC0, 0x73, 0xF3, 0x01, 0x0F, 0xFF, 0x80, 0x53, 0xD2]
    } else {
        (0..=255u8).collect()
    };
    let addrs: Vec<(u16, u16)> = if tier == "quick" {
        vec![(1024, 1), (0xFFFF, 0), (0xFFEF, 0xFFFC), (0x0564, 0x6405), (0xFFFD, 0xFFFE), (0xFFFE, 0xFFFD)]
    } else {
        vec![(1024, 1), (0xFFFF, 0), (0xFFEF, 0xFFFC), (0x0564, 0x6405), (0, 0xFFF0), (0xFFFD, 0xFFFE), (1, 1024)]
    };
    let lens: Vec<usize> = if tier == "quick" {
        let mut v: Vec<usize> = vec![0, 1, 2, 14, 15, 16, 17, 18, 31, 32, 33, 34, 48, 49, 240, 241, 247, 248, 249, 250];
        v.extend((50..240).step_by(19));
        v
    } else {
        (0..=250).collect()
    };
    let mut cases = Vec::new();
    for &c in &ctrls {
        for &(d, s) in &addrs {
            for &l in &lens {
                for p in 0..3u8 {
                    cases.push((c, d, s, l, p));
                }
            }
        }
    }
    RoundTrip { name: format!("round-trip-{tier}"), cases, all_splits: true }
}

impl CaseSpace for RoundTrip {
    fn name(&self) -> String {
        self.name.clone()
    }
    fn total(&self) -> usize {
        self.cases.len()
    }
    fn run(&self, index: usize, transcript: bool) -> RunResult {
        let (ctrl, dst, src, len, pat) = self.cases[index];
        let mut res = RunResult::default();
        let mut obs = Hasher::default();
        let payload = pattern(pat, len);
        let reference = link::frame(ctrl, dst, src, &payload);
        let want = LinkFrame::new(ctrl, dst, src, &payload);
        obs.add(&reference[..reference.len().min(12)]);
        obs.add_u64(len as u64);
        // the library's formatters produce the same bytes as the reference builder
        let lib: Option<Vec<u8>> = if len == 0 {
            let a = seams::link_format_header_fixed(ctrl, dst, src);
            let b = seams::link_format_header_only(ctrl, dst, src);
            if b.as_ref() != Some(&a) {
                res.violation = Some(Violation::new(
                    "C06.F1",
                    "header-formatters-disagree",
                    format!("fixed {} vs header_only {:?}", hex(&a), b.map(|x| hex(&x))),
                ));
                return res;
            }
            Some(a)
        } else {
            seams::link_format_data_ctrl(ctrl, dst, src, payload[0], &payload[1..])
        };
        // ControlField::from / to_u8 is lossy for undefined function codes only in that the byte
        // must round-trip: compare with the reference whenever the library produced a frame
        match &lib {
            None => {
                res.violation = Some(Violation::new("C06.F2", "formatter-refused-legal-frame", format!("ctrl {ctrl:02X} len {len}")));
                return res;
            }
            Some(b) => {
                if *b != reference {
                    res.violation = Some(Violation::new(
                        "C06.F3",
                        "formatted-frame-differs-from-reference",
                        format!("library {} reference {}", hex(&b[..b.len().min(40)]), hex(&reference[..reference.len().min(40)])),
                    ));
                    return res;
                }
            }
        }
        if ctrl & 0x5F == 0x44 && len >= 1 {
            // the path used by the transport writer
            let b = seams::link_format_data(ctrl & 0x80 != 0, dst, src, payload[0], &payload[1..]);
            if b.as_deref() != Some(&reference[..]) && ctrl & 0x20 == 0 {
                res.violation = Some(Violation::new("C06.F3", "formatted-frame-differs-from-reference", "unconfirmed_user_data path".to_string()));
                return res;
            }
        }
        // parse back under chunkings, both error modes; follow with a second frame so that
        // leftovers are noticed
        let tail = link::frame(0xC4, 7, 8, &[0xC1, 0xAA]);
        let want_tail = LinkFrame::new(0xC4, 7, 8, &[0xC1, 0xAA]);
        let mut stream = reference.clone();
        stream.extend_from_slice(&tail);
        let n = reference.len();
        let mut cuts_list: Vec<Vec<usize>> = vec![vec![], vec![n]];
        for c in 1..n {
            cuts_list.push(vec![c]);
        }
        if n <= 44 {
            for a in 1..n {
                for b in (a + 1)..n {
                    cuts_list.push(vec![a, b]);
                }
            }
        }
        for close in [true, false] {
            for frag in [249usize, 2048] {
                if frag == 2048 && !(close && len % 16 == 0) {
                    // buffer size only matters for wrap-around (separate space); spot check here
                    continue;
                }
                let mut runs: Vec<(Vec<FrameOut>, Option<String>, String)> = Vec::new();
                for cuts in &cuts_list {
                    let (f, e) = feed(close, false, frag, &stream, cuts);
                    runs.push((f, e, format!("cuts {cuts:?}")));
                    res.transitions += 1;
                }
                let (f, e) = feed_bytewise(close, frag, &stream);
                runs.push((f, e, "bytewise".to_string()));
                for (f, e, how) in runs {
                    let ok = e.is_none() && f.len() == 2 && same(&f[0], &want) && same(&f[1], &want_tail);
                    if !ok {
                        res.violation = Some(Violation::new(
                            "C06.P1",
                            format!("frame-not-parsed-back-identically:close={close}"),
                            format!("ctrl {ctrl:02X} dst {dst:04X} src {src:04X} len {len} pattern {pat} {how}: delivered {:?} error {e:?}", f.iter().map(|x| (x.ctrl, x.dst, x.src, x.payload.len())).collect::<Vec<_>>()),
                        ));
                        if transcript {
                            res.transcript.push(format!("stream {}", hex(&stream)));
                        }
                        res.obs = obs.0;
                        return res;
                    }
                }
            }
        }
        res.model_states.push(len as u64 % 17 + 100 * (pat as u64));
        res.obs = obs.0;
        res.nontrivial = true;
        if transcript {
            res.transcript.push(format!("frame {} parsed back under {} chunkings x 2 error modes", hex(&reference[..reference.len().min(30)]), cuts_list.len() + 1));
        }
        res
    }
}

// ---------------------------------------------------------------------------------------
// 1b. buffer wrap-around
// ---------------------------------------------------------------------------------------

struct Wrap {
    cases: Vec<(usize, usize, usize)>, // fragment size, filler payload len, chunk size
}

fn build_wrap(tier: &str) -> Wrap {
    let mut cases = Vec::new();
    let frags: &[usize] = if tier == "quick" { &[249, 498] } else { &[249, 250, 498, 2048] };
    let chunks: &[usize] = if tier == "quick" { &[100_000, 293] } else { &[100_000, 1, 7, 292, 293, 500] };
    for &f in frags {
        for filler in 0..=250usize {
            for &c in chunks {
                cases.push((f, filler, c));
            }
        }
    }
    Wrap { cases }
}

impl CaseSpace for Wrap {
    fn name(&self) -> String {
        "buffer-wrap-around".to_string()
    }
    fn total(&self) -> usize {
        self.cases.len()
    }
    fn run(&self, index: usize, transcript: bool) -> RunResult {
        let (frag, filler, chunk) = self.cases[index];
        let mut res = RunResult::default();
        let mut frames: Vec<LinkFrame> = vec![LinkFrame::new(0x44, 1, 1024, &pattern(1, filler))];
        let n_big = if frag >= 2048 { 12 } else { 5 };
        for i in 0..n_big {
            frames.push(LinkFrame::new(0xC4, 1024, 1, &pattern((i % 3) as u8, 250 - (i * 31) % 60)));
        }
        let mut stream = Vec::new();
        for f in &frames {
            stream.extend(f.encode());
        }
        let cuts: Vec<usize> = (1..=stream.len() / chunk.max(1)).map(|k| k * chunk).collect();
        let (got, err) = feed(true, false, frag, &stream, &cuts);
        res.transitions += 1;
        let ok = err.is_none() && got.len() == frames.len() && got.iter().zip(frames.iter()).all(|(a, b)| same(a, b));
        if !ok {
            res.violation = Some(Violation::new(
                "C06.P2",
                "frames-lost-or-corrupted-across-buffer-wrap",
                format!("fragment size {frag} filler {filler} chunk {chunk}: delivered {} of {} error {err:?}", got.len(), frames.len()),
            ));
        }
        if transcript {
            res.transcript.push(format!("fragment size {frag}, filler payload {filler}, chunk {chunk}: {} frames, {} bytes", frames.len(), stream.len()));
        }
        let mut h = Hasher::default();
        h.add_u64(frag as u64);
        h.add_u64(filler as u64);
        h.add_u64(chunk as u64);
        res.obs = h.0;
        res.model_states.push((link::frame_len(filler) % 293) as u64);
        res.nontrivial = true;
        res
    }
}

// ---------------------------------------------------------------------------------------
// 2. damage
// ---------------------------------------------------------------------------------------

struct Damage {
    name: String,
    frame: Vec<u8>,
    tail: LinkFrame,
    /// error patterns: list of bit positions
    weight: usize,
    burst: bool,
    total: usize,
}

fn n_choose(n: usize, k: usize) -> usize {
    match k {
        1 => n,
        2 => n * (n - 1) / 2,
        3 => n * (n - 1) * (n - 2) / 6,
        _ => 0,
    }
}

/// k-th combination (lexicographic) of `w` positions out of n
fn unrank(mut k: usize, n: usize, w: usize) -> Vec<usize> {
    let mut out = Vec::with_capacity(w);
    let mut start = 0usize;
    for slot in 0..w {
        let remaining = w - slot - 1;
        let mut i = start;
        loop {
            let c = if remaining == 0 { 1 } else { n_choose(n - i - 1, remaining) };
            if k < c {
                out.push(i);
                start = i + 1;
                break;
            }
            k -= c;
            i += 1;
        }
    }
    out
}

fn damage_spaces(tier: &str) -> Vec<Damage> {
    let mut v = Vec::new();
    let tail = LinkFrame::new(0xC4, 7, 8, &[0xC1, 0xAA]);
    for payload_len in [0usize, 15, 16, 31, 250] {
        let f = link::frame(0xC4, 1024, 1, &pattern(1, payload_len));
        let bits = f.len() * 8;
        let big = payload_len == 250;
        let weights: Vec<usize> = if tier == "quick" {
            if big {
                vec![1]
            } else {
                vec![1, 2]
            }
        } else if big {
            vec![1, 2]
        } else if f.len() <= 44 {
            vec![1, 2, 3]
        } else {
            vec![1, 2]
        };
        for w in weights {
            v.push(Damage {
                name: format!("damage-{w}bit-frame{}", f.len()),
                frame: f.clone(),
                tail: tail.clone(),
                weight: w,
                burst: false,
                total: n_choose(bits, w),
            });
        }
        // bursts: every start bit x every length 2..=16 x two fill patterns
        v.push(Damage {
            name: format!("damage-burst-frame{}", f.len()),
            frame: f.clone(),
            tail: tail.clone(),
            weight: 0,
            burst: true,
            total: bits * 15 * 2,
        });
    }
    v
}

impl CaseSpace for Damage {
    fn name(&self) -> String {
        self.name.clone()
    }
    fn total(&self) -> usize {
        self.total
    }
    fn run(&self, index: usize, transcript: bool) -> RunResult {
        let mut res = RunResult::default();
        let bits = self.frame.len() * 8;
        let mut damaged = self.frame.clone();
        let positions: Vec<usize> = if self.burst {
            let fill = index % 2;
            let len = 2 + (index / 2) % 15;
            let start = index / 30;
            // a burst of `len` bits starting at `start`: first and last flipped, inner by pattern
            (0..len)
                .filter(|i| *i == 0 || *i == len - 1 || (fill == 1) || i % 2 == 0)
                .map(|i| start + i)
                .filter(|p| *p < bits)
                .collect()
        } else {
            unrank(index, bits, self.weight)
        };
        for p in &positions {
            damaged[p / 8] ^= 1 << (p % 8);
        }
        if damaged == self.frame {
            res.obs = index as u64;
            return res;
        }
        let mut stream = damaged.clone();
        stream.extend(self.tail.encode());
        let (reference, _) = link::parse_stream(&stream);
        let mut h = Hasher::default();
        h.add_u64(index as u64);
        h.add_str(&self.name);
        res.obs = h.0;
        for close in [true, false] {
            let (got, err) = feed(close, false, 249, &stream, &[]);
            res.transitions += 1;
            // never deliver something that is not a frame of the stream by the specification framer
            for g in &got {
                if !reference.iter().any(|r| same(g, r)) {
                    res.violation = Some(Violation::new(
                        "C06.D1",
                        format!("damaged-frame-delivered:weight{}", positions.len()),
                        format!("bits {positions:?} flipped; delivered ctrl {:02X} dst {:04X} src {:04X} payload {} bytes", g.ctrl, g.dst, g.src, g.payload.len()),
                    ));
                    return res;
                }
            }
            // the damaged frame itself is never delivered (all errors up to weight 3 and bursts up
            // to 16 bits are detected by the header or block CRC)
            let original = LinkFrame::new(0xC4, 1024, 1, &[]);
            if got.iter().any(|g| g.dst == original.dst && g.src == original.src && g.payload.len() + 10 + 2 * ((g.payload.len() + 15) / 16) == self.frame.len()) {
                res.violation = Some(Violation::new(
                    "C06.D1",
                    format!("damaged-frame-delivered:weight{}", positions.len()),
                    format!("bits {positions:?}"),
                ));
                return res;
            }
            if close {
                if err.is_none() && got.is_empty() {
                    // waiting for more data is acceptable only if a longer frame could still complete
                }
                if err.is_none() && !got.is_empty() && !reference.is_empty() {
                    // resynchronised although in close mode: only legal if no framing error was
                    // crossed, i.e. the reference framer sees the same leading frame at offset 0
                    if link::parse_at(&stream).map(|x| x.is_some()).unwrap_or(false) == false {
                        res.violation = Some(Violation::new(
                            "C06.C1",
                            "close-mode-did-not-report-framing-error",
                            format!("bits {positions:?}: delivered {} frame(s) without an error", got.len()),
                        ));
                        return res;
                    }
                }
            } else {
                // discard mode: the clean frame that follows is found if the reference finds it
                if reference.iter().any(|r| *r == self.tail) && !got.iter().any(|g| same(g, &self.tail)) {
                    res.violation = Some(Violation::new(
                        "C06.R1",
                        "valid-frame-after-damaged-frame-not-found",
                        format!("bits {positions:?}: reference framer finds the trailing frame, library delivered {} frame(s), error {err:?}", got.len()),
                    ));
                    return res;
                }
            }
        }
        if transcript {
            res.transcript.push(format!("frame of {} bytes, bits {positions:?} flipped, followed by a clean frame", self.frame.len()));
        }
        res.model_states.push(positions.first().map(|p| (p / 8) as u64).unwrap_or(0));
        res.nontrivial = true;
        res
    }
}

// ---------------------------------------------------------------------------------------
// 3. discard-mode resynchronisation after noise; class T; 4. datagram mode
// ---------------------------------------------------------------------------------------

fn noise_tokens() -> Vec<(String, Vec<u8>)> {
    let hdr = link::frame(0xC4, 1024, 1, &[]);
    let mut v: Vec<(String, Vec<u8>)> = vec![
        ("05".into(), vec![0x05]),
        ("64".into(), vec![0x64]),
        ("0564".into(), vec![0x05, 0x64]),
        ("00".into(), vec![0x00]),
    ];
    for k in 1..=7 {
        v.push((format!("0564+{k}hdr"), hdr[..2 + k].to_vec()));
    }
    let mut bad = hdr.clone();
    bad[9] ^= 0xFF;
    v.push(("bad-crc-header".into(), bad));
    v
}

struct Resync {
    tokens: Vec<(String, Vec<u8>)>,
    depth: usize,
    total: usize,
}

fn build_resync(tier: &str) -> Resync {
    let tokens = noise_tokens();
    let depth = if tier == "quick" { 2 } else { 3 };
    let n = tokens.len();
    let total = (1..=depth).map(|d| n.pow(d as u32)).sum();
    Resync { tokens, depth, total }
}

impl CaseSpace for Resync {
    fn name(&self) -> String {
        format!("discard-resync-noise-depth{}", self.depth)
    }
    fn total(&self) -> usize {
        self.total
    }
    fn run(&self, index: usize, transcript: bool) -> RunResult {
        let mut res = RunResult::default();
        let n = self.tokens.len();
        // decode index into a token string of length 1..=depth
        let mut idx = index;
        let mut len = 1;
        loop {
            let c = n.pow(len as u32);
            if idx < c {
                break;
            }
            idx -= c;
            len += 1;
        }
        let mut noise = Vec::new();
        let mut labels = Vec::new();
        for _ in 0..len {
            let t = &self.tokens[idx % n];
            idx /= n;
            noise.extend_from_slice(&t.1);
            labels.push(t.0.clone());
        }
        let frame = LinkFrame::new(0xC4, 1024, 1, &pattern(1, 20));
        let mut stream = noise.clone();
        stream.extend(frame.encode());
        let (reference, _) = link::parse_stream(&stream);
        let mut h = Hasher::default();
        h.add(&noise);
        res.obs = h.0;
        if reference.len() != 1 || reference[0] != frame {
            // the noise accidentally completes something: not a class-3 case
            return res;
        }
        let mut cuts_list: Vec<Vec<usize>> = vec![vec![]];
        for c in 1..stream.len() {
            cuts_list.push(vec![c]);
        }
        cuts_list.push((1..stream.len()).collect());
        for cuts in &cuts_list {
            let (got, err) = feed(false, false, 249, &stream, cuts);
            res.transitions += 1;
            let ok = err.is_none() && got.len() == 1 && same(&got[0], &frame);
            if !ok {
                let how = if cuts.len() > 1 { "bytewise".to_string() } else { format!("split at {cuts:?}") };
                let at_boundary = cuts.len() == 1 && cuts[0] == noise.len();
                res.violation = Some(Violation::new(
                    "C06.R2",
                    if at_boundary { "frame-after-noise-lost-when-split-between-noise-and-frame" } else { "frame-after-noise-lost-depending-on-chunking" },
                    format!("noise [{}] ({} bytes) + valid frame, {how}: delivered {} frame(s), error {err:?}; whole delivery finds it", labels.join(" "), noise.len(), got.len()),
                ));
                if transcript {
                    res.transcript.push(format!("stream {}", hex(&stream)));
                }
                return res;
            }
        }
        res.model_states.push(noise.len() as u64);
        res.nontrivial = true;
        if transcript {
            res.transcript.push(format!("noise [{}] + frame found under {} chunkings", labels.join(" "), cuts_list.len()));
        }
        res
    }
}

struct Truncated;

impl CaseSpace for Truncated {
    fn name(&self) -> String {
        "truncated-frame-then-frame-chunking-independence".to_string()
    }
    fn total(&self) -> usize {
        // truncation point k of a 45-byte frame's body
        36
    }
    fn run(&self, index: usize, _transcript: bool) -> RunResult {
        let mut res = RunResult::default();
        let first = link::frame(0xC4, 1024, 1, &pattern(1, 31));
        let keep = 10 + index.min(first.len() - 11);
        let frame = LinkFrame::new(0xC4, 1024, 1, &pattern(1, 20));
        let mut stream = first[..keep].to_vec();
        stream.extend(frame.encode());
        stream.extend(frame.encode());
        let (whole, e0) = feed(false, false, 249, &stream, &[]);
        res.obs = index as u64 + 7777;
        for c in 1..stream.len() {
            let (got, e) = feed(false, false, 249, &stream, &[c]);
            res.transitions += 1;
            if got != whole || e.is_some() != e0.is_some() {
                res.violation = Some(Violation::new(
                    "C06.T1",
                    "result-depends-on-chunking-after-truncated-frame",
                    format!("header + {} body bytes then two frames: whole delivery {} frame(s), split at {c} {} frame(s)", keep - 10, whole.len(), got.len()),
                ));
                return res;
            }
        }
        res.model_states.push(index as u64);
        res.nontrivial = true;
        res
    }
}

/// A session ends (the reader is reset) while a frame is partly received: every cut of a 47-octet
/// frame x {close, discard}; the two frames that open the next session are delivered intact.
struct ResetMidFrame;

impl CaseSpace for ResetMidFrame {
    fn name(&self) -> String {
        "reset-while-a-frame-is-partly-received".to_string()
    }
    fn total(&self) -> usize {
        2 * (link::frame_len(31) - 1)
    }
    fn run(&self, index: usize, transcript: bool) -> RunResult {
        let mut res = RunResult::default();
        let close = index % 2 == 1;
        let cut = 1 + index / 2;
        let old = link::frame(0xF3, 1024, 1, &pattern(3, 31));
        let f1 = LinkFrame::new(0xC0, 1024, 1, &[]);
        let f2 = LinkFrame::new(0xC4, 1024, 1, &pattern(1, 20));
        res.obs = index as u64 + 8888;
        let mut r = LinkReaderSeam::new(close, false, 249, false);
        r.handle.push(&old[..cut]);
        let (before, e0) = r.drain();
        r.reset();
        let mut stream = f1.encode();
        stream.extend(f2.encode());
        r.handle.push(&stream);
        let (got, e) = r.drain();
        res.transitions += 2;
        if transcript {
            res.transcript.push(format!("close={close}: {cut} octets of a frame, reset, then two frames: before {} / {e0:?}, after {} / {e:?}", before.len(), got.len()));
        }
        let want = vec![
            FrameOut { ctrl: 0xC0, dst: 1024, src: 1, payload: vec![] },
            FrameOut { ctrl: 0xC4, dst: 1024, src: 1, payload: pattern(1, 20) },
        ];
        if !before.is_empty() || e0.is_some() || e.is_some() || got != want {
            res.violation = Some(Violation::new(
                "C06.S1",
                format!("frames-after-a-reset-not-delivered:close={close}"),
                format!("{cut} octets of a frame received, reader reset, two frames sent: {} delivered, error {:?}", got.len(), e.or(e0)),
            ));
            return res;
        }
        res.model_states.push(cut as u64);
        res.nontrivial = true;
        res
    }
}

struct Datagram;

impl CaseSpace for Datagram {
    fn name(&self) -> String {
        "datagram-mode".to_string()
    }
    fn total(&self) -> usize {
        // split point in a 38-byte frame x 2 error modes
        2 * 38
    }
    fn run(&self, index: usize, transcript: bool) -> RunResult {
        let mut res = RunResult::default();
        let close = index % 2 == 0;
        let a = LinkFrame::new(0xC4, 1024, 1, &pattern(1, 24));
        let b = LinkFrame::new(0xC4, 1024, 1, &pattern(0, 5));
        let ea = a.encode();
        let eb = b.encode();
        let cut = 1 + (index / 2) % (ea.len() - 1);
        res.obs = index as u64 + 999;
        // (i) a frame split across two datagrams is never stitched together; the next whole
        // datagram is parsed from a clean state
        {
            let mut r = LinkReaderSeam::new(close, true, 249, false);
            let mut got = Vec::new();
            let mut errs = Vec::new();
            for d in [&ea[..cut], &ea[cut..], &eb[..]] {
                r.handle.push(d);
                let (f, e) = r.drain();
                got.extend(f);
                if let Some(e) = e {
                    errs.push(e);
                    if close {
                        break;
                    }
                }
            }
            res.transitions += 3;
            if got.iter().any(|g| same(g, &a)) {
                res.violation = Some(Violation::new(
                    "C06.G1",
                    "frame-stitched-across-datagrams",
                    format!("split at {cut} (close={close}): delivered {:?}", got.len()),
                ));
                return res;
            }
            if !close && !got.iter().any(|g| same(g, &b)) {
                res.violation = Some(Violation::new(
                    "C06.G2",
                    "whole-datagram-after-split-frame-not-parsed",
                    format!("split at {cut}: delivered {} errors {errs:?}", got.len()),
                ));
                return res;
            }
            if transcript {
                res.transcript.push(format!("split at {cut} close={close}: delivered {} frame(s), errors {errs:?}", got.len()));
            }
        }
        // (ii) two frames in one datagram; frame + partial frame, remainder in the next datagram
        {
            let mut r = LinkReaderSeam::new(close, true, 498, false);
            let mut d1 = ea.clone();
            d1.extend_from_slice(&eb);
            r.handle.push(&d1);
            let (f, e) = r.drain();
            if !(e.is_none() && f.len() == 2 && same(&f[0], &a) && same(&f[1], &b)) {
                res.violation = Some(Violation::new("C06.G3", "two-frames-in-one-datagram-not-both-delivered", format!("{} delivered, error {e:?}", f.len())));
                return res;
            }
            let mut d2 = eb.clone();
            d2.extend_from_slice(&ea[..cut]);
            r.handle.push(&d2);
            let (f2, e2) = r.drain();
            r.handle.push(&ea[cut..]);
            let (f3, _e3) = r.drain();
            if !(f2.len() == 1 && same(&f2[0], &b)) || f3.iter().any(|g| same(g, &a)) {
                res.violation = Some(Violation::new(
                    "C06.G1",
                    "frame-stitched-across-datagrams",
                    format!("frame + partial ({cut} bytes) then remainder: second datagram delivered {} (error {e2:?}), third {}", f2.len(), f3.len()),
                ));
                return res;
            }
            res.transitions += 3;
        }
        res.model_states.push(cut as u64);
        res.nontrivial = true;
        res
    }
}

// ---------------------------------------------------------------------------------------
// one reader, one payload buffer, frames with and without a body in every order
// ---------------------------------------------------------------------------------------

struct Mixed;

fn mixed_frames() -> Vec<LinkFrame> {
    vec![
        LinkFrame::new(0xC4, 1024, 1, &pattern(1, 15)),
        LinkFrame::new(0xC4, 1024, 1, &pattern(2, 1)),
        LinkFrame::new(0xF3, 1024, 1, &pattern(0, 250)),
        LinkFrame::new(0x80, 1024, 1, &[]),  // ACK
        LinkFrame::new(0xC9, 1024, 1, &[]),  // request link status
        LinkFrame::new(0xC4, 1024, 1, &[]),  // user data without a body
        LinkFrame::new(0xC0, 1024, 1, &[]),  // reset link states
    ]
}

impl CaseSpace for Mixed {
    fn name(&self) -> String {
        "frames-with-and-without-body-in-every-order".to_string()
    }
    fn total(&self) -> usize {
        let n = mixed_frames().len();
        n * n * n * 2
    }
    fn run(&self, index: usize, transcript: bool) -> RunResult {
        let mut res = RunResult::default();
        let all = mixed_frames();
        let n = all.len();
        let bytewise = index % 2 == 1;
        let i = index / 2;
        let frames = vec![all[i % n].clone(), all[(i / n) % n].clone(), all[i / (n * n)].clone()];
        let mut stream = Vec::new();
        for f in &frames {
            stream.extend(f.encode());
        }
        let cuts: Vec<usize> = if bytewise { (1..stream.len()).collect() } else { vec![] };
        let (got, err) = feed(true, false, 2048, &stream, &cuts);
        res.transitions += 3;
        res.obs = index as u64 + 292929;
        let ok = err.is_none() && got.len() == 3 && got.iter().zip(frames.iter()).all(|(a, b)| same(a, b));
        if transcript {
            for (k, f) in frames.iter().enumerate() {
                res.transcript.push(format!("frame {k}: ctrl {:02X}, {} payload octets; delivered with {:?} payload octets", f.ctrl, f.payload.len(), got.get(k).map(|g| g.payload.len())));
            }
        }
        if !ok {
            let k = got.iter().zip(frames.iter()).position(|(a, b)| !same(a, b)).unwrap_or(got.len());
            res.violation = Some(Violation::new(
                "C06.P3",
                "frame-delivered-with-a-payload-it-did-not-carry",
                format!(
                    "frames with {:?} payload octets through one reader ({}): frame {k} delivered with {:?} payload octets, error {err:?}",
                    frames.iter().map(|f| f.payload.len()).collect::<Vec<_>>(),
                    if bytewise { "octet by octet" } else { "whole" },
                    got.get(k).map(|g| g.payload.len())
                ),
            ));
        }
        res.nontrivial = true;
        res.model_states.push((i % (n * n)) as u64 + 40000);
        res
    }
}

pub fn replay(name: &str, path: &[usize]) -> Option<RunResult> {
    if Mixed.name() == name {
        return Some(Mixed.run(path[0], true));
    }
    let i = path[0];
    for tier in ["quick", "thorough"] {
        let s = build_roundtrip(tier);
        if s.name == name {
            return Some(s.run(i, true));
        }
        let s = build_resync(tier);
        if s.name() == name {
            return Some(s.run(i, true));
        }
        for d in damage_spaces(tier) {
            if d.name == name {
                return Some(d.run(i, true));
            }
        }
        let w = build_wrap(tier);
        if w.name() == name && i < w.total() {
            return Some(w.run(i, true));
        }
    }
    if Truncated.name() == name {
        return Some(Truncated.run(i, true));
    }
    if ResetMidFrame.name() == name {
        return Some(ResetMidFrame.run(i, true));
    }
    if Datagram.name() == name {
        return Some(Datagram.run(i, true));
    }
    None
}

pub fn check(tier: &str) -> i32 {
    let mut c = Check::new("C06", tier);
    c.cases(&build_roundtrip(tier));
    c.cases(&build_wrap(tier));
    for d in damage_spaces(tier) {
        c.cases(&d);
    }
    c.cases(&build_resync(tier));
    c.cases(&Truncated);
    c.cases(&ResetMidFrame);
    c.cases(&Datagram);
    c.cases(&Mixed);
    c.finish(
        "model_checking",
        "round trip: control bytes x address pairs x payload lengths x 3 payload patterns (incl. embedded start bytes and an embedded valid frame), formatted by the library and by the reference builder (must agree byte for byte) and parsed back by the real link Reader under {whole, per frame, every 2-way split, every 3-way split for frames <= 44 bytes, one byte at a time} in both error modes; buffer wrap-around for every filler length 0..=250 and several read sizes; damage: every 1- and 2-bit error (3-bit for frames <= 44 bytes in the thorough tier) and every burst of 2..=16 bits at every position in frames of 10/27/28/45/292 bytes, followed by a clean frame; discard-mode resynchronisation after every noise string of <= 2 (3) tokens under every 2-way split and bytewise; truncated frame + frames (chunking independence); datagram mode (every split point). Oracle: bit-serial CRC + specification framer with full rescan. non-trivial = the case exercised the parser on a frame; distinct = distinct input",
        &[
            "CRC-16/DNP detects every error pattern enumerated here; what is checked is that the parser applies the CRCs to the right bytes and never delivers anything the specification framer does not find",
            "quick tier: 16 control bytes, 6 address pairs (incl. each special address as source and destination), 30 payload lengths; thorough: all 256 control bytes, 7 address pairs, all lengths 0..=250",
        ],
        serde_json::json!({}),
    )
}
