//! C07 — endpoints act only on traffic addressed to them; broadcasts are never answered.
//!
//! Part L: every link control byte x destination class x source class against a reference
//! secondary station, in both roles (real OutstationTask / real MasterTask over a pipe), from
//! the not-reset and the reset link state, plus all frame sequences of length 3 over a reduced
//! alphabet (frame-count-bit toggling, repeats).
//! Part A: application fragments from the configured master, a foreign master and the three
//! broadcast addresses, in three session states, with the any-master / broadcast features
//! on and off.

use dnp3::master::AssociationConfig;
use dnp3::outstation::database::*;

use super::common::{self, collect};
use crate::explore::{CaseSpace, Check, Hasher, RunResult, Scenario, Violation};
use crate::msim::{MCb, MCfg, MSim, MTx};
use crate::osim::{Cb, OCfg, OSim, Tx};
use crate::wire::app::{self, fc};
use crate::wire::link::{self, LinkFrame};

#[derive(Copy, Clone, Debug, PartialEq, Eq)]
enum Role {
    Outstation,
    Master,
}

impl Role {
    fn own(self) -> u16 {
        match self {
            Role::Outstation => crate::osim::OUTSTATION_ADDR,
            Role::Master => crate::msim::MASTER_ADDR,
        }
    }
    /// the configured peer
    fn peer(self) -> u16 {
        match self {
            Role::Outstation => crate::osim::MASTER_ADDR,
            Role::Master => crate::msim::OUTSTATION_ADDR,
        }
    }
    /// DIR bit of frames this endpoint transmits
    fn dir(self) -> bool {
        self == Role::Master
    }
}

// ---------------------------------------------------------------------------------------
// reference secondary station
// ---------------------------------------------------------------------------------------

#[derive(Copy, Clone, Debug, PartialEq, Eq)]
enum Sec {
    NotReset,
    Reset(bool),
}

#[derive(Copy, Clone, Debug, PartialEq, Eq)]
enum Tri {
    Yes,
    No,
    Either,
}

#[derive(Clone, Debug)]
struct Expect {
    /// a link reply with this function code (to the frame's source, from the own address)
    reply: Option<u8>,
    reply_either: bool,
    deliver: Tri,
    broadcast: bool,
}

fn model(role: Role, self_addr: bool, state: &mut Sec, f: &LinkFrame) -> Expect {
    let none = Expect { reply: None, reply_either: false, deliver: Tri::No, broadcast: false };
    // direction: from the opposite station type
    if f.is_master() == role.dir() {
        return none;
    }
    if f.src >= 0xFFF0 {
        return none;
    }
    let mut broadcast = false;
    if f.dst == role.own() {
    } else if f.dst == 0xFFFC {
        if !(role == Role::Outstation && self_addr) {
            return none;
        }
    } else if f.dst >= 0xFFFD {
        if role != Role::Outstation {
            return none;
        }
        broadcast = true;
    } else {
        return none;
    }
    let fcb = f.ctrl & link::FCB != 0;
    let fcv = f.ctrl & link::FCV != 0;
    if !f.is_prm() {
        // secondary-to-primary frames are never answered and carry no user data
        return none;
    }
    if broadcast && !(f.func() == link::PRI_UNCONFIRMED_USER_DATA || f.func() == link::PRI_CONFIRMED_USER_DATA) {
        return none;
    }
    match f.func() {
        link::PRI_UNCONFIRMED_USER_DATA => {
            if fcv {
                // invalid encoding: may be ignored, is never answered
                Expect { reply: None, reply_either: false, deliver: Tri::Either, broadcast }
            } else {
                Expect { reply: None, reply_either: false, deliver: Tri::Yes, broadcast }
            }
        }
        link::PRI_RESET_LINK_STATES => {
            if fcv {
                Expect { reply: None, reply_either: true, deliver: Tri::No, broadcast }
            } else {
                *state = Sec::Reset(true);
                Expect { reply: Some(link::SEC_ACK), reply_either: false, deliver: Tri::No, broadcast }
            }
        }
        link::PRI_CONFIRMED_USER_DATA => {
            if !fcv {
                return Expect { reply: None, reply_either: true, deliver: Tri::No, broadcast };
            }
            match *state {
                Sec::NotReset => Expect { reply: None, reply_either: true, deliver: Tri::No, broadcast },
                Sec::Reset(e) => {
                    let reply = if broadcast { None } else { Some(link::SEC_ACK) };
                    if fcb == e {
                        *state = Sec::Reset(!e);
                        Expect { reply, reply_either: false, deliver: Tri::Yes, broadcast }
                    } else {
                        Expect { reply, reply_either: false, deliver: Tri::No, broadcast }
                    }
                }
            }
        }
        link::PRI_REQUEST_LINK_STATUS => {
            if fcv {
                // function 9 with FCV set is not a valid encoding
                Expect { reply: None, reply_either: true, deliver: Tri::No, broadcast }
            } else {
                Expect { reply: Some(link::SEC_LINK_STATUS), reply_either: false, deliver: Tri::No, broadcast }
            }
        }
        link::PRI_TEST_LINK_STATES => Expect { reply: None, reply_either: true, deliver: Tri::No, broadcast },
        _ => Expect { reply: None, reply_either: true, deliver: Tri::No, broadcast },
    }
}

// ---------------------------------------------------------------------------------------
// endpoint under test (either role) behind one interface
// ---------------------------------------------------------------------------------------

enum Sut {
    O(Box<OSim>),
    M(Box<MSim>),
}

/// what the endpoint did in reaction to one frame
struct Reaction {
    links: Vec<LinkFrame>,
    /// application fragments transmitted
    frags: Vec<Vec<u8>>,
    /// application-level evidence that the payload was delivered (response / confirm / callback)
    delivered: usize,
    broadcast_cb: usize,
    executing: usize,
}

impl Sut {
    fn new(role: Role, self_addr: bool, any_master: bool, bcast_feature: bool, unsol: bool) -> Sut {
        match role {
            Role::Outstation => {
                let cfg = OCfg {
                    self_address: self_addr,
                    any_master,
                    broadcast: bcast_feature,
                    unsolicited: unsol,
                    max_unsol_retries: Some(0),
                    event_buf: [5; 8],
                    ..Default::default()
                };
                let mut s = OSim::new(&cfg, 1);
                s.db(|db| {
                    common::add_binaries(db, 2, Some(EventClass::Class1));
                });
                s.take_out();
                s.take_cb();
                Sut::O(Box::new(s))
            }
            Role::Master => {
                let mut s = MSim::new(&MCfg::default(), 1);
                s.add_association(crate::msim::OUTSTATION_ADDR, AssociationConfig::quiet());
                s.take_out();
                s.take_cb();
                Sut::M(Box::new(s))
            }
        }
    }

    fn reconnect(&mut self) {
        match self {
            Sut::O(s) => {
                s.reconnect();
                s.take_out();
                s.take_cb();
            }
            Sut::M(s) => {
                s.disconnect();
                s.advance(1500);
                s.connect();
                s.take_out();
                s.take_cb();
            }
        }
    }

    fn send_raw(&mut self, b: &[u8]) -> Reaction {
        match self {
            Sut::O(s) => {
                s.send_raw(b);
                let out = s.take_out();
                let cbs = s.take_cb();
                let mut r = Reaction { links: vec![], frags: vec![], delivered: 0, broadcast_cb: 0, executing: 0 };
                for t in out {
                    match t {
                        Tx::Link { frame, .. } => r.links.push(frame),
                        Tx::Frag { data, .. } => {
                            r.frags.push(data);
                        }
                        Tx::Garbage { .. } => {}
                    }
                }
                r.delivered = r.frags.len();
                for c in &cbs {
                    if matches!(c, Cb::Broadcast(_)) {
                        r.broadcast_cb += 1;
                    }
                    if c.is_executing() {
                        r.executing += 1;
                    }
                }
                r
            }
            Sut::M(s) => {
                s.send_raw(b);
                let out = s.take_out();
                let (cbs, _) = s.take_cb();
                let mut r = Reaction { links: vec![], frags: vec![], delivered: 0, broadcast_cb: 0, executing: 0 };
                for t in out {
                    match t {
                        MTx::Link { frame, .. } => r.links.push(frame),
                        MTx::Frag { data, .. } => r.frags.push(data),
                        MTx::Garbage { .. } => {}
                    }
                }
                r.delivered = cbs.iter().filter(|c| matches!(c, MCb::Unsolicited(_, _))).count();
                r
            }
        }
    }

    fn failure(&self) -> Option<String> {
        match self {
            Sut::O(s) => s.failure(),
            Sut::M(s) => s.failure(),
        }
    }
}

/// payload whose delivery is observable: outstation <- DELAY_MEASURE request; master <- null
/// unsolicited response (which it confirms)
fn payload(role: Role, n: u8) -> Vec<u8> {
    let frag = match role {
        Role::Outstation => app::request(n & 0x0F, fc::DELAY_MEASURE, &[]),
        Role::Master => app::response(app::ctrl(true, true, true, true, n & 0x0F), fc::UNSOLICITED_RESPONSE, 0, 0, &[]),
    };
    let mut seg = vec![0xC0 | (n & 0x3F)];
    seg.extend(frag);
    seg
}

fn check_reaction(role: Role, f: &LinkFrame, e: &Expect, r: &Reaction, has_payload: bool) -> Option<Violation> {
    let tag = format!("{:?}:ctrl{:02X}:dst{:04X}:src{:04X}", role, f.ctrl, f.dst, f.src);
    // link replies
    match (e.reply, e.reply_either) {
        (Some(func), _) => {
            if r.links.len() != 1 {
                return Some(Violation::new(
                    "C07.L1",
                    format!("missing-or-extra-link-reply:{:?}:fn{}:dst-class-{}", role, f.func(), dst_class(role, f.dst)),
                    format!("{tag}: expected one reply with function {func}, got {:?}", r.links),
                ));
            }
            let x = &r.links[0];
            if x.func() != func || x.is_prm() || x.is_master() != role.dir() || x.dst != f.src || x.src != role.own() || !x.payload.is_empty() {
                return Some(Violation::new(
                    "C07.L2",
                    format!("wrong-link-reply:{:?}:fn{}", role, f.func()),
                    format!("{tag}: expected function {func} to {:04X} from {:04X}, got {:?}", f.src, role.own(), x),
                ));
            }
        }
        (None, false) => {
            if !r.links.is_empty() {
                return Some(Violation::new(
                    "C07.L3",
                    format!("link-reply-to-frame-that-must-be-ignored:{:?}:dst-class-{}:src-class-{}", role, dst_class(role, f.dst), src_class(role, f.src)),
                    format!("{tag}: got {:?}", r.links),
                ));
            }
        }
        (None, true) => {
            // optional reply: if present it must go to the source, and never to a broadcast
            if e.broadcast && !r.links.is_empty() {
                return Some(Violation::new("C07.B1", "link-reply-to-broadcast", format!("{tag}: {:?}", r.links)));
            }
        }
    }
    if e.broadcast && (!r.links.is_empty() || !r.frags.is_empty()) {
        return Some(Violation::new(
            "C07.B1",
            "transmission-in-reply-to-broadcast",
            format!("{tag}: links {:?} fragments {}", r.links, r.frags.len()),
        ));
    }
    // delivery of user data (observable only for payload from the configured peer)
    if has_payload && (f.src == role.peer() || e.deliver == Tri::No) {
        let seen = if e.broadcast { r.broadcast_cb } else { r.delivered };
        match e.deliver {
            Tri::Yes => {
                if seen != 1 {
                    return Some(Violation::new(
                        "C07.D1",
                        format!("user-data-not-delivered-exactly-once:{:?}:fn{}", role, f.func()),
                        format!("{tag}: delivery evidence count {seen}"),
                    ));
                }
            }
            Tri::No => {
                if r.delivered + r.broadcast_cb + r.executing != 0 || !r.frags.is_empty() {
                    return Some(Violation::new(
                        "C07.D2",
                        format!("acted-on-frame-not-addressed-to-it:{:?}:fn{}:dst-class-{}:src-class-{}", role, f.func(), dst_class(role, f.dst), src_class(role, f.src)),
                        format!("{tag}: delivered {} broadcast callbacks {} fragments {}", r.delivered, r.broadcast_cb, r.frags.len()),
                    ));
                }
            }
            Tri::Either => {}
        }
    }
    None
}

fn dst_class(role: Role, a: u16) -> &'static str {
    if a == role.own() {
        "own"
    } else if a == 0xFFFC {
        "self"
    } else if a >= 0xFFFD {
        "broadcast"
    } else if a >= 0xFFF0 {
        "reserved"
    } else {
        "other"
    }
}

fn src_class(role: Role, a: u16) -> &'static str {
    if a == role.peer() {
        "peer"
    } else if a == role.own() {
        "own"
    } else if a >= 0xFFFD {
        "broadcast"
    } else if a == 0xFFFC {
        "self"
    } else if a >= 0xFFF0 {
        "reserved"
    } else {
        "other-endpoint"
    }
}

// ---------------------------------------------------------------------------------------
// L1: single frames from both link states
// ---------------------------------------------------------------------------------------

struct LSingle {
    name: String,
    cases: Vec<(Role, bool, bool, u8, u16, u16, bool)>, // role, self_addr, pre-reset, ctrl, dst, src, payload
}

fn build_single(tier: &str) -> LSingle {
    let mut cases = Vec::new();
    for role in [Role::Outstation, Role::Master] {
        let dsts = [role.own(), 77, 0xFFFC, 0xFFFD, 0xFFFE, 0xFFFF, 0xFFF0, 0xFFEF, 0xFFFB];
        // class boundaries included: 0xFFEF is the last ordinary address, 0xFFF0..=0xFFFB are reserved
        let srcs = [role.peer(), 33, role.own(), 0xFFF5, 0xFFFF, 0xFFFC, 0xFFEF, 0xFFF0, 0xFFFB];
        for self_addr in [false, true] {
            if role == Role::Master && self_addr {
                continue;
            }
            for reset in [false, true] {
                for ctrl in 0..=255u8 {
                    for &dst in &dsts {
                        for &src in &srcs {
                            for pl in [false, true] {
                                if tier == "quick" && !(src == role.peer() || dst == role.own() || dst >= 0xFFFD) {
                                    continue;
                                }
                                cases.push((role, self_addr, reset, ctrl, dst, src, pl));
                            }
                        }
                    }
                }
            }
        }
    }
    LSingle { name: format!("link-single-frame-{tier}"), cases }
}

impl CaseSpace for LSingle {
    fn name(&self) -> String {
        self.name.clone()
    }
    fn total(&self) -> usize {
        self.cases.len()
    }
    fn run(&self, index: usize, transcript: bool) -> RunResult {
        let (role, self_addr, reset, ctrl, dst, src, pl) = self.cases[index];
        let mut res = RunResult::default();
        let mut obs = Hasher::default();
        let mut sut = Sut::new(role, self_addr, false, true, false);
        let mut st = Sec::NotReset;
        if reset {
            let f = LinkFrame::new(
                (if role.dir() { 0 } else { link::DIR }) | link::PRM | link::PRI_RESET_LINK_STATES,
                role.own(),
                role.peer(),
                &[],
            );
            let e = model(role, self_addr, &mut st, &f);
            let r = sut.send_raw(&f.encode());
            res.transitions += 1;
            if let Some(v) = check_reaction(role, &f, &e, &r, false) {
                res.violation = Some(v);
                return res;
            }
        }
        let p = if pl { payload(role, 5) } else { vec![] };
        let f = LinkFrame::new(ctrl, dst, src, &p);
        let e = model(role, self_addr, &mut st, &f);
        let r = sut.send_raw(&f.encode());
        res.transitions += 1;
        obs.add(&[ctrl]);
        obs.add_u64(dst as u64 * 65536 + src as u64);
        obs.add_u64(r.links.len() as u64 * 100 + r.frags.len() as u64 * 10 + r.delivered as u64);
        for l in &r.links {
            obs.add(&[l.ctrl]);
        }
        if transcript {
            res.transcript.push(format!("{role:?} self_address={self_addr} pre-reset={reset}"));
            res.transcript.push(format!("-> {:?}", f));
            res.transcript.push(format!("   expected {e:?}"));
            res.transcript.push(format!("<- links {:?} fragments {:?} delivered {} broadcast-cb {}", r.links, r.frags.iter().map(|x| app::hex(x)).collect::<Vec<_>>(), r.delivered, r.broadcast_cb));
        }
        if let Some(fl) = sut.failure() {
            res.violation = Some(Violation::new("C07.X0", fl.clone(), fl));
        } else {
            res.violation = check_reaction(role, &f, &e, &r, pl);
        }
        // probe: a link status request addressed properly is always answered
        if res.violation.is_none() {
            let pf = LinkFrame::new(
                (if role.dir() { 0 } else { link::DIR }) | link::PRM | link::PRI_REQUEST_LINK_STATUS,
                role.own(),
                role.peer(),
                &[],
            );
            let pe = model(role, self_addr, &mut st, &pf);
            let pr = sut.send_raw(&pf.encode());
            res.transitions += 1;
            res.violation = check_reaction(role, &pf, &pe, &pr, false);
        }
        let mut h = Hasher::default();
        h.add_u64(matches!(st, Sec::NotReset) as u64);
        h.add_u64(e.reply.map(|x| x as u64 + 1).unwrap_or(0));
        h.add_u64(e.deliver as u64);
        h.add_u64(e.broadcast as u64);
        res.model_states.push(h.0);
        res.obs = obs.0;
        res.nontrivial = !r.links.is_empty() || r.delivered > 0 || r.broadcast_cb > 0;
        res
    }
}

// ---------------------------------------------------------------------------------------
// L2: sequences of frames (frame count bit toggling)
// ---------------------------------------------------------------------------------------

struct LSeq {
    role: Role,
    depth: usize,
    frames: Vec<(String, u8, u16, u16)>, // label, ctrl (without DIR), dst, src
}

const RECONNECT: u8 = 0xFF;

/// the letters that move the secondary station's state (reset, both frame count bits, reconnect,
/// unconfirmed data), for deeper histories
fn core_alphabet(role: Role) -> Vec<(String, u8, u16, u16)> {
    seq_alphabet(role)
        .into_iter()
        .filter(|f| matches!(f.0.as_str(), "reset" | "conf-data-fcb0" | "conf-data-fcb1" | "reconnect" | "unconf-data" | "test-fcb1"))
        .collect()
}

fn seq_alphabet(role: Role) -> Vec<(String, u8, u16, u16)> {
    let own = role.own();
    let peer = role.peer();
    let p = link::PRM;
    let mut v = vec![
        ("reset".to_string(), p | link::PRI_RESET_LINK_STATES, own, peer),
        ("conf-data-fcb0".to_string(), p | link::FCV | link::PRI_CONFIRMED_USER_DATA, own, peer),
        ("conf-data-fcb1".to_string(), p | link::FCV | link::FCB | link::PRI_CONFIRMED_USER_DATA, own, peer),
        ("unconf-data".to_string(), p | link::PRI_UNCONFIRMED_USER_DATA, own, peer),
        ("link-status".to_string(), p | link::PRI_REQUEST_LINK_STATUS, own, peer),
        ("test-fcb1".to_string(), p | link::FCV | link::FCB | link::PRI_TEST_LINK_STATES, own, peer),
        ("ack".to_string(), link::SEC_ACK, own, peer),
        ("reset-to-other".to_string(), p | link::PRI_RESET_LINK_STATES, 77, peer),
        ("reset-from-other".to_string(), p | link::PRI_RESET_LINK_STATES, own, 33),
        ("conf-data-fcb1-from-other".to_string(), p | link::FCV | link::FCB | link::PRI_CONFIRMED_USER_DATA, own, 33),
        ("conf-data-no-fcv".to_string(), p | link::PRI_CONFIRMED_USER_DATA, own, peer),
    ];
    // not a frame: the connection is closed and a new one established; the secondary station
    // of the new session is not reset (sentinel control octet 0xFF)
    v.push(("reconnect".to_string(), RECONNECT, 0, 0));
    if role == Role::Outstation {
        v.push(("bcast-conf-data-fcb1".to_string(), p | link::FCV | link::FCB | link::PRI_CONFIRMED_USER_DATA, 0xFFFF, peer));
        v.push(("bcast-unconf-data".to_string(), p | link::PRI_UNCONFIRMED_USER_DATA, 0xFFFD, peer));
        v.push(("bcast-reset".to_string(), p | link::PRI_RESET_LINK_STATES, 0xFFFF, peer));
    }
    v
}

impl Scenario for LSeq {
    fn name(&self) -> String {
        format!("link-sequences-{:?}-d{}{}", self.role, self.depth, if self.frames.len() < 10 { "-core" } else { "" })
    }
    fn alphabet(&self) -> Vec<String> {
        self.frames.iter().map(|f| f.0.clone()).collect()
    }
    fn depth(&self) -> usize {
        self.depth
    }
    fn run(&self, path: &[usize], transcript: bool) -> RunResult {
        let mut res = RunResult::default();
        let mut obs = Hasher::default();
        let role = self.role;
        let mut sut = Sut::new(role, false, false, true, false);
        let mut st = Sec::NotReset;
        let mut n = 0u8;
        let mut interesting = 0usize;
        for &i in path {
            let (label, ctrl, dst, src) = &self.frames[i];
            n = n.wrapping_add(1);
            if *ctrl == RECONNECT {
                sut.reconnect();
                st = Sec::NotReset;
                res.transitions += 1;
                obs.add_str(label);
                if transcript {
                    res.transcript.push("-- connection closed, new connection established".to_string());
                }
                if let Some(fl) = sut.failure() {
                    res.violation = Some(Violation::new("C07.X0", fl.clone(), fl));
                    break;
                }
                res.model_states.push(0);
                continue;
            }
            let is_data = ctrl & link::PRM != 0 && matches!(ctrl & 0x0F, 3 | 4);
            let p = if is_data { payload(role, n) } else { vec![] };
            let f = LinkFrame::new(*ctrl | if role.dir() { 0 } else { link::DIR }, *dst, *src, &p);
            let e = model(role, false, &mut st, &f);
            let r = sut.send_raw(&f.encode());
            res.transitions += 1;
            obs.add_str(label);
            obs.add_u64(r.links.len() as u64 * 100 + r.frags.len() as u64 * 10 + r.delivered as u64 + r.broadcast_cb as u64);
            if transcript {
                res.transcript.push(format!("-> {label} {:?}", f));
                res.transcript.push(format!("   expected {e:?}"));
                res.transcript.push(format!("<- links {:?} fragments {} delivered {} broadcast-cb {}", r.links, r.frags.len(), r.delivered, r.broadcast_cb));
            }
            if let Some(fl) = sut.failure() {
                res.violation = Some(Violation::new("C07.X0", fl.clone(), fl));
                break;
            }
            if let Some(v) = check_reaction(role, &f, &e, &r, is_data) {
                res.violation = Some(v);
                break;
            }
            if e.deliver == Tri::Yes || e.reply.is_some() {
                interesting += 1;
            }
            let mut h = Hasher::default();
            h.add_u64(match st {
                Sec::NotReset => 0,
                Sec::Reset(false) => 1,
                Sec::Reset(true) => 2,
            });
            res.model_states.push(h.0);
        }
        res.obs = obs.0;
        res.nontrivial = interesting >= 2;
        res
    }
}

// ---------------------------------------------------------------------------------------
// A: application fragments from the wrong master / by broadcast
// ---------------------------------------------------------------------------------------

#[derive(Copy, Clone, Debug, PartialEq, Eq)]
enum AState {
    Idle,
    SolConfirmWait,
    UnsolConfirmWait,
}

struct AppCases {
    name: String,
    cases: Vec<(bool, bool, AState, usize, u16, u16)>, // any_master, bcast feature, state, fragment idx, src, dst
}

fn app_fragments() -> Vec<(&'static str, Vec<u8>)> {
    let crob = app::prefixed8(12, 1, &[(3, app::crob(0x03, 1, 100, 200, 0))]);
    vec![
        ("read-class0", app::request(4, fc::READ, &app::hdr_all(60, 1))),
        ("direct-operate", app::request(4, fc::DIRECT_OPERATE, &crob)),
        ("direct-operate-nr", app::request(4, fc::DIRECT_OPERATE_NR, &crob)),
        ("write-time", app::request(4, fc::WRITE, &app::g50v1_objects(1000))),
        ("unknown-function", app::request(4, 0x70, &[])),
        ("fir-clear", app::request_ctrl(0x44, fc::READ, &app::hdr_all(60, 1))),
        ("uns-on-request", app::request_ctrl(0xD4, fc::READ, &app::hdr_all(60, 1))),
        ("truncated-object-header", app::request(4, fc::DIRECT_OPERATE, &crob[..crob.len() - 4])),
        ("one-byte-fragment", vec![0xC4]),
        ("confirm", app::confirm(4, false)),
        ("disable-unsolicited", app::request(4, fc::DISABLE_UNSOLICITED, &app::class_headers(true, true, true, false))),
    ]
}

fn build_app() -> AppCases {
    let mut cases = Vec::new();
    let n = app_fragments().len();
    for any in [false, true] {
        for bf in [false, true] {
            for st in [AState::Idle, AState::SolConfirmWait, AState::UnsolConfirmWait] {
                for k in 0..n {
                    for (src, dst) in [
                        (crate::osim::MASTER_ADDR, crate::osim::OUTSTATION_ADDR),
                        (2u16, crate::osim::OUTSTATION_ADDR),
                        (crate::osim::MASTER_ADDR, 0xFFFFu16),
                        (crate::osim::MASTER_ADDR, 0xFFFE),
                        (crate::osim::MASTER_ADDR, 0xFFFD),
                        (2u16, 0xFFFF),
                    ] {
                        cases.push((any, bf, st, k, src, dst));
                    }
                }
            }
        }
    }
    AppCases { name: "application-fragments-by-source".to_string(), cases }
}

impl CaseSpace for AppCases {
    fn name(&self) -> String {
        self.name.clone()
    }
    fn total(&self) -> usize {
        self.cases.len()
    }
    fn run(&self, index: usize, transcript: bool) -> RunResult {
        let (any, bf, st, k, src, dst) = self.cases[index];
        let mut res = RunResult::default();
        let mut obs = Hasher::default();
        let cfg = OCfg {
            any_master: any,
            broadcast: bf,
            unsolicited: st == AState::UnsolConfirmWait,
            max_unsol_retries: Some(0),
            event_buf: [5; 8],
            ..Default::default()
        };
        let mut sim = OSim::new(&cfg, 1);
        sim.db(|db| {
            common::add_binaries(db, 2, Some(EventClass::Class1));
        });
        match st {
            AState::Idle => {}
            AState::SolConfirmWait => {
                sim.db(|db| {
                    db.update(0, &common::binary(true, 1), UpdateOptions::detect_event());
                });
                sim.send(&app::request(9, fc::READ, &app::hdr_all(60, 2)));
            }
            AState::UnsolConfirmWait => {
                common::null_unsol_handshake(&mut sim);
                sim.send(&app::request(9, fc::ENABLE_UNSOLICITED, &app::class_headers(true, true, true, false)));
                sim.db(|db| {
                    db.update(0, &common::binary(true, 1), UpdateOptions::detect_event());
                });
            }
        }
        let _ = collect(&mut sim, &mut res, &mut obs, &format!("reach {st:?}"), None, transcript);
        let frags = app_fragments();
        let (label, frag) = &frags[k];
        sim.send_from(src, dst, frag);
        let step = collect(
            &mut sim,
            &mut res,
            &mut obs,
            &format!("{label} from {src} to {dst:04X} (any_master={any}, broadcast={bf})"),
            Some(frag),
            transcript,
        );
        if let Some(f) = sim.failure() {
            res.violation = Some(Violation::new("C07.X0", f.clone(), f));
            res.obs = obs.0;
            return res;
        }
        let is_bcast = dst >= 0xFFFD;
        let foreign = src != crate::osim::MASTER_ADDR;
        let wrote_anything = !step.out.is_empty();
        let executing = step.cbs.iter().filter(|c| c.is_executing()).count();
        if is_bcast && wrote_anything {
            res.violation = Some(Violation::new(
                "C07.B2",
                format!("transmission-in-reply-to-broadcast-fragment:{label}"),
                format!("{:?} state {st:?}: {:?}", (any, bf), step.out),
            ));
        } else if is_bcast && !bf && executing > 0 {
            res.violation = Some(Violation::new(
                "C07.B3",
                format!("broadcast-executed-although-disabled:{label}"),
                format!("{:?}", step.cbs),
            ));
        } else if foreign && !any && !is_bcast && (wrote_anything || executing > 0) {
            res.violation = Some(Violation::new(
                "C07.A1",
                format!("acted-on-fragment-from-foreign-master:{label}"),
                format!("state {st:?}: out {:?} executing callbacks {executing}", step.out),
            ));
        } else if foreign && !any && is_bcast && executing > 0 {
            res.violation = Some(Violation::new(
                "C07.A2",
                format!("executed-broadcast-from-foreign-master:{label}"),
                format!("{:?}", step.cbs),
            ));
        }
        let mut h = Hasher::default();
        h.add_u64(st as u64);
        h.add_u64(is_bcast as u64 * 2 + foreign as u64);
        h.add_u64(wrote_anything as u64);
        res.model_states.push(h.0);
        res.obs = obs.0;
        res.nontrivial = true;
        res
    }
}

// ---------------------------------------------------------------------------------------
// S: fragments whose transport segments come from different link sources
// ---------------------------------------------------------------------------------------

struct SplitCases {
    name: String,
    cases: Vec<(bool, usize, usize, Vec<u16>)>, // any_master, fragment idx, cut, source of each segment
}

fn build_split() -> SplitCases {
    let mut cases = Vec::new();
    let m = crate::osim::MASTER_ADDR;
    let frags = app_fragments();
    for any in [false, true] {
        for (k, (_, f)) in frags.iter().enumerate() {
            if f.len() < 3 {
                continue;
            }
            // two segments, cut after the application header or in the middle of the objects
            for cut in [2usize, f.len() / 2 + 1] {
                if cut >= f.len() {
                    continue;
                }
                for srcs in [vec![m, m], vec![2, m], vec![m, 2], vec![2, 2], vec![2, 3]] {
                    cases.push((any, k, cut, srcs));
                }
            }
            // three segments
            if f.len() >= 6 {
                for srcs in [vec![m, 2, m], vec![2, m, m], vec![m, m, 2], vec![2, 2, m]] {
                    cases.push((any, k, 0, srcs));
                }
            }
        }
    }
    SplitCases { name: "fragments-split-across-sources".to_string(), cases }
}

impl CaseSpace for SplitCases {
    fn name(&self) -> String {
        self.name.clone()
    }
    fn total(&self) -> usize {
        self.cases.len()
    }
    fn run(&self, index: usize, transcript: bool) -> RunResult {
        let (any, k, cut, srcs) = &self.cases[index];
        let mut res = RunResult::default();
        let mut obs = Hasher::default();
        let cfg = OCfg { any_master: *any, event_buf: [5; 8], ..Default::default() };
        let mut sim = OSim::new(&cfg, 1);
        sim.db(|db| {
            common::add_binaries(db, 2, Some(EventClass::Class1));
        });
        let frags = app_fragments();
        let (label, frag) = &frags[*k];
        let pieces: Vec<&[u8]> = if srcs.len() == 2 {
            vec![&frag[..*cut], &frag[*cut..]]
        } else {
            vec![&frag[..2], &frag[2..4], &frag[4..]]
        };
        let mut bytes = Vec::new();
        for (i, (p, src)) in pieces.iter().zip(srcs.iter()).enumerate() {
            let mut seg = vec![(i as u8) & 0x3F];
            if i == 0 {
                seg[0] |= crate::wire::transport::FIR;
            }
            if i == pieces.len() - 1 {
                seg[0] |= crate::wire::transport::FIN;
            }
            seg.extend_from_slice(p);
            bytes.extend(crate::wire::link::master_data(crate::osim::OUTSTATION_ADDR, *src, &seg));
        }
        sim.send_raw(&bytes);
        let step = collect(
            &mut sim,
            &mut res,
            &mut obs,
            &format!("{label} in {} segments from {srcs:?} (any_master={any})", pieces.len()),
            Some(frag),
            transcript,
        );
        if let Some(f) = sim.failure() {
            res.violation = Some(Violation::new("C07.X0", f.clone(), f));
            res.obs = obs.0;
            return res;
        }
        let all_configured = srcs.iter().all(|s| *s == crate::osim::MASTER_ADDR);
        let one_source = srcs.iter().all(|s| *s == srcs[0]);
        let wrote_anything = !step.out.is_empty();
        let executing = step.cbs.iter().filter(|c| c.is_executing()).count();
        if !any && !all_configured && (wrote_anything || executing > 0) {
            res.violation = Some(Violation::new(
                "C07.A3",
                format!("acted-on-fragment-partly-from-foreign-master:{label}"),
                format!("segments from {srcs:?}: out {:?} executing callbacks {executing}", step.out),
            ));
        } else if !one_source && executing > 0 {
            // even with any-master, no single master sent this request
            res.violation = Some(Violation::new(
                "C07.A4",
                format!("executed-fragment-joined-from-two-masters:{label}"),
                format!("segments from {srcs:?}: {:?}", step.cbs),
            ));
        }
        let mut h = Hasher::default();
        h.add_u64(all_configured as u64 * 2 + one_source as u64);
        h.add_u64(wrote_anything as u64);
        res.model_states.push(h.0);
        res.obs = obs.0;
        res.nontrivial = true;
        res
    }
}

// ---------------------------------------------------------------------------------------
// B: a broadcast fragment is exactly one FIR+FIN transport segment
// ---------------------------------------------------------------------------------------

struct BroadcastSegments;

const BS_SHAPES: [&str; 5] = ["fir+fin", "fin-only", "fir-only", "no-flag", "fir-then-fin"];

impl CaseSpace for BroadcastSegments {
    fn name(&self) -> String {
        "broadcast-transport-segments".to_string()
    }
    fn total(&self) -> usize {
        3 * 3 * BS_SHAPES.len()
    }
    fn run(&self, index: usize, transcript: bool) -> RunResult {
        let mut res = RunResult::default();
        let mut obs = Hasher::default();
        let shape = index % BS_SHAPES.len();
        let i = index / BS_SHAPES.len();
        let dst = [0xFFFFu16, 0xFFFE, 0xFFFD][i % 3];
        let crob = app::prefixed8(12, 1, &[(3, app::crob(0x03, 1, 100, 200, 0))]);
        let (label, frag): (&str, Vec<u8>) = [
            ("direct-operate-nr", app::request(4, fc::DIRECT_OPERATE_NR, &crob)),
            ("write-time", app::request(4, fc::WRITE, &app::g50v1_objects(1000))),
            ("write-restart-bit", app::request(4, fc::WRITE, &app::write_restart_objects(false))),
        ][(i / 3) % 3]
            .clone();
        let cfg = OCfg { broadcast: true, event_buf: [5; 8], ..Default::default() };
        let mut sim = OSim::new(&cfg, 1);
        sim.db(|db| {
            common::add_binaries(db, 2, Some(EventClass::Class1));
        });
        let _ = collect(&mut sim, &mut res, &mut obs, "start", None, transcript);
        let m = crate::osim::MASTER_ADDR;
        let seg = |flags: u8, seq: u8, data: &[u8]| -> Vec<u8> {
            let mut s = vec![flags | (seq & 0x3F)];
            s.extend_from_slice(data);
            crate::wire::link::master_data(dst, m, &s)
        };
        let fir = crate::wire::transport::FIR;
        let fin = crate::wire::transport::FIN;
        let bytes: Vec<u8> = match shape {
            0 => seg(fir | fin, 0, &frag),
            1 => seg(fin, 0, &frag),
            2 => seg(fir, 0, &frag),
            3 => seg(0, 0, &frag),
            _ => {
                let mut b = seg(fir, 0, &frag[..3]);
                b.extend(seg(fin, 1, &frag[3..]));
                b
            }
        };
        sim.send_raw(&bytes);
        let step = collect(&mut sim, &mut res, &mut obs, &format!("{label} to {dst:04X} as {}", BS_SHAPES[shape]), Some(&frag), transcript);
        if let Some(f) = sim.failure() {
            res.violation = Some(Violation::new("C07.X0", f.clone(), f));
            res.obs = obs.0;
            return res;
        }
        let executing = step.cbs.iter().filter(|c| c.is_executing()).count();
        if !step.out.is_empty() {
            res.violation = Some(Violation::new("C07.B2", format!("transmission-in-reply-to-broadcast-fragment:{label}"), format!("{}: {:?}", BS_SHAPES[shape], step.out)));
        } else if shape != 0 && executing > 0 {
            res.violation = Some(Violation::new(
                "C07.B4",
                format!("broadcast-segment-that-is-not-a-whole-fragment-executed:{}", BS_SHAPES[shape]),
                format!("{label} to {dst:04X}: {:?}", step.cbs),
            ));
        }
        // the well-formed shape is the control: it is acted on (so the others are not vacuous)
        res.nontrivial = shape != 0 || executing > 0;
        res.model_states.push((shape * 8 + executing.min(3)) as u64);
        res.obs = obs.0;
        res
    }
}

pub fn replay(name: &str, path: &[usize]) -> Option<RunResult> {
    for tier in ["quick", "thorough"] {
        let s = build_single(tier);
        if s.name == name {
            return Some(s.run(path[0], true));
        }
    }
    let a = build_app();
    if a.name == name {
        return Some(a.run(path[0], true));
    }
    let a = build_split();
    if a.name == name {
        return Some(a.run(path[0], true));
    }
    if BroadcastSegments.name() == name {
        return Some(BroadcastSegments.run(path[0], true));
    }
    for role in [Role::Outstation, Role::Master] {
        for depth in [3usize, 4] {
            let s = LSeq { role, depth, frames: seq_alphabet(role) };
            if s.name() == name {
                return Some(s.run(path, true));
            }
        }
        for depth in [5usize, 7] {
            let s = LSeq { role, depth, frames: core_alphabet(role) };
            if s.name() == name {
                return Some(s.run(path, true));
            }
        }
    }
    None
}

pub fn check(tier: &str) -> i32 {
    let mut c = Check::new("C07", tier);
    c.cases(&build_single(tier));
    for role in [Role::Outstation, Role::Master] {
        let depth = if tier == "quick" { 3 } else { 4 };
        c.explore(&LSeq { role, depth, frames: seq_alphabet(role) });
        c.explore(&LSeq { role, depth: if tier == "quick" { 5 } else { 7 }, frames: core_alphabet(role) });
    }
    c.cases(&build_app());
    c.cases(&build_split());
    c.cases(&BroadcastSegments);
    c.finish(
        "model_checking",
        "link part: role {outstation, master} x self-address feature x link state {not reset, reset} x all 256 control bytes x 7 destination classes x 6 source classes x {no payload, one user-data segment}, each followed by a link-status probe, plus all frame sequences of length 3 (4 thorough) over a 11-14 letter alphabet, executed on the real tasks and compared with a reference secondary station; application part: any-master {off,on} x broadcast feature {off,on} x 3 session states x 11 fragments x 6 (source, destination) pairs; plus every fragment cut into two or three transport segments whose link sources are drawn from {configured master, foreign master 2, foreign master 3} (nothing may be executed or answered unless every segment came from the configured master; nothing joined from two masters may execute even with any-master); broadcast fragments as one FIR+FIN segment (control) and as FIN-only / FIR-only / flag-less / two segments to each broadcast address (never executed, never answered); non-trivial = the endpoint reacted (reply, delivery or callback); distinct = distinct observation",
        &[
            "delivery of user data is observed at the application level (response / confirm / broadcast callback), for payloads from the configured peer",
            "invalid FCV encodings and TEST_LINK_STATES may be ignored or answered (not stated by the property), but never on a broadcast",
        ],
        serde_json::json!({}),
    )
}
