//! C16 — commands succeed only if truly accepted; every request gets exactly one outcome.
//!
//! (1) every single mutation of the faithful command echo, for DIRECT_OPERATE and both steps of
//!     select-before-operate, over 15 command sets; (2) every user request kind x every failure
//!     point (reply lost, connection lost, channel disabled, association removed, request queue
//!     full) at every protocol step. Real MasterTask + the AssociationHandle futures as actors.

use std::sync::{Arc, Mutex};
use std::time::Duration;

use dnp3::app::control::*;
use dnp3::app::{FunctionCode, MaybeAsync, Permissions, Timeout, Variation};
use dnp3::master::*;

use super::common::ideal_reply;
use crate::explore::{CaseSpace, Check, Hasher, RunResult, Violation};
use crate::msim::{MCb, MCbLog, MCfg, MSim, MTx, OUTSTATION_ADDR};
use crate::wire::app::{self, fc};

const RT: u64 = 1000;

fn quiet() -> AssociationConfig {
    let mut c = AssociationConfig::quiet();
    c.response_timeout = Timeout::from_duration(Duration::from_millis(RT)).unwrap();
    c
}

fn crob(n: u32) -> Group12Var1 {
    Group12Var1::new(ControlCode::from_op_type(OpType::LatchOn), 1, 100 + n, 200)
}

/// 15 command sets: 5 control types x {u8 one object, u16 two objects, two headers}
fn command_set(k: usize) -> CommandHeaders {
    let mut b = CommandBuilder::new();
    let ty = k / 3;
    match k % 3 {
        0 => match ty {
            0 => b.add_u8(crob(0), 3),
            1 => b.add_u8(Group41Var1::new(1000), 3),
            2 => b.add_u8(Group41Var2::new(-7), 3),
            3 => b.add_u8(Group41Var3::new(1.5), 3),
            _ => b.add_u8(Group41Var4::new(-2.5), 3),
        },
        1 => {
            for (i, idx) in [300u16, 301].into_iter().enumerate() {
                match ty {
                    0 => b.add_u16(crob(i as u32), idx),
                    1 => b.add_u16(Group41Var1::new(1000 + i as i32), idx),
                    2 => b.add_u16(Group41Var2::new(-7 + i as i16), idx),
                    3 => b.add_u16(Group41Var3::new(1.5 + i as f32), idx),
                    _ => b.add_u16(Group41Var4::new(-2.5 + i as f64), idx),
                }
            }
        }
        _ => {
            match ty {
                0 => b.add_u8(crob(0), 1),
                1 => b.add_u8(Group41Var1::new(5), 1),
                2 => b.add_u8(Group41Var2::new(5), 1),
                3 => b.add_u8(Group41Var3::new(5.0), 1),
                _ => b.add_u8(Group41Var4::new(5.0), 1),
            }
            b.finish_header();
            b.add_u16(crob(9), 400);
        }
    }
    b.build()
}

/// all single mutations of the echoed objects (none of them equals the original)
fn mutations(objs: &[u8]) -> Vec<(String, Vec<u8>)> {
    let mut v: Vec<(String, Vec<u8>)> = Vec::new();
    let hs = app::walk(objs, false).unwrap_or_default();
    // every byte +1 / -1
    for i in 0..objs.len() {
        for d in [1u8, 0xFF] {
            let mut x = objs.to_vec();
            x[i] = x[i].wrapping_add(d);
            v.push((format!("byte{i}{}", if d == 1 { "+1" } else { "-1" }), x));
        }
    }
    // every status code in every object
    let mut off = 0usize;
    for h in &hs {
        let hdr_len = h.raw.len() - h.objects.iter().map(|o| o.data.len() + if h.qual == 0x17 { 1 } else { 2 }).sum::<usize>();
        let mut p = off + hdr_len;
        for o in &h.objects {
            p += if h.qual == 0x17 { 1 } else { 2 };
            let status_at = p + o.data.len() - 1;
            for code in (1u8..=18).chain([126, 127, 128, 129, 255]) {
                let mut x = objs.to_vec();
                x[status_at] = code;
                v.push((format!("status{code}@{status_at}"), x));
            }
            p += o.data.len();
        }
        off += h.raw.len();
    }
    // drop / duplicate / append a header
    let mut off = 0usize;
    for (n, h) in hs.iter().enumerate() {
        let mut x = objs.to_vec();
        x.drain(off..off + h.raw.len());
        v.push((format!("drop-header{n}"), x));
        let mut y = objs.to_vec();
        y.splice(off..off, h.raw.iter().cloned());
        v.push((format!("dup-header{n}"), y));
        off += h.raw.len();
    }
    let mut x = objs.to_vec();
    x.extend(app::prefixed8(12, 1, &[(9, app::crob(3, 1, 1, 1, 0))]));
    v.push(("extra-header".into(), x));
    v.push(("empty".into(), vec![]));
    // drop / reorder objects inside multi-object headers (re-encode)
    for (n, h) in hs.iter().enumerate() {
        if !h.objects.is_empty() {
            let rebuild = |objects: Vec<&app::Obj>| -> Vec<u8> {
                let mut out = Vec::new();
                for (m, hh) in hs.iter().enumerate() {
                    if m != n {
                        out.extend_from_slice(&hh.raw);
                        continue;
                    }
                    out.extend_from_slice(&[hh.group, hh.var, hh.qual]);
                    if hh.qual == 0x17 {
                        out.push(objects.len() as u8);
                    } else {
                        out.extend_from_slice(&(objects.len() as u16).to_le_bytes());
                    }
                    for o in &objects {
                        let i = o.index.unwrap_or(0);
                        if hh.qual == 0x17 {
                            out.push(i as u8);
                        } else {
                            out.extend_from_slice(&(i as u16).to_le_bytes());
                        }
                        out.extend_from_slice(&o.data);
                    }
                }
                out
            };
            if h.objects.len() >= 2 {
                // drop each single object (dropping the last one leaves a faithful prefix)
                for k in 0..h.objects.len() {
                    v.push((format!("drop-object{k}-in-header{n}"), rebuild(h.objects.iter().enumerate().filter(|(i, _)| *i != k).map(|(_, o)| o).collect())));
                }
                v.push((format!("reorder-objects-in-header{n}"), rebuild(h.objects.iter().rev().collect())));
            }
            let mut more: Vec<&app::Obj> = h.objects.iter().collect();
            more.push(&h.objects[0]);
            v.push((format!("add-object-in-header{n}"), rebuild(more)));
        }
    }
    v.retain(|(_, x)| x.as_slice() != objs);
    // the faithful objects under each single IIN2 rejection bit
    for bit in [0x01u8, 0x02, 0x04] {
        v.push((format!("iin2:{bit}"), objs.to_vec()));
    }
    // the faithful objects in a fragment that is not a complete single-fragment response
    for flags in ["fir0fin1", "fir1fin0", "fir0fin0"] {
        v.push((format!("ctrl:{flags}"), objs.to_vec()));
    }
    v
}

#[derive(Copy, Clone, Debug, PartialEq, Eq)]
enum Step {
    Direct,
    SboSelect,
    SboOperate,
}

struct Echo {
    cases: Vec<(usize, Step, usize)>, // command set, step, mutation index (0 = faithful)
}

fn first_request(sim: &mut MSim) -> Option<Vec<u8>> {
    sim.take_out().iter().filter_map(|t| t.frag()).find(|f| f.len() >= 2 && f[1] != fc::CONFIRM).map(|f| f.to_vec())
}

fn build_echo(tier: &str) -> Echo {
    let mut cases = Vec::new();
    for k in 0..15 {
        // size of the mutation space depends on the encoded objects: measure it once
        let mut sim = MSim::new(&MCfg::default(), 1);
        let Some(mut a) = sim.add_association(OUTSTATION_ADDR, quiet()) else { continue };
        sim.take_out();
        let h = command_set(k);
        sim.call("operate", async move { a.operate(CommandMode::DirectOperate, h).await });
        let Some(req) = first_request(&mut sim) else { continue };
        let n = mutations(&req[2..]).len();
        for step in [Step::Direct, Step::SboSelect, Step::SboOperate] {
            for m in 0..=n {
                if tier == "quick" && k % 3 != 0 && m >= 1 && m <= 2 * (req.len() - 2) && (m - 1) % 8 >= 2 {
                    // per-byte +-1 mutations of the two larger sets: every fourth byte in the quick tier
                    continue;
                }
                cases.push((k, step, m));
            }
        }
    }
    Echo { cases }
}

impl CaseSpace for Echo {
    fn name(&self) -> String {
        "command-echo-mutations".to_string()
    }
    fn seeded(&self) -> bool {
        true
    }
    fn total(&self) -> usize {
        self.cases.len()
    }
    fn run(&self, index: usize, transcript: bool) -> RunResult {
        let (k, step, m) = self.cases[index];
        let mut res = RunResult::default();
        let mut h = Hasher::default();
        h.add_u64(index as u64);
        res.obs = h.0;
        let mut sim = MSim::new(&MCfg::default(), 1);
        let Some(mut a) = sim.add_association(OUTSTATION_ADDR, quiet()) else {
            res.violation = Some(Violation::new("C16.P0", "setup", "add_association".to_string()));
            return res;
        };
        sim.take_out();
        sim.take_cb();
        let headers = command_set(k);
        let mode = if step == Step::Direct { CommandMode::DirectOperate } else { CommandMode::SelectBeforeOperate };
        sim.call("operate", async move { a.operate(mode, headers).await });
        let Some(req1) = first_request(&mut sim) else {
            res.violation = Some(Violation::new("C16.P0", "setup", "no request written".to_string()));
            return res;
        };
        let want_fc = if step == Step::Direct { fc::DIRECT_OPERATE } else { fc::SELECT };
        if req1[1] != want_fc {
            res.violation = Some(Violation::new("C16.O0", "unexpected-first-function", format!("{}", req1[1])));
            return res;
        }
        let objs = req1[2..].to_vec();
        let muts = mutations(&objs);
        let (mlabel, mutated): (String, Vec<u8>) = if m == 0 { ("faithful".into(), objs.clone()) } else { muts[m - 1].clone() };
        let mut target = req1.clone();
        if step == Step::SboOperate {
            // faithful SELECT echo first
            sim.respond(&app::response(app::ctrl(true, true, false, false, req1[0] & 0x0F), fc::RESPONSE, 0, 0, &objs));
            let Some(req2) = first_request(&mut sim) else {
                res.violation = Some(Violation::new("C16.O1", "operate-not-sent-after-faithful-select-echo", format!("command set {k}")));
                return res;
            };
            if req2[1] != fc::OPERATE || req2[0] & 0x0F != ((req1[0] & 0x0F) + 1) & 0x0F || req2[2..] != objs[..] {
                res.violation = Some(Violation::new(
                    "C16.O2",
                    "operate-differs-from-select",
                    format!("select {} operate {}", app::hex(&req1), app::hex(&req2)),
                ));
                return res;
            }
            target = req2;
        }
        let iin2: u8 = mlabel.strip_prefix("iin2:").and_then(|b| b.parse().ok()).unwrap_or(0);
        let (fir, fin) = match mlabel.strip_prefix("ctrl:") {
            Some("fir0fin1") => (false, true),
            Some("fir1fin0") => (true, false),
            Some("fir0fin0") => (false, false),
            _ => (true, true),
        };
        let reply = app::response(app::ctrl(fir, fin, false, false, target[0] & 0x0F), fc::RESPONSE, 0, iin2, &mutated);
        sim.respond(&reply);
        res.transitions += 1;
        let after: Vec<Vec<u8>> = sim.take_out().iter().filter_map(|t| t.frag().map(|f| f.to_vec())).collect();
        // a SELECT with a faithful echo continues with OPERATE: answer it faithfully
        let mut operate_sent = false;
        for f in &after {
            if f[1] == fc::OPERATE {
                operate_sent = true;
                sim.respond(&app::response(app::ctrl(true, true, false, false, f[0] & 0x0F), fc::RESPONSE, 0, 0, &f[2..]));
            }
        }
        sim.advance(RT + 10);
        let (cbs, _) = sim.take_cb();
        let done: Vec<&String> = cbs.iter().filter_map(|c| if let MCb::Done(n, r) = c { if n == "operate" { Some(r) } else { None } } else { None }).collect();
        if transcript {
            res.transcript.push(format!("command set {k} step {step:?} mutation {mlabel}"));
            res.transcript.push(format!("request {}", app::hex(&target)));
            res.transcript.push(format!("reply   {}", app::hex(&reply)));
            res.transcript.push(format!("result  {done:?}"));
        }
        if let Some(f) = sim.failure() {
            res.violation = Some(Violation::new("C16.X0", f.clone(), f));
            return res;
        }
        if done.len() != 1 {
            res.violation = Some(Violation::new("C16.U1", "command-future-not-resolved-exactly-once", format!("{} results for mutation {mlabel}", done.len())));
            return res;
        }
        let ok = done[0].starts_with("Ok");
        let should = m == 0;
        if ok != should {
            let kind = mlabel.split(|c: char| c.is_ascii_digit() || c == '@').next().unwrap_or("").to_string();
            res.violation = Some(Violation::new(
                "C16.S1",
                if ok { format!("success-reported-for-unfaithful-echo:{step:?}:{kind}") } else { format!("failure-reported-for-faithful-echo:{step:?}") },
                format!("command set {k}, mutation {mlabel}: request objects {} reply objects {} result {}", app::hex(&objs), app::hex(&mutated), done[0]),
            ));
            return res;
        }
        if step == Step::SboSelect && m != 0 && operate_sent {
            res.violation = Some(Violation::new("C16.O3", "operate-sent-after-unfaithful-select-echo", format!("mutation {mlabel}")));
            return res;
        }
        res.model_states.push((k * 3 + step as usize) as u64);
        res.nontrivial = true;
        res
    }
}

// ---------------------------------------------------------------------------------------
// (2) exactly one outcome for every request kind at every failure point
// ---------------------------------------------------------------------------------------

#[derive(Copy, Clone, Debug, PartialEq, Eq)]
enum Fail {
    None,
    Timeout,
    Eof,
    Disable,
    RemoveAssociation,
    /// the reply is lost while unrelated traffic (a response with a stale sequence number) keeps
    /// arriving more often than one response timeout
    NoisyTimeout,
    /// the addressed outstation stays silent; the ideal reply (right sequence number, faithful
    /// contents) arrives from another outstation that is also associated with the channel
    OtherAssociationReplies,
    /// not a failure of this request: the *other* association of the channel is removed while the
    /// request is under way; the outstation keeps answering and the request completes normally
    RemoveOtherAssociation,
}

/// a second outstation on the same channel
const OTHER_OUTSTATION: u16 = 1025;

struct FileLog {
    log: MCbLog,
}

impl FileReader for FileLog {
    fn opened(&mut self, _size: u32) -> FileAction {
        FileAction::Continue
    }
    fn block_received(&mut self, _n: u32, _d: &[u8]) -> MaybeAsync<FileAction> {
        MaybeAsync::ready(FileAction::Continue)
    }
    fn aborted(&mut self, err: FileError) {
        self.log.lock().unwrap().push(MCb::Done("file-reader".into(), format!("Err({err:?})")));
    }
    fn completed(&mut self) {
        self.log.lock().unwrap().push(MCb::Done("file-reader".into(), "Ok(completed)".into()));
    }
}

const KINDS: usize = 18;

/// submit request kind `k`; returns the name under which its outcome is logged
fn submit(sim: &mut MSim, a: &AssociationHandle, k: usize) -> &'static str {
    let mut a = a.clone();
    let log = sim.cb.clone();
    match k {
        0 => {
            sim.call("req", async move { a.read(ReadRequest::class_scan(Classes::class0())).await });
        }
        1 => {
            let h = Box::new(crate::msim::Handler { log: log.clone(), tag: "custom:" });
            sim.call("req", async move { a.read_with_handler(ReadRequest::all_objects(Variation::Group30Var0), h).await });
        }
        2 => {
            sim.call("req", async move { a.operate(CommandMode::DirectOperate, command_set(0)).await });
        }
        3 => {
            sim.call("req", async move { a.operate(CommandMode::SelectBeforeOperate, command_set(4)).await });
        }
        4 => {
            sim.call("req", async move { a.synchronize_time(TimeSyncProcedure::Lan).await });
        }
        5 => {
            sim.call("req", async move { a.synchronize_time(TimeSyncProcedure::NonLan).await });
        }
        6 => {
            sim.call("req", async move { a.cold_restart().await });
        }
        7 => {
            sim.call("req", async move { a.warm_restart().await });
        }
        8 => {
            sim.call("req", async move { a.write_dead_bands(vec![DeadBandHeader::group34_var1_u8(vec![(1, 5)])]).await });
        }
        9 => {
            sim.call("req", async move {
                a.send_and_expect_empty_response(FunctionCode::ImmediateFreeze, Headers::new().add_all_objects(Variation::Group20Var0)).await
            });
        }
        10 => {
            sim.call("req", async move { a.check_link_status().await });
        }
        11 => {
            sim.call("req", async move { a.get_file_auth_key(FileCredentials { user_name: "u".into(), password: "p".into() }).await });
        }
        12 => {
            sim.call("req", async move { a.open_file("f", AuthKey::none(), Permissions::default(), 0, FileMode::Read, 100).await });
        }
        13 => {
            sim.call("req", async move { a.write_file_block(FileHandle::new(7), BlockNumber::default(), vec![1, 2, 3]).await });
        }
        14 => {
            sim.call("req", async move { a.close_file(FileHandle::new(7)).await });
        }
        15 => {
            sim.call("req", async move { a.get_file_info("x").await });
        }
        16 => {
            sim.call("req", async move { a.read_directory("d", DirReadConfig::default(), None).await });
        }
        _ => {
            let r = Box::new(FileLog { log: log.clone() });
            sim.call("submit", async move { a.read_file("f", FileReadConfig::default(), r, None).await });
            return "file-reader";
        }
    }
    "req"
}

struct Outcomes {
    cases: Vec<(usize, Fail, usize)>,
}

fn build_outcomes() -> Outcomes {
    let mut cases = Vec::new();
    for k in 0..KINDS {
        cases.push((k, Fail::None, 0));
        // (for Fail::None the step number selects what the master is waiting for when the request
        // is issued: 1 = a keep-alive deadline 60 s away, 2 = a periodic poll 60 s away, on the
        // same association; 3 = a periodic poll on the other association)
        cases.push((k, Fail::None, 1));
        cases.push((k, Fail::None, 2));
        cases.push((k, Fail::None, 3));
        for f in [Fail::Timeout, Fail::Eof, Fail::Disable, Fail::RemoveAssociation, Fail::NoisyTimeout, Fail::OtherAssociationReplies, Fail::RemoveOtherAssociation] {
            for step in 0..4 {
                cases.push((k, f, step));
            }
        }
    }
    Outcomes { cases }
}

impl CaseSpace for Outcomes {
    fn name(&self) -> String {
        "exactly-one-outcome".to_string()
    }
    fn seeded(&self) -> bool {
        true
    }
    fn total(&self) -> usize {
        // + the full queue + each request kind issued while there is no connection
        self.cases.len() + 1 + KINDS
    }
    fn run(&self, index: usize, transcript: bool) -> RunResult {
        let mut res = RunResult::default();
        let mut h = Hasher::default();
        h.add_u64(index as u64 + 90000);
        res.obs = h.0;
        let mut sim = MSim::new(&MCfg { reconnect_delay_ms: 500, ..Default::default() }, 1);
        let mut cfg = quiet();
        cfg.max_queued_user_requests = 4;
        let idle_source = match self.cases.get(index) {
            Some((_, Fail::None, s)) => *s,
            _ => 0,
        };
        if idle_source == 1 {
            cfg.keep_alive_timeout = Some(Duration::from_secs(60));
        }
        let Some(a) = sim.add_association(OUTSTATION_ADDR, cfg) else {
            res.violation = Some(Violation::new("C16.P0", "setup", "add_association".to_string()));
            return res;
        };
        let Some(other) = sim.add_association(OTHER_OUTSTATION, quiet()) else {
            res.violation = Some(Violation::new("C16.P0", "setup", "add second association".to_string()));
            return res;
        };
        if idle_source >= 2 {
            let mut h = if idle_source == 2 { a.clone() } else { other.clone() };
            let r = sim.call_now("add_poll", async move { h.add_poll(ReadRequest::class_scan(Classes::class0()), Duration::from_secs(60)).await });
            if !matches!(r, Some(Ok(_))) {
                res.violation = Some(Violation::new("C16.P0", "setup", "add_poll".to_string()));
                return res;
            }
        }
        sim.take_out();
        sim.take_cb();
        if idle_source != 0 {
            // the master has gone to sleep until the deadline
            sim.advance(10);
            sim.take_out();
        }
        if index == self.cases.len() {
            // request queue full: every submission still gets exactly one outcome
            for _ in 0..8 {
                let mut a2 = a.clone();
                sim.call("req", async move { a2.read(ReadRequest::class_scan(Classes::class0())).await });
            }
            for _ in 0..12 {
                for t in sim.take_out() {
                    if let Some(f) = t.frag() {
                        if f[1] != fc::CONFIRM {
                            let r = ideal_reply(f, 0);
                            sim.respond(&r);
                        }
                    }
                }
            }
            sim.advance(2 * RT);
            let (cbs, _) = sim.take_cb();
            let done = cbs.iter().filter(|c| matches!(c, MCb::Done(n, _) if n == "req")).count();
            let too_many = cbs.iter().filter(|c| matches!(c, MCb::Done(_, r) if r.contains("TooManyRequests"))).count();
            if done != 8 || too_many == 0 {
                res.violation = Some(Violation::new(
                    "C16.U2",
                    "queue-full-submissions-not-resolved-exactly-once",
                    format!("{done} of 8 futures resolved, {too_many} with TooManyRequests"),
                ));
            }
            res.nontrivial = true;
            return res;
        }
        if index > self.cases.len() {
            // no connection: the request is refused at once (one outcome, an error), not parked
            let k = index - self.cases.len() - 1;
            sim.disconnect();
            sim.take_out();
            sim.take_cb();
            let name = submit(&mut sim, &a, k);
            sim.advance(400);
            let (cbs, _) = sim.take_cb();
            let done: Vec<&String> = cbs.iter().filter_map(|c| if let MCb::Done(n, r) = c { if n == name { Some(r) } else { None } } else { None }).collect();
            if transcript {
                res.transcript.push(format!("kind {k} issued without a connection: {done:?}"));
            }
            res.transitions += 1;
            if let Some(f) = sim.failure() {
                res.violation = Some(Violation::new("C16.X0", f.clone(), f));
                return res;
            }
            if done.len() != 1 || done[0].starts_with("Ok") {
                res.violation = Some(Violation::new(
                    "C16.U8",
                    format!("request-without-a-connection-not-refused:kind{k}"),
                    format!("{} outcomes within 400 ms (before the master reconnects): {done:?}", done.len()),
                ));
                return res;
            }
            res.model_states.push(9000 + k as u64);
            res.nontrivial = true;
            return res;
        }
        let (k, fail, at_step) = self.cases[index];
        let name = submit(&mut sim, &a, k);
        let mut steps_done = 0usize;
        let mut injected = false;
        let mut disturbed = false;
        let mut link_requests = 0usize;
        let t_start = sim.k.now_ms();
        // drive with an ideal outstation until the failure point
        for _round in 0..12 {
            let outs = sim.take_out();
            let mut progressed = false;
            for t in outs {
                match &t {
                    MTx::Frag { data, .. } if data.len() >= 2 && data[1] != fc::CONFIRM => {
                        if transcript {
                            res.transcript.push(format!("step {steps_done}: request {}", app::hex(&data[..data.len().min(30)])));
                        }
                        if fail == Fail::RemoveOtherAssociation && steps_done == at_step && !disturbed {
                            disturbed = true;
                            let mut ch = sim.channel.clone();
                            sim.call("remove-other", async move {
                                ch.remove_association(dnp3::link::EndpointAddress::try_new(OTHER_OUTSTATION).unwrap()).await
                            });
                        }
                        if fail != Fail::None && fail != Fail::RemoveOtherAssociation && steps_done == at_step && !injected {
                            injected = true;
                            match fail {
                                Fail::Timeout | Fail::NoisyTimeout => {}
                                Fail::OtherAssociationReplies => {
                                    let iin1 = if data[1] == fc::RECORD_CURRENT_TIME || data[1] == fc::DELAY_MEASURE { 0x10 } else { 0 };
                                    let r = ideal_reply(data, iin1);
                                    sim.respond_from(OTHER_OUTSTATION, &r);
                                }
                                Fail::Eof => sim.disconnect(),
                                Fail::Disable => {
                                    let mut ch = sim.channel.clone();
                                    sim.call("disable", async move { ch.disable().await });
                                }
                                Fail::RemoveAssociation => {
                                    let mut ch = sim.channel.clone();
                                    sim.call("remove", async move {
                                        ch.remove_association(dnp3::link::EndpointAddress::try_new(OUTSTATION_ADDR).unwrap()).await
                                    });
                                }
                                Fail::None | Fail::RemoveOtherAssociation => {}
                            }
                        } else if !injected {
                            let iin1 = if data[1] == fc::RECORD_CURRENT_TIME || data[1] == fc::DELAY_MEASURE { 0x10 } else { 0 };
                            let r = ideal_reply(data, iin1);
                            sim.respond(&r);
                            steps_done += 1;
                            progressed = true;
                        }
                    }
                    MTx::Link { frame, .. } if frame.func() == crate::wire::link::PRI_REQUEST_LINK_STATUS && frame.is_prm() => {
                        link_requests += 1;
                        if fail != Fail::None && steps_done == at_step && !injected {
                            injected = true;
                            match fail {
                                Fail::Eof => sim.disconnect(),
                                Fail::Disable => {
                                    let mut ch = sim.channel.clone();
                                    sim.call("disable", async move { ch.disable().await });
                                }
                                _ => {}
                            }
                        } else if !injected {
                            let reply = crate::wire::link::frame(crate::wire::link::SEC_LINK_STATUS, crate::msim::MASTER_ADDR, OUTSTATION_ADDR, &[]);
                            sim.send_raw(&reply);
                            steps_done += 1;
                            progressed = true;
                        }
                    }
                    _ => {}
                }
            }
            if !progressed {
                break;
            }
        }
        // bounded wait: every protocol step may use up one response timeout
        let bound = (steps_done as u64 + 2) * RT + 100;
        if fail == Fail::NoisyTimeout && injected {
            let mut waited = 0u64;
            while waited < bound {
                let step = (RT * 6 / 10).min(bound - waited);
                sim.advance(step);
                waited += step;
                // a well-formed response whose sequence number matches nothing outstanding
                sim.respond(&app::response(app::ctrl(true, true, false, false, 9), fc::RESPONSE, 0, 0, &[]));
                sim.take_out();
            }
        } else {
            sim.advance(bound);
        }
        let elapsed = sim.k.now_ms() - t_start;
        let (cbs, _) = sim.take_cb();
        let done: Vec<&String> = cbs.iter().filter_map(|c| if let MCb::Done(n, r) = c { if n == name { Some(r) } else { None } } else { None }).collect();
        if transcript {
            res.transcript.push(format!("kind {k} failure {fail:?} at step {at_step}: injected={injected} steps_done={steps_done} link_requests={link_requests} elapsed={elapsed}"));
            for c in &cbs {
                if let MCb::Done(n, r) = c {
                    res.transcript.push(format!("   done {n}: {r}"));
                }
            }
        }
        res.transitions += steps_done + 1;
        if let Some(f) = sim.failure() {
            res.violation = Some(Violation::new("C16.X0", f.clone(), f));
            return res;
        }
        if done.len() != 1 {
            res.violation = Some(Violation::new(
                "C16.U1",
                format!("request-not-resolved-exactly-once:kind{k}:{fail:?}"),
                format!("{} outcomes within {bound} ms after the last protocol step (failure {fail:?} at step {at_step}, injected {injected})", done.len()),
            ));
            return res;
        }
        let ok = done[0].starts_with("Ok");
        // a file / directory read has delivered everything before its final CLOSE step
        let close_step_of_read = k >= 16 && at_step >= 2;
        if injected && ok && !close_step_of_read {
            res.violation = Some(Violation::new(
                "C16.U3",
                format!("success-despite-failure:kind{k}:{fail:?}"),
                format!("step {at_step}: {}", done[0]),
            ));
            return res;
        }
        if done[0].contains("Shutdown") {
            // the master task is still running in every case of this space
            res.violation = Some(Violation::new(
                "C16.U6",
                format!("shutdown-reported-by-a-running-master:kind{k}:{fail:?}"),
                format!("step {at_step}: {}", done[0]),
            ));
            return res;
        }
        if fail == Fail::RemoveAssociation && injected {
            // the same request addressed to the association that no longer exists: exactly one
            // outcome, an error, and not "shutdown"
            sim.take_out();
            let name2 = submit(&mut sim, &a, k);
            sim.advance(2 * RT);
            let (cbs2, _) = sim.take_cb();
            let again: Vec<&String> = cbs2.iter().filter_map(|c| if let MCb::Done(n, r) = c { if n == name2 { Some(r) } else { None } } else { None }).collect();
            if transcript {
                res.transcript.push(format!("resubmitted after removal: {again:?}"));
            }
            if again.len() != 1 || again[0].starts_with("Ok") || again[0].contains("Shutdown") {
                res.violation = Some(Violation::new(
                    "C16.U7",
                    format!("request-to-removed-association-not-refused-as-such:kind{k}"),
                    format!("{again:?}"),
                ));
                return res;
            }
        }
        if !injected && !ok {
            res.violation = Some(Violation::new(
                "C16.U4",
                format!("ideal-exchange-reported-as-failure:kind{k}"),
                format!("{} after {steps_done} ideal steps", done[0]),
            ));
            return res;
        }
        if fail == Fail::RemoveOtherAssociation && disturbed {
            // the remaining association is still served: a further request completes
            let mut a2 = a.clone();
            sim.take_out();
            sim.call("after-removal", async move { a2.read(ReadRequest::class_scan(Classes::class0())).await });
            for _ in 0..4 {
                for t in sim.take_out() {
                    if let Some(f) = t.frag() {
                        if f.len() >= 2 && f[1] != fc::CONFIRM {
                            let r = ideal_reply(f, 0);
                            sim.respond(&r);
                        }
                    }
                }
            }
            sim.advance(2 * RT);
            let (cbs, _) = sim.take_cb();
            let ok = cbs.iter().any(|c| matches!(c, MCb::Done(n, r) if n == "after-removal" && r.contains("Ok(")));
            if !ok {
                res.violation = Some(Violation::new(
                    "C16.U5",
                    "request-on-the-remaining-association-not-completed-after-another-was-removed",
                    format!("kind {k}: association {OTHER_OUTSTATION} removed at step {at_step}; a READ on {OUTSTATION_ADDR} afterwards: {:?}", cbs.iter().filter(|c| matches!(c, MCb::Done(..))).collect::<Vec<_>>()),
                ));
                return res;
            }
        }
        res.model_states.push((k * 8 + fail as usize) as u64);
        res.nontrivial = true;
        res
    }
}

/// Requests of different kinds wait in the queue of one association while a first READ is
/// outstanding: a READ, a command, a link status check and a time synchronisation that is
/// abandoned at its start (the application has no clock).  Every sequence of up to 3 of them;
/// the outstation answers everything ideally: each request gets exactly one outcome within the
/// time its protocol steps allow, whatever stands before it in the queue.
struct QueuedMixed;

const QKINDS: usize = 4;

impl CaseSpace for QueuedMixed {
    fn name(&self) -> String {
        "queued-requests-of-mixed-kinds".to_string()
    }
    fn seeded(&self) -> bool {
        true
    }
    fn total(&self) -> usize {
        QKINDS + QKINDS * QKINDS + QKINDS * QKINDS * QKINDS
    }
    fn run(&self, index: usize, transcript: bool) -> RunResult {
        let mut res = RunResult::default();
        let mut kinds: Vec<usize> = Vec::new();
        let mut i = index;
        if i < QKINDS {
            kinds.push(i);
        } else if i < QKINDS + QKINDS * QKINDS {
            i -= QKINDS;
            kinds.extend([i / QKINDS, i % QKINDS]);
        } else {
            i -= QKINDS + QKINDS * QKINDS;
            kinds.extend([i / (QKINDS * QKINDS), (i / QKINDS) % QKINDS, i % QKINDS]);
        }
        res.obs = index as u64 + 60000;
        let mut sim = MSim::new(&MCfg { reconnect_delay_ms: 500, ..Default::default() }, 1);
        *sim.clock.base_ms.lock().unwrap() = None;
        let mut cfg = quiet();
        cfg.max_queued_user_requests = 8;
        let Some(a) = sim.add_association(OUTSTATION_ADDR, cfg) else {
            return res;
        };
        sim.take_out();
        sim.take_cb();
        // the request that occupies the channel while the others are queued
        {
            let mut a2 = a.clone();
            sim.call("first", async move { a2.read(ReadRequest::class_scan(Classes::class0())).await });
        }
        for (n, k) in kinds.iter().enumerate() {
            let mut a2 = a.clone();
            let name = format!("req{n}");
            match k {
                0 => {
                    sim.call(&name, async move { a2.read(ReadRequest::class_scan(Classes::class123())).await });
                }
                1 => {
                    let cmd = CommandBuilder::single_header_u8(crob(n as u32), 3);
                    sim.call(&name, async move { a2.operate(CommandMode::DirectOperate, cmd).await });
                }
                2 => {
                    sim.call(&name, async move { a2.check_link_status().await });
                }
                _ => {
                    sim.call(&name, async move { a2.synchronize_time(TimeSyncProcedure::Lan).await });
                }
            }
        }
        res.transitions += kinds.len() + 1;
        // ideal outstation: every request and every link status request is answered at once
        let bound = (kinds.len() as u64 + 3) * RT;
        let mut waited = 0u64;
        while waited <= bound {
            for t in sim.take_out() {
                match &t {
                    MTx::Frag { data, .. } if data.len() >= 2 && data[1] != fc::CONFIRM => {
                        if transcript {
                            res.transcript.push(format!("t+{waited}: request {}", app::hex(&data[..data.len().min(24)])));
                        }
                        let r = ideal_reply(data, 0);
                        sim.respond(&r);
                    }
                    MTx::Link { frame, .. } if frame.func() == crate::wire::link::PRI_REQUEST_LINK_STATUS && frame.is_prm() => {
                        sim.send_raw(&crate::wire::link::frame(0x0B, 1, OUTSTATION_ADDR, &[]));
                    }
                    _ => {}
                }
            }
            sim.advance(100);
            waited += 100;
        }
        let (cbs, _) = sim.take_cb();
        if let Some(f) = sim.failure() {
            res.violation = Some(Violation::new("C16.X0", f.clone(), f));
            return res;
        }
        let names = ["read", "command", "link-status", "time-sync-without-clock"];
        let label: Vec<&str> = kinds.iter().map(|k| names[*k]).collect();
        for (n, k) in kinds.iter().enumerate() {
            let name = format!("req{n}");
            let done: Vec<&String> = cbs.iter().filter_map(|c| if let MCb::Done(nm, r) = c { if *nm == name { Some(r) } else { None } } else { None }).collect();
            if transcript {
                res.transcript.push(format!("{name} ({}): {done:?}", names[*k]));
            }
            if done.len() != 1 {
                res.violation = Some(Violation::new(
                    "C16.U1",
                    format!("queued-request-not-resolved-exactly-once:{}", names[*k]),
                    format!("queue {label:?} behind an outstanding READ, every request answered ideally: request {n} has {} outcomes after {bound} ms", done.len()),
                ));
                return res;
            }
            let ok = done[0].contains("Ok(");
            if ok != (*k != 3) {
                res.violation = Some(Violation::new(
                    if ok { "C16.U3" } else { "C16.U4" },
                    format!("queued-request-wrong-outcome:{}", names[*k]),
                    format!("queue {label:?}: request {n} -> {}", done[0]),
                ));
                return res;
            }
        }
        res.nontrivial = true;
        res.model_states.push(index as u64 + 5000);
        res
    }
}

/// every ordered pair (and triple) of command kinds added to one CommandBuilder without an
/// explicit finish_header: the request on the wire carries every requested object, in order
struct Builder;

const BKINDS: usize = 10; // 5 object types x {8-bit, 16-bit index}

fn add_kind(b: &mut CommandBuilder, k: usize, n: u16) -> (u8, u8, bool, u16, Vec<u8>) {
    let wide = k % 2 == 1;
    let idx: u16 = if wide { 300 + n } else { 3 + n };
    let (g, v, data): (u8, u8, Vec<u8>) = match k / 2 {
        0 => {
            let c = crob(n as u32);
            if wide { b.add_u16(c, idx) } else { b.add_u8(c, idx as u8) }
            (12, 1, app::crob(0x03, 1, 100 + n as u32, 200, 0))
        }
        1 => {
            let c = Group41Var1::new(1000 + n as i32);
            if wide { b.add_u16(c, idx) } else { b.add_u8(c, idx as u8) }
            (41, 1, app::g41v1(1000 + n as i32, 0))
        }
        2 => {
            let c = Group41Var2::new(-7 + n as i16);
            if wide { b.add_u16(c, idx) } else { b.add_u8(c, idx as u8) }
            (41, 2, app::g41v2(-7 + n as i16, 0))
        }
        3 => {
            let c = Group41Var3::new(1.5 + n as f32);
            if wide { b.add_u16(c, idx) } else { b.add_u8(c, idx as u8) }
            (41, 3, app::g41v3(1.5 + n as f32, 0))
        }
        _ => {
            let c = Group41Var4::new(-2.5 + n as f64);
            if wide { b.add_u16(c, idx) } else { b.add_u8(c, idx as u8) }
            (41, 4, app::g41v4(-2.5 + n as f64, 0))
        }
    };
    (g, v, wide, idx, data)
}

impl CaseSpace for Builder {
    fn name(&self) -> String {
        "command-builder-carries-every-object".to_string()
    }
    fn seeded(&self) -> bool {
        true
    }
    fn total(&self) -> usize {
        BKINDS * BKINDS + BKINDS * BKINDS * BKINDS
    }
    fn run(&self, index: usize, transcript: bool) -> RunResult {
        let mut res = RunResult::default();
        let kinds: Vec<usize> = if index < BKINDS * BKINDS {
            vec![index / BKINDS, index % BKINDS]
        } else {
            let i = index - BKINDS * BKINDS;
            vec![i / (BKINDS * BKINDS), (i / BKINDS) % BKINDS, i % BKINDS]
        };
        res.obs = index as u64 + 414141;
        let mut b = CommandBuilder::new();
        let mut want: Vec<(u8, u8, bool, u16, Vec<u8>)> = Vec::new();
        for (n, k) in kinds.iter().enumerate() {
            want.push(add_kind(&mut b, *k, n as u16));
        }
        let headers = b.build();
        let mut sim = MSim::new(&MCfg::default(), 1);
        let Some(a) = sim.add_association(OUTSTATION_ADDR, quiet()) else { return res };
        sim.take_out();
        let mut a2 = a.clone();
        sim.call("cmd", async move { a2.operate(CommandMode::DirectOperate, headers).await });
        let Some(req) = first_request(&mut sim) else {
            res.violation = Some(Violation::new("C16.B0", "no-request-written", format!("kinds {kinds:?}")));
            return res;
        };
        res.transitions += 1;
        let key = format!("kinds:{}", kinds.iter().map(|k| format!("{}{}", ["g12v1", "g41v1", "g41v2", "g41v3", "g41v4"][k / 2], if k % 2 == 1 { "/16" } else { "/8" })).collect::<Vec<_>>().join("+"));
        let got: Vec<(u8, u8, bool, u16, Vec<u8>)> = match app::walk(&req[2..], false) {
            Ok(hs) => hs
                .iter()
                .flat_map(|h| h.objects.iter().map(move |o| (h.group, h.var, h.qual == 0x28, o.index.unwrap_or(0) as u16, o.data.clone())))
                .collect(),
            Err(e) => {
                res.violation = Some(Violation::new("C16.B1", key, format!("request does not decode: {e:?}: {}", app::hex(&req))));
                return res;
            }
        };
        if transcript {
            res.transcript.push(format!("{key}: request {}", app::hex(&req)));
        }
        if got != want {
            res.violation = Some(Violation::new(
                "C16.B2",
                key,
                format!("the request carries {} of the {} objects added to the builder: {}", got.len(), want.len(), app::hex(&req)),
            ));
            return res;
        }
        res.nontrivial = true;
        res.model_states.push(index as u64 + 5000);
        res
    }
}

/// several user requests are waiting when the session fails: each gets exactly one outcome,
/// promptly, and none of them is transmitted later
struct Queued;

impl CaseSpace for Queued {
    fn name(&self) -> String {
        "queued-requests-at-failure".to_string()
    }
    fn seeded(&self) -> bool {
        true
    }
    fn total(&self) -> usize {
        4 * 3 * 2
    }
    fn run(&self, index: usize, transcript: bool) -> RunResult {
        let mut res = RunResult::default();
        let n = 1 + index % 4; // requests submitted
        let fail = [Fail::Eof, Fail::Disable, Fail::RemoveAssociation][(index / 4) % 3];
        let commands = (index / 12) % 2 == 1;
        res.obs = index as u64 + 70000;
        let mut sim = MSim::new(&MCfg { reconnect_delay_ms: 500, ..Default::default() }, 1);
        let mut cfg = quiet();
        cfg.max_queued_user_requests = 8;
        let Some(a) = sim.add_association(OUTSTATION_ADDR, cfg) else {
            return res;
        };
        sim.take_out();
        sim.take_cb();
        for i in 0..n {
            let mut a2 = a.clone();
            let name = format!("req{i}");
            if commands {
                let cmd = CommandBuilder::single_header_u8(crob(i as u32), 3);
                sim.call(&name, async move { a2.operate(CommandMode::DirectOperate, cmd).await });
            } else {
                sim.call(&name, async move { a2.read(ReadRequest::class_scan(Classes::class0())).await });
            }
        }
        let first = sim.take_out().iter().filter_map(|t| t.frag().map(|f| f.to_vec())).filter(|f| f.len() >= 2 && f[1] != fc::CONFIRM).count();
        if first != 1 {
            res.violation = Some(Violation::new("C16.Q0", "not-exactly-one-request-outstanding", format!("{first} requests written for {n} submissions")));
            return res;
        }
        match fail {
            Fail::Eof => sim.disconnect(),
            Fail::Disable => {
                let mut ch = sim.channel.clone();
                sim.call("disable", async move { ch.disable().await });
            }
            _ => {
                let mut ch = sim.channel.clone();
                sim.call("remove", async move { ch.remove_association(dnp3::link::EndpointAddress::try_new(OUTSTATION_ADDR).unwrap()).await });
            }
        }
        res.transitions += n + 1;
        // no new session is offered: every request must be resolved by the failure itself
        sim.advance((n as u64 + 2) * RT + 100);
        let (cbs, _) = sim.take_cb();
        for i in 0..n {
            let name = format!("req{i}");
            let done: Vec<&String> = cbs.iter().filter_map(|c| if let MCb::Done(nm, r) = c { if *nm == name { Some(r) } else { None } } else { None }).collect();
            if transcript {
                res.transcript.push(format!("{name}: {done:?}"));
            }
            if done.len() != 1 {
                res.violation = Some(Violation::new(
                    "C16.U1",
                    format!("queued-request-not-resolved-exactly-once:{fail:?}"),
                    format!("request {i} of {n} (submitted before the {fail:?}) has {} outcomes after {} response timeouts without a connection", done.len(), n + 2),
                ));
                return res;
            }
            if done[0].contains("Shutdown") && fail != Fail::RemoveAssociation {
                // connection loss and disable leave the master task running: the outcome names what
                // happened (requests queued on an association that is removed are dropped with it, and
                // the library reports that as the end of their master, which is not constrained here)
                res.violation = Some(Violation::new("C16.U6", format!("shutdown-reported-by-a-running-master:queued:{fail:?}"), format!("request {i}: {}", done[0])));
                return res;
            }
            if done[0].starts_with("Ok") {
                res.violation = Some(Violation::new("C16.U3", format!("success-despite-failure:queued:{fail:?}"), format!("request {i}: {}", done[0])));
                return res;
            }
        }
        // a disabled channel (or a removed association) writes nothing more
        if fail != Fail::Eof {
            let later: Vec<String> = sim.take_out().iter().filter_map(|t| t.frag()).filter(|f| f.len() >= 2 && f[1] != fc::CONFIRM).map(|f| app::hex(&f[..f.len().min(16)])).collect();
            if !later.is_empty() {
                res.violation = Some(Violation::new("C16.Q2", format!("request-written-after-the-failure:{fail:?}"), format!("{n} requests were submitted before the {fail:?}; written afterwards: {later:?}")));
                return res;
            }
        }
        // a later session must not carry anything submitted before the failure
        if fail == Fail::Eof {
            sim.advance(600);
            sim.connect();
            sim.advance(3 * RT);
            let stale: Vec<String> = sim.take_out().iter().filter_map(|t| t.frag().map(|f| app::hex(&f[..f.len().min(16)]))).collect();
            if !stale.is_empty() {
                res.violation = Some(Violation::new("C16.Q1", "request-issued-before-the-failure-sent-in-the-next-session".to_string(), format!("{stale:?}")));
                return res;
            }
        }
        if let Some(f) = sim.failure() {
            res.violation = Some(Violation::new("C16.X0", f.clone(), f));
        }
        res.nontrivial = true;
        res.model_states.push((n * 8 + fail as usize) as u64 + 1000);
        res
    }
}

pub fn replay(name: &str, path: &[usize]) -> Option<RunResult> {
    if Queued.name() == name {
        return Some(Queued.run(path[0], true));
    }
    if Builder.name() == name {
        return Some(Builder.run(path[0], true));
    }
    if QueuedMixed.name() == name {
        return Some(QueuedMixed.run(path[0], true));
    }
    for tier in ["quick", "thorough"] {
        let e = build_echo(tier);
        if e.name() == name && path[0] < e.total() {
            return Some(e.run(path[0], true));
        }
    }
    let o = build_outcomes();
    if o.name() == name {
        return Some(o.run(path[0], true));
    }
    None
}

pub fn check(tier: &str) -> i32 {
    let mut c = Check::new("C16", tier);
    c.cases(&build_echo(tier));
    c.cases(&build_outcomes());
    c.cases(&Queued);
    c.cases(&QueuedMixed);
    c.cases(&Builder);
    c.finish(
        "model_checking",
        "(1) 15 command sets (g12v1, g41v1..4 x {one object 8-bit index, two objects 16-bit index, two headers}) x {DIRECT_OPERATE, SELECT step, OPERATE step} x the faithful echo and every single mutation of it (every byte +-1, every status code in every object, header dropped / duplicated / appended, object dropped / added / reordered, empty reply): success must be reported iff the echo is faithful, OPERATE must follow only a faithful SELECT echo with the next sequence number and identical objects; (2) 18 request kinds (read, read with handler, direct and select-before-operate commands, LAN and non-LAN time synchronisation, cold / warm restart, dead-band write, empty-response request, link status check, file authentication / open / write block / close / info, directory read, file read with a FileReader) x {no failure, reply lost, reply lost under stale-sequence noise, the ideal reply arriving from another associated outstation while the addressed one stays silent, connection lost, channel disabled, association removed} x failure at protocol step 0..3; every queue of up to 3 requests drawn from {READ, command, link status check, time synchronisation abandoned at its start} behind an outstanding READ with an ideal outstation (each resolved exactly once, only the abandoned ones with an error), plus a full request queue: the user future (or the FileReader's terminal callback) fires exactly once, with an error iff a failure was injected, within (steps + 2) response timeouts; non-trivial = the case ran to a verdict; distinct = distinct case",
        &[
            "master shut-down (dropping every channel handle) is not driven: the simulation itself holds a handle",
            "the ideal outstation answers every request with the minimal well-formed success response",
        ],
        serde_json::json!({"response_timeout_ms": RT}),
    )
}
