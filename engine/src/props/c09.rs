//! C09 — what one side encodes, the other side's parser decodes to the same objects.
//!
//! (a) programs: every request the master API can build and a broad corpus of fragments the
//!     outstation emits are decoded by the engine's walker and by the library parser; both must
//!     agree on function, flags, IIN, headers, counts and indices, consuming every byte;
//! (b) acceptance: (group, variation) x qualifier x count/range boundaries x completeness: the
//!     library accepts a header only if the bytes are exactly what the reference size table
//!     implies, and iterating it yields that many objects with the declared indices, twice.

use std::future::Future;
use std::pin::Pin;

use dnp3::app::control::*;
use dnp3::app::{FunctionCode, Permissions, Timestamp, Variation};
use dnp3::master::*;
use dnp3::outstation::database::*;
use dnp3::verif::seams::{self, AppParse};

use super::common;
use crate::explore::{CaseSpace, Check, Hasher, RunResult, Violation};
use crate::kernel::guarded;
use crate::msim::{MCfg, MSim};
use crate::osim::{OCfg, OSim};
use crate::wire::app::{self, fc, ObjHeader, RangeSpec, SizeKind};

/// indices printed by the library's object display ("index: N ..." lines)
fn text_indices(text: &str) -> Vec<u32> {
    text.lines()
        .filter_map(|l| l.strip_prefix("index: "))
        .filter_map(|l| l.split_whitespace().next())
        .filter_map(|t| t.parse::<u32>().ok())
        .collect()
}

fn text_items(text: &str) -> usize {
    text.lines().count().saturating_sub(1)
}

/// compare the library's parse of a fragment with the reference walk; `must_accept` = the
/// fragment was produced by one of the library's own encoders
fn compare(frag: &[u8], is_request: bool, must_accept: bool) -> Result<(), (String, String)> {
    let fail = |k: &str, d: String| Err((k.to_string(), d));
    let parsed: Result<AppParse, String> = match guarded(|| seams::app_parse(frag, true)) {
        Ok(x) => x,
        Err(p) => return fail(&format!("panic:{p}"), app::hex(&frag[..frag.len().min(24)])),
    };
    let p = match parsed {
        Ok(p) => p,
        Err(e) => {
            if must_accept {
                return fail("own-fragment-header-rejected", e);
            }
            return Ok(());
        }
    };
    if p.ctrl != frag[0] || p.func != frag[1] {
        return fail("control-or-function-differs", format!("parsed ctrl {:02X} func {} from {:02X} {:02X}", p.ctrl, p.func, frag[0], frag[1]));
    }
    let is_response_fc = frag[1] == fc::RESPONSE || frag[1] == fc::UNSOLICITED_RESPONSE;
    let obj_bytes = if is_response_fc {
        if p.iin != Some((frag[2], frag[3])) {
            return fail("iin-differs", format!("{:?} vs {:02X} {:02X}", p.iin, frag[2], frag[3]));
        }
        &frag[4..]
    } else {
        &frag[2..]
    };
    let mut reference = app::walk(obj_bytes, frag[1] == fc::READ);
    if reference.is_err() && p.objects.is_ok() {
        // the library reads count qualifiers on event groups as data-less "limited count"
        // headers in every function code; that is one defensible reading
        let lenient = app::walk_opts(obj_bytes, frag[1] == fc::READ, true);
        if lenient.is_ok() {
            reference = lenient;
        }
    }
    match (&p.objects, &reference) {
        (Err(e), _) => {
            if must_accept {
                return fail("own-fragment-objects-rejected", format!("{e} for {}", app::hex(&frag[..frag.len().min(40)])));
            }
            Ok(())
        }
        (Ok(hs), Err(e)) => fail(
            "accepted-although-bytes-are-not-what-the-headers-imply",
            format!("library parsed {} header(s); reference walk: {e:?}; fragment {}", hs.len(), app::hex(&frag[..frag.len().min(40)])),
        ),
        (Ok(hs), Ok(rs)) => {
            if !p.second_pass_equal {
                return fail("second-pass-differs-from-first", app::hex(&frag[..frag.len().min(40)]));
            }
            if must_accept {
                let v = if is_request { &p.as_request } else { &p.as_response };
                if let Err(e) = v {
                    return fail("own-fragment-fails-validation", e.clone());
                }
            }
            if hs.len() != rs.len() {
                return fail("header-count-differs", format!("library {} reference {}", hs.len(), rs.len()));
            }
            for (h, r) in hs.iter().zip(rs.iter()) {
                if (h.group, h.var, h.qual) != (r.group, r.var, r.qual) {
                    return fail("header-differs", format!("library g{}v{} q{:02X}, reference g{}v{} q{:02X}", h.group, h.var, h.qual, r.group, r.var, r.qual));
                }
                check_objects(h, r)?;
            }
            Ok(())
        }
    }
}

fn check_objects(h: &seams::HdrOut, r: &ObjHeader) -> Result<(), (String, String)> {
    let fail = |k: &str, d: String| Err((k.to_string(), d));
    let kind = app::size_of(r.group, r.var);
    match kind {
        Some(SizeKind::Attr) | Some(SizeKind::FreeFormat) | None => return Ok(()),
        _ => {}
    }
    let declared: Option<Vec<u32>> = match &r.range {
        RangeSpec::StartStop(a, b) if !r.objects.is_empty() || matches!(kind, Some(SizeKind::NoData)) => {
            if r.objects.is_empty() {
                None
            } else {
                Some((*a..=*b).collect())
            }
        }
        RangeSpec::CountPrefixed(_) => Some(r.objects.iter().filter_map(|o| o.index).collect()),
        _ => None,
    };
    match declared {
        Some(want) => {
            let got = text_indices(&h.text);
            if got != want {
                let k = if got.len() != want.len() { "iteration-yields-wrong-number-of-objects" } else { "iteration-yields-wrong-indices" };
                return fail(
                    &format!("{k}:g{}v{}", h.group, h.var),
                    format!("declared {} objects [{}..], iteration yields {} [{:?}..]", want.len(), want.first().copied().unwrap_or(0), got.len(), got.first()),
                );
            }
        }
        None => {
            if let RangeSpec::Count(n) = r.range {
                if !r.objects.is_empty() && text_items(&h.text) != n as usize {
                    return fail(
                        &format!("iteration-yields-wrong-number-of-objects:g{}v{}", h.group, h.var),
                        format!("declared count {n}, iteration yields {}", text_items(&h.text)),
                    );
                }
            }
        }
    }
    Ok(())
}

// ---------------------------------------------------------------------------------------
// (a) programs
// ---------------------------------------------------------------------------------------

type Req = Box<dyn Fn(AssociationHandle) -> Pin<Box<dyn Future<Output = String>>> + Sync>;

fn req<F, Fut, T>(f: F) -> Req
where
    F: Fn(AssociationHandle) -> Fut + Sync + 'static,
    Fut: Future<Output = T> + 'static,
    T: std::fmt::Debug,
{
    Box::new(move |a| {
        let fut = f(a);
        Box::pin(async move { format!("{:?}", fut.await) })
    })
}

fn crob(i: u32) -> Group12Var1 {
    Group12Var1::new(ControlCode::from_op_type(OpType::LatchOn), 1, 100 + i, 200)
}

fn master_requests() -> Vec<(String, Req)> {
    let mut v: Vec<(String, Req)> = Vec::new();
    let reads: Vec<(&str, ReadRequest)> = vec![
        ("class0", ReadRequest::class_scan(Classes::class0())),
        ("class123", ReadRequest::class_scan(Classes::class123())),
        ("class-all", ReadRequest::class_scan(Classes::all())),
        ("g1v2-range8", ReadRequest::one_byte_range(Variation::Group1Var2, 0, 255)),
        ("g30v1-range16", ReadRequest::two_byte_range(Variation::Group30Var1, 256, 65535)),
        ("g110-range16", ReadRequest::two_byte_range(Variation::Group110(0), 65535, 65535)),
        ("g20v0-all", ReadRequest::all_objects(Variation::Group20Var0)),
        (
            "multi",
            ReadRequest::multiple_headers(&[
                ReadHeader::all_objects(Variation::Group60Var2),
                ReadHeader::one_byte_limited_count(Variation::Group2Var0, 255),
                ReadHeader::two_byte_limited_count(Variation::Group32Var0, 65535),
                ReadHeader::one_byte_range(Variation::Group40Var2, 3, 3),
                ReadHeader::two_byte_range(Variation::Group21Var9, 0, 1000),
            ]),
        ),
    ];
    for (n, r) in reads {
        let r2 = r.clone();
        v.push((format!("read-{n}"), req(move |mut a| {
            let r = r2.clone();
            async move { a.read(r).await }
        })));
    }
    for mode in [CommandMode::DirectOperate, CommandMode::SelectBeforeOperate] {
        for wide in [false, true] {
            for kind in 0..6 {
                let name = format!("operate-{mode:?}-{}-kind{kind}", if wide { "u16" } else { "u8" });
                v.push((name, req(move |mut a| {
                    let mut b = CommandBuilder::new();
                    match (kind, wide) {
                        (0, false) => b.add_u8(crob(0), 255),
                        (0, true) => b.add_u16(crob(0), 65535),
                        (1, false) => b.add_u8(Group41Var1::new(i32::MIN), 0),
                        (1, true) => b.add_u16(Group41Var1::new(i32::MAX), 256),
                        (2, false) => b.add_u8(Group41Var2::new(-1), 7),
                        (2, true) => b.add_u16(Group41Var2::new(i16::MAX), 1000),
                        (3, false) => b.add_u8(Group41Var3::new(1.5), 1),
                        (3, true) => b.add_u16(Group41Var3::new(f32::MAX), 2),
                        (4, false) => b.add_u8(Group41Var4::new(-2.25), 1),
                        (4, true) => b.add_u16(Group41Var4::new(f64::MAX), 2),
                        (_, false) => {
                            // several objects and several headers
                            b.add_u8(crob(1), 1);
                            b.add_u8(crob(2), 2);
                            b.finish_header();
                            b.add_u8(Group41Var2::new(5), 3);
                        }
                        (_, true) => {
                            b.add_u16(crob(1), 300);
                            b.add_u16(crob(2), 301);
                            b.finish_header();
                            b.add_u16(Group41Var4::new(5.0), 3);
                        }
                    }
                    let h = b.build();
                    async move { a.operate(mode, h).await }
                })));
            }
        }
    }
    v.push(("time-sync-lan".into(), req(|mut a| async move { a.synchronize_time(TimeSyncProcedure::Lan).await })));
    v.push(("time-sync-non-lan".into(), req(|mut a| async move { a.synchronize_time(TimeSyncProcedure::NonLan).await })));
    v.push(("cold-restart".into(), req(|mut a| async move { a.cold_restart().await })));
    v.push(("warm-restart".into(), req(|mut a| async move { a.warm_restart().await })));
    v.push(("dead-bands".into(), req(|mut a| async move {
        a.write_dead_bands(vec![
            DeadBandHeader::group34_var1_u8(vec![(0, 1), (255, 65535)]),
            DeadBandHeader::group34_var2_u16(vec![(300, 7), (65535, u32::MAX)]),
            DeadBandHeader::group34_var3_u8(vec![(3, 1.5)]),
        ])
        .await
    })));
    // as many objects as an 8-bit count can (255) and cannot (256: every 8-bit index once) hold
    for n in [255usize, 256] {
        v.push((format!("dead-bands-u8-x{n}{}", if n > 255 { "-may-reject" } else { "" }), req(move |mut a| async move {
            a.write_dead_bands(vec![DeadBandHeader::group34_var1_u8((0..n).map(|i| (i as u8, i as u16)).collect())]).await
        })));
        v.push((format!("operate-g41v2-u8-x{n}{}", if n > 255 { "-may-reject" } else { "" }), req(move |mut a| {
            let mut b = CommandBuilder::new();
            for i in 0..n {
                b.add_u8(Group41Var2::new(i as i16), i as u8);
            }
            let h = b.build();
            async move { a.operate(CommandMode::DirectOperate, h).await }
        })));
    }
    v.push(("empty-response-freeze".into(), req(|mut a| async move {
        a.send_and_expect_empty_response(
            FunctionCode::FreezeAtTime,
            Headers::new().add_time_and_interval(Timestamp::new(5000), 1000).add_all_objects(Variation::Group20Var0).add_range_8(Variation::Group20Var0, 1, 3).add_range_16(Variation::Group21Var0, 0, 65535),
        )
        .await
    })));
    v.push(("empty-response-immediate-freeze".into(), req(|mut a| async move {
        a.send_and_expect_empty_response(FunctionCode::ImmediateFreeze, Headers::new().add_all_objects(Variation::Group20Var0)).await
    })));
    v.push(("get-file-info".into(), req(|mut a| async move { a.get_file_info("some/file.txt").await })));
    v.push(("file-auth".into(), req(|mut a| async move {
        a.get_file_auth_key(FileCredentials { user_name: "user".to_string(), password: "secret".to_string() }).await
    })));
    v.push(("open-file".into(), req(|mut a| async move {
        a.open_file("a.bin", AuthKey::none(), Permissions::default(), 0xFFFF_FFFF, FileMode::Read, 2048).await
    })));
    v.push(("close-file".into(), req(|mut a| async move { a.close_file(FileHandle::new(77)).await })));
    v.push(("write-file-block".into(), req(|mut a| async move {
        a.write_file_block(FileHandle::new(3), BlockNumber::default(), vec![1, 2, 3, 4, 5]).await
    })));
    v
}

struct Programs {
    master: Vec<(String, Req)>,
    outstation: usize,
}

/// configurations of the outstation corpus: (type selector, static variation index, event variation index)
fn outstation_corpus(k: usize) -> Vec<Vec<u8>> {
    // one run per k: a database with every type at sparse indices, variations chosen by k
    let cfg = OCfg { event_buf: [10; 8], sol_tx: if k % 2 == 0 { 2048 } else { 249 }, class_zero_octet_strings: true, ..Default::default() };
    let mut sim = OSim::new(&cfg, 1);
    let idx: [u16; 5] = [0, 2, 3, 7, 300 + (k as u16 % 3) * 32000];
    sim.db(|db| {
        let sb = [StaticBinaryInputVariation::Group1Var1, StaticBinaryInputVariation::Group1Var2][k % 2];
        let eb = [EventBinaryInputVariation::Group2Var1, EventBinaryInputVariation::Group2Var2, EventBinaryInputVariation::Group2Var3][k % 3];
        let sd = [StaticDoubleBitBinaryInputVariation::Group3Var1, StaticDoubleBitBinaryInputVariation::Group3Var2][k % 2];
        let ed = [EventDoubleBitBinaryInputVariation::Group4Var1, EventDoubleBitBinaryInputVariation::Group4Var2, EventDoubleBitBinaryInputVariation::Group4Var3][k % 3];
        let so = [StaticBinaryOutputStatusVariation::Group10Var1, StaticBinaryOutputStatusVariation::Group10Var2][k % 2];
        let eo = [EventBinaryOutputStatusVariation::Group11Var1, EventBinaryOutputStatusVariation::Group11Var2][k % 2];
        let sc = [StaticCounterVariation::Group20Var1, StaticCounterVariation::Group20Var2, StaticCounterVariation::Group20Var5, StaticCounterVariation::Group20Var6][k % 4];
        let ec = [EventCounterVariation::Group22Var1, EventCounterVariation::Group22Var2, EventCounterVariation::Group22Var5, EventCounterVariation::Group22Var6][k % 4];
        let sf = [
            StaticFrozenCounterVariation::Group21Var1,
            StaticFrozenCounterVariation::Group21Var2,
            StaticFrozenCounterVariation::Group21Var5,
            StaticFrozenCounterVariation::Group21Var6,
            StaticFrozenCounterVariation::Group21Var9,
            StaticFrozenCounterVariation::Group21Var10,
        ][k % 6];
        let ef = [EventFrozenCounterVariation::Group23Var1, EventFrozenCounterVariation::Group23Var2, EventFrozenCounterVariation::Group23Var5, EventFrozenCounterVariation::Group23Var6][k % 4];
        let sa = [
            StaticAnalogInputVariation::Group30Var1,
            StaticAnalogInputVariation::Group30Var2,
            StaticAnalogInputVariation::Group30Var3,
            StaticAnalogInputVariation::Group30Var4,
            StaticAnalogInputVariation::Group30Var5,
            StaticAnalogInputVariation::Group30Var6,
        ][k % 6];
        let ea = [
            EventAnalogInputVariation::Group32Var1,
            EventAnalogInputVariation::Group32Var2,
            EventAnalogInputVariation::Group32Var3,
            EventAnalogInputVariation::Group32Var4,
            EventAnalogInputVariation::Group32Var5,
            EventAnalogInputVariation::Group32Var6,
            EventAnalogInputVariation::Group32Var7,
            EventAnalogInputVariation::Group32Var8,
        ][k % 8];
        let ss = [
            StaticAnalogOutputStatusVariation::Group40Var1,
            StaticAnalogOutputStatusVariation::Group40Var2,
            StaticAnalogOutputStatusVariation::Group40Var3,
            StaticAnalogOutputStatusVariation::Group40Var4,
        ][k % 4];
        let es = [
            EventAnalogOutputStatusVariation::Group42Var1,
            EventAnalogOutputStatusVariation::Group42Var2,
            EventAnalogOutputStatusVariation::Group42Var3,
            EventAnalogOutputStatusVariation::Group42Var4,
            EventAnalogOutputStatusVariation::Group42Var5,
            EventAnalogOutputStatusVariation::Group42Var6,
            EventAnalogOutputStatusVariation::Group42Var7,
            EventAnalogOutputStatusVariation::Group42Var8,
        ][k % 8];
        for (n, &i) in idx.iter().enumerate() {
            let class = Some([EventClass::Class1, EventClass::Class2, EventClass::Class3][n % 3]);
            db.add(i, class, BinaryInputConfig::new(sb, eb));
            db.add(i, class, DoubleBitBinaryInputConfig::new(sd, ed));
            db.add(i, class, BinaryOutputStatusConfig::new(so, eo));
            db.add(i, class, CounterConfig::new(sc, ec, 0));
            db.add(i, class, FrozenCounterConfig::new(sf, ef, 0));
            db.add(i, class, AnalogInputConfig::new(sa, ea, 0.0));
            db.add(i, class, AnalogOutputStatusConfig::new(ss, es, 0.0));
            db.add(i, class, OctetStringConfig);
        }
    });
    use dnp3::app::measurement::*;
    sim.db(|db| {
        let opt = UpdateOptions::new(true, EventMode::Force);
        for (n, &i) in idx.iter().enumerate() {
            let t = common::ts(1000 + 70000 * n as u64);
            let fl = Flags::new(if n == 1 { 0x05 } else { 0x01 });
            db.update(i, &BinaryInput::new(n % 2 == 0, fl, t), opt);
            db.update(i, &DoubleBitBinaryInput::new(DoubleBit::DeterminedOn, fl, t), opt);
            db.update(i, &BinaryOutputStatus::new(true, fl, t), opt);
            db.update(i, &Counter::new(70000 + n as u32, fl, t), opt);
            db.update(i, &FrozenCounter::new(7 + n as u32, fl, t), opt);
            db.update(i, &AnalogInput::new(1.5 * n as f64, fl, t), opt);
            db.update(i, &AnalogOutputStatus::new(-3.0 * n as f64, fl, t), opt);
            db.update(i, &OctetString::new(&vec![0x41; 1 + n]).unwrap(), opt);
        }
    });
    // device attributes: a few in the default set, and a private set whose variation list
    // needs the short (<= 127 entries) or the extended (>= 128 entries) list encoding
    let n_private = [3usize, 128, 129, 200][(k / 2) % 4];
    sim.db(|db| {
        use dnp3::app::attr::*;
        let _ = db.define_attr(AttrProp::default(), OwnedAttribute::new(AttrSet::Default, 252, OwnedAttrValue::VisibleString("verif".into())));
        let _ = db.define_attr(AttrProp::writable(), OwnedAttribute::new(AttrSet::Default, 247, OwnedAttrValue::VisibleString("name".into())));
        let _ = db.define_attr(AttrProp::default(), OwnedAttribute::new(AttrSet::Default, 248, OwnedAttrValue::VisibleString("serial".into())));
        for v in 0..n_private {
            let value = match v % 4 {
                0 => OwnedAttrValue::UnsignedInt(v as u32 * 1000),
                1 => OwnedAttrValue::SignedInt(-(v as i32)),
                2 => OwnedAttrValue::VisibleString(format!("attr{v}")),
                _ => OwnedAttrValue::FloatingPoint(FloatType::F32(v as f32)),
            };
            let prop = if v % 3 == 0 { AttrProp::writable() } else { AttrProp::default() };
            let _ = db.define_attr(prop, OwnedAttribute::new(AttrSet::new(1), v as u8, value));
        }
    });
    sim.take_out();
    let mut frags = Vec::new();
    let mut seq = 0u8;
    let crob = app::prefixed8(12, 1, &[(3, app::crob(0x03, 1, 100, 200, 0)), (4, app::crob(0x41, 2, 1, 2, 0))]);
    let requests: Vec<Vec<u8>> = vec![
        app::class_headers(true, true, true, true),
        app::hdr_all(60, 1),
        app::hdr_range16(30, 0, 0, 65535),
        app::hdr_range8(1, 2, 0, 7),
        app::hdr_all(110, 0),
        vec![0, 254, 0x00, 0, 0],
        vec![0, 255, 0x00, 0, 0],
        vec![0, 254, 0x00, 1, 1],
        vec![0, 255, 0x00, 1, 1],
        vec![0, 252, 0x00, 0, 0],
    ];
    for r in requests {
        seq = (seq + 1) & 0x0F;
        sim.send(&app::request(seq, fc::READ, &r));
        for _ in 0..12 {
            let mut con = None;
            for t in sim.take_out() {
                if let Some(f) = t.frag() {
                    frags.push(f.to_vec());
                    if f[0] & app::CON != 0 {
                        con = Some(f[0] & 0x0F);
                    }
                }
            }
            match con {
                Some(s) => sim.send(&app::confirm(s, false)),
                None => break,
            }
        }
    }
    for (func, objs) in [
        (fc::SELECT, crob.clone()),
        (fc::OPERATE, crob.clone()),
        (fc::DIRECT_OPERATE, app::prefixed16(41, 4, &[(300, app::g41v4(1.25, 0))])),
        (fc::DELAY_MEASURE, vec![]),
        (fc::COLD_RESTART, vec![]),
        (fc::WRITE, app::write_restart_objects(false)),
        (0x70, vec![]),
    ] {
        seq = (seq + 1) & 0x0F;
        sim.send(&app::request(seq, func, &objs));
        for t in sim.take_out() {
            if let Some(f) = t.frag() {
                frags.push(f.to_vec());
            }
        }
    }
    frags
}

impl CaseSpace for Programs {
    fn name(&self) -> String {
        "programs-master-requests-and-outstation-responses".to_string()
    }
    fn total(&self) -> usize {
        self.master.len() + self.outstation
    }
    fn run(&self, index: usize, transcript: bool) -> RunResult {
        let mut res = RunResult::default();
        let mut h = Hasher::default();
        h.add_u64(index as u64);
        res.obs = h.0;
        let (label, frags, is_request): (String, Vec<Vec<u8>>, bool) = if index < self.master.len() {
            let (name, f) = &self.master[index];
            let mut sim = MSim::new(&MCfg::default(), 1);
            let Some(assoc) = sim.add_association(crate::msim::OUTSTATION_ADDR, AssociationConfig::quiet()) else {
                res.violation = Some(Violation::new("C09.P0", "add-association-failed", name.clone()));
                return res;
            };
            sim.take_out();
            let fut = f(assoc);
            sim.call(name, fut);
            let mut frags: Vec<Vec<u8>> = sim.take_out().iter().filter_map(|t| t.frag().map(|x| x.to_vec())).collect();
            // second step of two-step procedures: answer the first request ideally
            if let Some(first) = frags.first().cloned() {
                let seq = first[0] & 0x0F;
                let reply: Option<Vec<u8>> = match first[1] {
                    fc::SELECT => Some(app::response(app::ctrl(true, true, false, false, seq), fc::RESPONSE, 0, 0, &first[2..])),
                    fc::RECORD_CURRENT_TIME => Some(app::response(app::ctrl(true, true, false, false, seq), fc::RESPONSE, 0x10, 0, &[])),
                    fc::DELAY_MEASURE => Some(app::response(app::ctrl(true, true, false, false, seq), fc::RESPONSE, 0x10, 0, &[52, 2, 0x07, 1, 0, 0])),
                    _ => None,
                };
                if let Some(r) = reply {
                    sim.respond(&r);
                    frags.extend(sim.take_out().iter().filter_map(|t| t.frag().map(|x| x.to_vec())));
                }
            }
            if let Some(f) = sim.failure() {
                res.violation = Some(Violation::new("C09.X0", f.clone(), f));
                return res;
            }
            if frags.is_empty() {
                // a request that cannot be encoded may be refused: the user is told, nothing is sent
                let (cbs, _) = sim.take_cb();
                let refused = cbs.iter().any(|c| matches!(c, crate::msim::MCb::Done(n, r) if n == name && r.contains("Err(")));
                if name.ends_with("-may-reject") && refused {
                    if transcript {
                        res.transcript.push(format!("{name}: refused ({cbs:?})"));
                    }
                    return res;
                }
                res.violation = Some(Violation::new("C09.P1", format!("request-not-transmitted:{name}"), format!("nothing written; callbacks {cbs:?}")));
                return res;
            }
            (name.clone(), frags, true)
        } else {
            let k = index - self.master.len();
            let r = guarded(|| outstation_corpus(k));
            match r {
                Ok(f) => (format!("outstation-corpus-{k}"), f, false),
                Err(p) => {
                    res.violation = Some(Violation::new("C09.X0", format!("panic: {p}"), format!("outstation corpus {k}")));
                    return res;
                }
            }
        };
        res.transitions += frags.len();
        for f in &frags {
            if transcript {
                res.transcript.push(format!("{label}: {}", app::hex(&f[..f.len().min(120)])));
            }
            if let Err((k, d)) = compare(f, is_request, true) {
                res.violation = Some(Violation::new("C09.A1", format!("{k}:{}", if is_request { label.as_str() } else { "outstation" }), format!("{label}: {d}")));
                return res;
            }
        }
        res.model_states.push(frags.len() as u64);
        res.nontrivial = true;
        res
    }
}

// ---------------------------------------------------------------------------------------
// (b) acceptance sweep
// ---------------------------------------------------------------------------------------

struct Accept {
    name: String,
    gvs: Vec<(u8, u8)>,
    quals: Vec<u8>,
}

const FUNCS: [u8; 3] = [fc::READ, fc::WRITE, fc::RESPONSE];
const COUNTS: [u32; 6] = [0, 1, 2, 255, 256, 65535];
const RANGES: [(u32, u32); 7] = [(0, 0), (0, 7), (0, 8), (5, 4), (65534, 65535), (65535, 65535), (0, 65535)];
const SHAPES: usize = 7; // max(COUNTS, RANGES)
const COMPLETENESS: usize = 4; // exact, -1 byte, +1 byte, header only

fn build_accept(tier: &str) -> Accept {
    let known_groups: Vec<u8> = vec![0, 1, 2, 3, 4, 10, 11, 12, 13, 20, 21, 22, 23, 30, 31, 32, 33, 34, 40, 41, 42, 43, 50, 51, 52, 60, 70, 80, 102, 110, 111];
    let mut gvs = Vec::new();
    if tier == "quick" {
        for g in known_groups.iter().chain([5u8, 99, 255].iter()) {
            for v in (0..=11u8).chain([100, 254, 255]) {
                gvs.push((*g, v));
            }
        }
    } else {
        for g in 0..=255u8 {
            for v in 0..=255u8 {
                gvs.push((g, v));
            }
        }
    }
    let quals: Vec<u8> = if tier == "quick" { vec![0x00, 0x01, 0x06, 0x07, 0x08, 0x17, 0x28, 0x5B, 0x02, 0x09, 0x33, 0x80] } else { (0..=255u8).collect() };
    Accept { name: format!("acceptance-{tier}"), gvs, quals }
}

/// bytes of the object data that the reference size table implies (None = not constructible)
fn data_for(kind: Option<SizeKind>, var: u8, qual: u8, shape: usize, no_data: bool) -> Option<(Vec<u8>, Vec<u8>)> {
    // returns (range/count bytes, data bytes)
    let (prefix_size, count, range_bytes): (usize, usize, Vec<u8>) = match qual {
        0x00 => {
            let (a, b) = RANGES[shape % RANGES.len()];
            if a > 255 || b > 255 {
                return None;
            }
            (0, if b >= a { (b - a + 1) as usize } else { 0 }, vec![a as u8, b as u8])
        }
        0x01 => {
            let (a, b) = RANGES[shape % RANGES.len()];
            (0, if b >= a { (b - a + 1) as usize } else { 0 }, vec![a as u8, (a >> 8) as u8, b as u8, (b >> 8) as u8])
        }
        0x06 => (0, 0, vec![]),
        0x07 | 0x17 => {
            let c = COUNTS[shape % COUNTS.len()];
            if c > 255 {
                return None;
            }
            (if qual == 0x17 { 1 } else { 0 }, c as usize, vec![c as u8])
        }
        0x08 | 0x28 => {
            let c = COUNTS[shape % COUNTS.len()];
            (if qual == 0x28 { 2 } else { 0 }, c as usize, vec![c as u8, (c >> 8) as u8])
        }
        0x5B => {
            let c = COUNTS[shape % COUNTS.len()].min(3);
            (0, c as usize, vec![c as u8])
        }
        _ => (0, 0, vec![1, 2]),
    };
    let size: usize = if no_data || qual == 0x06 {
        0
    } else {
        match kind {
            Some(SizeKind::Fixed(n)) => count * (n + prefix_size),
            Some(SizeKind::VarSized) => count * (var as usize + prefix_size),
            Some(SizeKind::Bits) => (count + 7) / 8,
            Some(SizeKind::DBits) => (count + 3) / 4,
            Some(SizeKind::NoData) => 0,
            Some(SizeKind::Attr) => count * 3,
            Some(SizeKind::FreeFormat) => count * 4,
            None => 4,
        }
    };
    if size > 70_000 {
        return None;
    }
    let mut data = Vec::with_capacity(size);
    match kind {
        Some(SizeKind::Attr) if !no_data => {
            for _ in 0..count {
                data.extend_from_slice(&[1, 1, 0x41]); // VSTR of length 1
            }
        }
        Some(SizeKind::FreeFormat) if !no_data => {
            for _ in 0..count {
                data.extend_from_slice(&[2, 0, 0xAA, 0xBB]);
            }
        }
        _ => {
            for i in 0..size {
                data.push((i as u8).wrapping_mul(7));
            }
        }
    }
    Some((range_bytes, data))
}

/// every object string of the acceptance product for one (group, variation, qualifier):
/// shapes x completeness x {with data, header only as in a READ}; used by C01 as hostile input
pub fn hostile_objects(g: u8, v: u8, q: u8, max_len: usize) -> Vec<Vec<u8>> {
    let kind = app::size_of(g, v);
    let mut out: Vec<Vec<u8>> = Vec::new();
    for no_data in [true, false] {
        for shape in 0..SHAPES {
            let Some((range, data)) = data_for(kind, v, q, shape, no_data) else { continue };
            if data.len() > max_len {
                continue;
            }
            for comp in 0..COMPLETENESS {
                let mut objs = vec![g, v, q];
                objs.extend_from_slice(&range);
                match comp {
                    0 => objs.extend_from_slice(&data),
                    1 => {
                        if data.is_empty() {
                            continue;
                        }
                        objs.extend_from_slice(&data[..data.len() - 1]);
                    }
                    2 => {
                        objs.extend_from_slice(&data);
                        objs.push(0x01);
                    }
                    _ => {
                        if data.is_empty() {
                            continue;
                        }
                    }
                }
                if !out.contains(&objs) {
                    out.push(objs);
                }
            }
        }
    }
    out
}

/// the (group, variation) and qualifier menus of the acceptance product
pub fn hostile_menu(tier: &str) -> (Vec<(u8, u8)>, Vec<u8>) {
    let a = build_accept(tier);
    (a.gvs, a.quals)
}

impl CaseSpace for Accept {
    fn name(&self) -> String {
        self.name.clone()
    }
    fn total(&self) -> usize {
        self.gvs.len() * self.quals.len()
    }
    fn run(&self, index: usize, transcript: bool) -> RunResult {
        let mut res = RunResult::default();
        let (g, v) = self.gvs[index / self.quals.len()];
        let q = self.quals[index % self.quals.len()];
        let mut h = Hasher::default();
        h.add(&[g, v, q]);
        res.obs = h.0;
        let kind = app::size_of(g, v);
        let mut accepted = 0u64;
        // a READ carries headers only; the same headers followed by the object data they would
        // describe in another function code (second pass) are not a well-formed READ unless the
        // data happens to read as further headers
        for (func, no_data) in FUNCS.iter().map(|f| (*f, *f == fc::READ)).chain([(fc::READ, false)]) {
            for shape in 0..SHAPES {
                let Some((range, data)) = data_for(kind, v, q, shape, no_data) else { continue };
                if func == fc::READ && !no_data && data.is_empty() {
                    continue;
                }
                for comp in 0..COMPLETENESS {
                    let mut objs = vec![g, v, q];
                    objs.extend_from_slice(&range);
                    match comp {
                        0 => objs.extend_from_slice(&data),
                        1 => {
                            if data.is_empty() {
                                continue;
                            }
                            objs.extend_from_slice(&data[..data.len() - 1]);
                        }
                        2 => {
                            objs.extend_from_slice(&data);
                            objs.push(0x01);
                        }
                        _ => {
                            if data.is_empty() {
                                continue;
                            }
                        }
                    }
                    let frag = if func == fc::RESPONSE {
                        app::response(0xC0, func, 0, 0, &objs)
                    } else {
                        app::request(0, func, &objs)
                    };
                    res.transitions += 1;
                    match compare(&frag, func != fc::RESPONSE, false) {
                        Ok(()) => {
                            if comp == 0 {
                                accepted += 1;
                            }
                        }
                        Err((k, d)) => {
                            res.violation = Some(Violation::new(
                                "C09.B1",
                                format!("{k}:fc{func}:q{q:02X}"),
                                format!("g{g}v{v} qualifier {q:02X} shape {shape} completeness {comp}: {d}"),
                            ));
                            if transcript {
                                res.transcript.push(app::hex(&frag[..frag.len().min(64)]));
                            }
                            return res;
                        }
                    }
                }
            }
        }
        res.model_states.push(((kind.is_some() as u64) << 8) | q as u64);
        res.nontrivial = kind.is_some();
        if transcript {
            res.transcript.push(format!("g{g}v{v} qualifier {q:02X}: {} fragments, {accepted} exact forms examined", res.transitions));
        }
        res
    }
}

// ---------------------------------------------------------------------------------------
// (c) single-byte truncations / extensions / field mutations of program outputs
// ---------------------------------------------------------------------------------------

struct Mutants {
    frags: Vec<(Vec<u8>, bool)>,
}

fn build_mutants() -> Mutants {
    let mut frags: Vec<(Vec<u8>, bool)> = Vec::new();
    for k in [0usize, 1, 5, 7, 11] {
        for f in outstation_corpus(k) {
            if f.len() <= 400 {
                frags.push((f, false));
            }
        }
    }
    // a few requests built by the engine's encoders in the shapes the master produces
    let crob = app::prefixed8(12, 1, &[(3, app::crob(0x03, 1, 100, 200, 0))]);
    frags.push((app::request(1, fc::SELECT, &crob), true));
    frags.push((app::request(1, fc::WRITE, &app::g50v1_objects(1234)), true));
    frags.push((app::request(1, fc::READ, &app::class_headers(true, true, true, true)), true));
    frags.push((app::request(1, fc::READ, &app::hdr_range16(30, 2, 0, 10)), true));
    frags.dedup();
    Mutants { frags }
}

impl CaseSpace for Mutants {
    fn name(&self) -> String {
        "mutations-of-valid-fragments".to_string()
    }
    fn total(&self) -> usize {
        self.frags.len()
    }
    fn run(&self, index: usize, _transcript: bool) -> RunResult {
        let mut res = RunResult::default();
        let (f, is_req) = &self.frags[index];
        let mut h = Hasher::default();
        h.add(f);
        res.obs = h.0;
        let mut variants: Vec<Vec<u8>> = Vec::new();
        // every truncation
        for n in 0..f.len() {
            variants.push(f[..n].to_vec());
        }
        // one-byte extensions
        for b in [0x00u8, 0x01, 0xFF] {
            let mut x = f.clone();
            x.push(b);
            variants.push(x);
        }
        // every byte +-1 and inverted
        for i in 0..f.len().min(120) {
            for d in [1u8, 0xFF, 0x80] {
                let mut x = f.clone();
                x[i] = x[i].wrapping_add(d);
                variants.push(x);
            }
        }
        for v in &variants {
            if v.len() < 2 {
                continue;
            }
            res.transitions += 1;
            if let Err((k, d)) = compare(v, *is_req, false) {
                res.violation = Some(Violation::new("C09.C1", k, d));
                return res;
            }
        }
        res.model_states.push(f.len() as u64);
        res.nontrivial = true;
        res
    }
}

// ---------------------------------------------------------------------------------------
// (d) group 70 free-format objects: the library's writer against its reader, field by field
// ---------------------------------------------------------------------------------------

struct FileObjects {
    cases: Vec<dnp3::verif::seams::FileObj>,
}

fn time48(t: u64) -> [u8; 6] {
    let b = t.to_le_bytes();
    [b[0], b[1], b[2], b[3], b[4], b[5]]
}

/// the encoding IEEE 1815 (Annex A, g70) gives the object
fn file_reference(p: &dnp3::verif::seams::FileObj) -> Vec<u8> {
    let mut o = Vec::new();
    let s1 = p.s1.as_bytes();
    let s2 = p.s2.as_bytes();
    match p.var {
        2 => {
            o.extend_from_slice(&12u16.to_le_bytes());
            o.extend_from_slice(&(s1.len() as u16).to_le_bytes());
            o.extend_from_slice(&(12 + s1.len() as u16).to_le_bytes());
            o.extend_from_slice(&(s2.len() as u16).to_le_bytes());
            o.extend_from_slice(&p.a.to_le_bytes());
            o.extend_from_slice(s1);
            o.extend_from_slice(s2);
        }
        3 => {
            o.extend_from_slice(&26u16.to_le_bytes());
            o.extend_from_slice(&(s1.len() as u16).to_le_bytes());
            o.extend_from_slice(&time48(p.time));
            o.extend_from_slice(&p.perms.to_le_bytes());
            o.extend_from_slice(&p.a.to_le_bytes());
            o.extend_from_slice(&p.b.to_le_bytes());
            o.extend_from_slice(&p.code.to_le_bytes());
            o.extend_from_slice(&p.c.to_le_bytes());
            o.extend_from_slice(&p.d.to_le_bytes());
            o.extend_from_slice(s1);
        }
        4 => {
            o.extend_from_slice(&p.a.to_le_bytes());
            o.extend_from_slice(&p.b.to_le_bytes());
            o.extend_from_slice(&p.c.to_le_bytes());
            o.extend_from_slice(&p.d.to_le_bytes());
            o.push(p.code as u8);
            o.extend_from_slice(s1);
        }
        5 => {
            o.extend_from_slice(&p.a.to_le_bytes());
            o.extend_from_slice(&p.b.to_le_bytes());
            o.extend_from_slice(&p.data);
        }
        6 => {
            o.extend_from_slice(&p.a.to_le_bytes());
            o.extend_from_slice(&p.b.to_le_bytes());
            o.push(p.code as u8);
            o.extend_from_slice(s1);
        }
        7 => {
            o.extend_from_slice(&20u16.to_le_bytes());
            o.extend_from_slice(&(s1.len() as u16).to_le_bytes());
            o.extend_from_slice(&p.code.to_le_bytes());
            o.extend_from_slice(&p.b.to_le_bytes());
            o.extend_from_slice(&time48(p.time));
            o.extend_from_slice(&p.perms.to_le_bytes());
            o.extend_from_slice(&p.d.to_le_bytes());
            o.extend_from_slice(s1);
        }
        _ => o.extend_from_slice(s1),
    }
    o
}

fn build_file_objects() -> FileObjects {
    use dnp3::verif::seams::FileObj;
    let mut cases = Vec::new();
    let names = ["", "a", "dir/file.txt", "ünï"];
    // every permission word with every other field at two settings (v3 and v7 carry permissions)
    for var in [3u8, 7] {
        for perms in 0..512u16 {
            for k in 0..2usize {
                cases.push(FileObj {
                    var,
                    a: [0, 0x01020304][k],
                    b: [0, 0xA1B2C3D4][k],
                    c: [0, 0x1122][k],
                    d: [0, 0x3344][k],
                    perms,
                    code: [1, 2][k],
                    time: [0, 0x0000_A1A2_A3A4_A5A6][k],
                    s1: names[(perms as usize + k) % names.len()].to_string(),
                    ..Default::default()
                });
            }
        }
    }
    // every status / mode / type code with boundary numbers
    let nums32 = [0u32, 1, 0x01020304, u32::MAX];
    let nums16 = [0u16, 1, 0x0102, u16::MAX];
    for var in [3u8, 4, 6, 7] {
        let codes: Vec<u16> = if var == 4 || var == 6 { (0..=255).collect() } else { vec![0, 1, 2, 3, 4, 255, 256, 0xFFFF] };
        for code in codes {
            for (i, a) in nums32.iter().enumerate() {
                cases.push(FileObj {
                    var,
                    a: *a,
                    b: nums32[(i + 1) % 4],
                    c: nums16[(i + 2) % 4],
                    d: nums16[(i + 3) % 4],
                    perms: 0o640,
                    code,
                    time: [0u64, 1, (1 << 48) - 1, 0x0000_0102_0304_0506][i],
                    s1: names[i].to_string(),
                    ..Default::default()
                });
            }
        }
    }
    for (i, a) in nums32.iter().enumerate() {
        for s1 in names {
            for s2 in names {
                cases.push(FileObj { var: 2, a: *a, s1: s1.to_string(), s2: s2.to_string(), ..Default::default() });
            }
            cases.push(FileObj { var: 8, s1: s1.to_string(), ..Default::default() });
        }
        for n in [0usize, 1, 2, 255, 1000] {
            cases.push(FileObj { var: 5, a: *a, b: nums32[(i + 1) % 4], data: (0..n).map(|k| (k * 7) as u8).collect(), ..Default::default() });
        }
    }
    FileObjects { cases }
}

impl CaseSpace for FileObjects {
    fn name(&self) -> String {
        "file-objects".into()
    }
    fn total(&self) -> usize {
        self.cases.len()
    }
    fn run(&self, index: usize, transcript: bool) -> RunResult {
        let mut res = RunResult::default();
        let p = &self.cases[index];
        let reference = file_reference(p);
        res.obs = crate::explore::fnv_str(&format!("{p:?}"));
        res.transitions = 1;
        let out = match crate::kernel::guarded(|| dnp3::verif::seams::file_object(p, &reference)) {
            Ok(o) => o,
            Err(e) => {
                res.violation = Some(Violation::new("C09.X0", format!("panic:g70v{}", p.var), format!("{p:?}: {e}")));
                return res;
            }
        };
        if transcript {
            res.transcript.push(format!("object    {}", out.original));
            res.transcript.push(format!("reference {}", app::hex(&reference[..reference.len().min(64)])));
            res.transcript.push(format!("encoded   {:?}", out.encoded.as_ref().map(|r| r.as_ref().map(|b| app::hex(&b[..b.len().min(64)])))));
            res.transcript.push(format!("decoded   {:?}", out.decoded));
        }
        let key = format!("g70v{}", p.var);
        if let Some(enc) = &out.encoded {
            match enc {
                Ok(b) if *b == reference => {}
                Ok(b) => {
                    res.violation = Some(Violation::new("C09.F1", format!("file-object-encoding-differs-from-the-standard:{key}"), format!("{}: library {} reference {}", out.original, app::hex(&b[..b.len().min(48)]), app::hex(&reference[..reference.len().min(48)]))));
                    return res;
                }
                Err(e) => {
                    res.violation = Some(Violation::new("C09.F1", format!("file-object-not-encoded:{key}"), format!("{}: {e}", out.original)));
                    return res;
                }
            }
        }
        match &out.decoded {
            Ok(d) if *d == out.original => {}
            other => {
                res.violation = Some(Violation::new("C09.F2", format!("file-object-decodes-to-something-else:{key}"), format!("encoded {} decoded {:?}", out.original, other)));
                return res;
            }
        }
        // the same object inside a fragment: accepted as one free-format header; a declared length
        // that covers one octet more than the object's own fields account for is rejected
        // (variations whose last field takes "the rest" have no such thing as a trailing octet)
        let frame = |data: &[u8]| -> Vec<u8> {
            let mut o = vec![70u8, p.var, 0x5B, 1, data.len() as u8, (data.len() >> 8) as u8];
            o.extend_from_slice(data);
            app::response(0xC0, fc::RESPONSE, 0, 0, &o)
        };
        let exact = dnp3::verif::seams::app_parse(&frame(&reference), false);
        let exact_ok = matches!(&exact, Ok(a) if matches!(&a.objects, Ok(h) if h.len() == 1 && h[0].group == 70 && h[0].var == p.var));
        if !exact_ok {
            res.violation = Some(Violation::new("C09.F3", format!("file-object-rejected-inside-a-fragment:{key}"), format!("{}: {:?}", out.original, exact.map(|a| a.objects))));
            return res;
        }
        if matches!(p.var, 2 | 3 | 7) {
            let mut longer = reference.clone();
            longer.push(0xFF);
            let r = dnp3::verif::seams::app_parse(&frame(&longer), false);
            if matches!(&r, Ok(a) if a.objects.is_ok()) {
                res.violation = Some(Violation::new(
                    "C09.F4",
                    format!("free-format-object-accepted-although-its-declared-length-exceeds-its-fields:{key}"),
                    format!("{} with one extra octet inside the declared length of {}", out.original, longer.len()),
                ));
                return res;
            }
        }
        res.nontrivial = true;
        res.model_states.push(p.var as u64);
        res
    }
}

// ---------------------------------------------------------------------------------------
// (e) device-attribute values: the library's writer against its parser and the standard
// ---------------------------------------------------------------------------------------

struct AttrValues {
    cases: Vec<dnp3::app::attr::OwnedAttrValue>,
}

fn build_attr_values() -> AttrValues {
    use dnp3::app::attr::{FloatType, OwnedAttrValue as V};
    let mut cases = Vec::new();
    for x in [i32::MIN, i32::MIN + 1, -65536, -32769, -32768, -32767, -256, -255, -129, -128, -127, -2, -1, 0, 1, 2, 126, 127, 128, 255, 256, 32766, 32767, 32768, 65535, 65536, i32::MAX - 1, i32::MAX] {
        cases.push(V::SignedInt(x));
    }
    for x in [0u32, 1, 127, 128, 254, 255, 256, 32767, 32768, 65534, 65535, 65536, u32::MAX - 1, u32::MAX] {
        cases.push(V::UnsignedInt(x));
    }
    for x in [0.0f32, -0.0, 1.5, -1.5, f32::MIN, f32::MAX, f32::MIN_POSITIVE, f32::INFINITY, f32::NEG_INFINITY] {
        cases.push(V::FloatingPoint(FloatType::F32(x)));
    }
    for x in [0.0f64, -0.0, 1.5, -1.5, f64::MIN, f64::MAX, f64::MIN_POSITIVE, f64::INFINITY, f64::NEG_INFINITY] {
        cases.push(V::FloatingPoint(FloatType::F64(x)));
    }
    for n in [0usize, 1, 2, 127, 128, 254, 255] {
        cases.push(V::VisibleString("x".repeat(n)));
        cases.push(V::OctetString((0..n).map(|k| (k * 3) as u8).collect()));
        cases.push(V::BitString((0..n).map(|k| (k * 5 + 1) as u8).collect()));
    }
    for t in [0u64, 1, 0x0102_0304_0506, (1 << 48) - 1] {
        cases.push(V::Dnp3Time(dnp3::app::Timestamp::new(t)));
    }
    AttrValues { cases }
}

/// value carried by an attribute encoding, decoded as IEEE 1815 (Annex A, g0) says
fn attr_reference_decode(b: &[u8]) -> Option<String> {
    use dnp3::app::attr::{FloatType, OwnedAttrValue as V};
    if b.len() < 2 || b.len() != 2 + b[1] as usize {
        return None;
    }
    let d = &b[2..];
    let v = match (b[0], d.len()) {
        (1, _) => V::VisibleString(String::from_utf8(d.to_vec()).ok()?),
        (2, 1) => V::UnsignedInt(d[0] as u32),
        (2, 2) => V::UnsignedInt(u16::from_le_bytes([d[0], d[1]]) as u32),
        (2, 4) => V::UnsignedInt(u32::from_le_bytes([d[0], d[1], d[2], d[3]])),
        (3, 1) => V::SignedInt(d[0] as i8 as i32),
        (3, 2) => V::SignedInt(i16::from_le_bytes([d[0], d[1]]) as i32),
        (3, 4) => V::SignedInt(i32::from_le_bytes([d[0], d[1], d[2], d[3]])),
        (4, 4) => V::FloatingPoint(FloatType::F32(f32::from_le_bytes([d[0], d[1], d[2], d[3]]))),
        (4, 8) => V::FloatingPoint(FloatType::F64(f64::from_le_bytes([d[0], d[1], d[2], d[3], d[4], d[5], d[6], d[7]]))),
        (5, _) => V::OctetString(d.to_vec()),
        (6, _) => V::BitString(d.to_vec()),
        (7, 6) => V::Dnp3Time(dnp3::app::Timestamp::new(u64::from_le_bytes([d[0], d[1], d[2], d[3], d[4], d[5], 0, 0]))),
        _ => return None,
    };
    Some(format!("{v:?}"))
}

impl CaseSpace for AttrValues {
    fn name(&self) -> String {
        "attribute-values".into()
    }
    fn total(&self) -> usize {
        self.cases.len()
    }
    fn run(&self, index: usize, transcript: bool) -> RunResult {
        let mut res = RunResult::default();
        let v = &self.cases[index];
        let original = format!("{v:?}");
        res.obs = crate::explore::fnv_str(&original);
        res.transitions = 1;
        let (encoded, decoded) = match crate::kernel::guarded(|| dnp3::verif::seams::attr_value_roundtrip(v)) {
            Ok(o) => o,
            Err(e) => {
                res.violation = Some(Violation::new("C09.X0", "panic:attribute-value", format!("{original}: {e}")));
                return res;
            }
        };
        let key = original.split('(').next().unwrap_or("").to_string();
        if transcript {
            res.transcript.push(format!("value   {}", &original[..original.len().min(80)]));
            res.transcript.push(format!("encoded {:?}", encoded.as_ref().map(|b| app::hex(&b[..b.len().min(32)]))));
            res.transcript.push(format!("decoded {:?}", decoded.as_ref().map(|d| &d[..d.len().min(80)])));
        }
        let bytes = match encoded {
            Ok(b) => b,
            Err(e) => {
                res.violation = Some(Violation::new("C09.V1", format!("attribute-value-not-encoded:{key}"), format!("{original}: {e}")));
                return res;
            }
        };
        let reference = attr_reference_decode(&bytes);
        if reference.as_deref() != Some(original.as_str()) {
            res.violation = Some(Violation::new("C09.V1", format!("attribute-encoding-does-not-carry-the-value:{key}"), format!("{original} encoded as {}, which is {:?}", app::hex(&bytes[..bytes.len().min(32)]), reference)));
            return res;
        }
        if decoded.as_deref() != Ok(original.as_str()) {
            res.violation = Some(Violation::new("C09.V2", format!("attribute-value-decodes-to-something-else:{key}"), format!("{original} encoded as {} parsed as {:?}", app::hex(&bytes[..bytes.len().min(32)]), decoded)));
            return res;
        }
        res.nontrivial = true;
        res.model_states.push(bytes[0] as u64 * 16 + bytes[1].min(15) as u64);
        res
    }
}

pub fn replay(name: &str, path: &[usize]) -> Option<RunResult> {
    for tier in ["quick", "thorough"] {
        let a = build_accept(tier);
        if a.name == name {
            return Some(a.run(path[0], true));
        }
    }
    let p = Programs { master: master_requests(), outstation: 48 };
    if p.name() == name {
        return Some(p.run(path[0], true));
    }
    let m = build_mutants();
    if m.name() == name {
        return Some(m.run(path[0], true));
    }
    let f = build_file_objects();
    if f.name() == name {
        return Some(f.run(path[0], true));
    }
    let f = build_attr_values();
    if f.name() == name {
        return Some(f.run(path[0], true));
    }
    let f = super::c10::Cto { id: "C09" };
    if f.name() == name {
        return Some(f.run(path[0], true));
    }
    None
}

pub fn check(tier: &str) -> i32 {
    let mut c = Check::new("C09", tier);
    c.cases(&Programs { master: master_requests(), outstation: 48 });
    c.cases(&build_accept(tier));
    c.cases(&build_mutants());
    c.cases(&build_file_objects());
    c.cases(&build_attr_values());
    c.cases(&super::c10::Cto { id: "C09" });
    c.finish(
        "exploration",
        "(a) every request kind the master API builds (8 READ forms, 24 command sets over 5 control types x 8/16-bit indices x direct/select incl. the OPERATE step, both time synchronisations incl. their second step, restarts, dead-band writes, freeze requests with time-and-interval, file requests) and 48 outstation corpora (every static and event variation of all eight types at sparse indices up to 65535, control echoes, delay, restart, error responses, at transmit sizes 249 and 2048) are parsed by the library parser and by the engine's walker: function, flags, IIN, headers, counts and indices must agree and the lazy second pass must equal the first; (b) for every (group, variation) [known groups x 15 variations quick; all 65 536 thorough] x qualifier [12 quick; all 256 thorough] x function {READ, WRITE, RESPONSE} x 7 count/range shapes x {exact, -1 byte, +1 byte, header only}: if the library accepts, the reference size table must agree that the bytes are exactly what the header implies and iteration must yield the declared number of objects with the declared indices; (c) every truncation, three one-byte extensions and three mutations of every byte of the corpus fragments; (d) group 70 free-format objects v2..v8: all 512 permission words x 2 settings of the other fields (v3, v7), all 256 status codes / boundary mode and type codes x boundary numbers, strings and data lengths: the library's writer must produce the encoding of IEEE 1815 Annex A and its reader must turn that encoding back into the same object; (e) device-attribute values of every type at boundary values (signed and unsigned integers around every length boundary, floats, strings of length 0..255, time): the writer's encoding carries the value per Annex A and the parser returns it; (f) relative-time events (g2v3 / g4v3): all orders of 3 events with time differences {0, 1, 65535, 65536, -1, -70000} and mixed synchronisation under common-time-of-occurrence headers decode to the recorded times (the product C10 also runs); non-trivial = the variation is known to the reference; distinct = distinct input",
        &["object values inside accepted headers are compared by C10 (end to end), here counts and indices are compared through the library's own object display"],
        serde_json::json!({}),
    )
}
