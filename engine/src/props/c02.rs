//! C02 — end to end, the master's picture converges to the outstation's database.
//!
//! PAIR SM (C02-a of DESIGN §5): real MasterTask (inside the Session wrapper and a copy of the
//! TCP client's connect/run/retry loop) and real OutstationTask (inside the real ServerTask),
//! each on its own byte pipe, one virtual clock, the driver is the network. Deviation-bounded
//! exploration: all histories with at most n departures from the default schedule (forward
//! everything whole as soon as it is written, advance to the next timer when quiescent).

use std::collections::BTreeMap;
use std::time::Duration;

use dnp3::app::control::*;
use dnp3::app::measurement::*;
use dnp3::app::{RetryStrategy, Timeout};
use dnp3::master::*;
use dnp3::outstation::database::*;

use crate::explore::{Check, Hasher, RunResult, Scenario, Violation};
use crate::msim::{MCb, Val};
use crate::osim::OCfg;
use crate::psim::Pair;

#[derive(Copy, Clone, Debug, PartialEq, Eq, PartialOrd, Ord)]
enum Pt {
    Binary0,
    Binary1,
    Double0,
    BoStatus0,
    Counter0,
    Frozen0,
    Analog0,
    AoStatus0,
    Octets0,
}

const ALL_POINTS: [Pt; 9] = [Pt::Binary0, Pt::Binary1, Pt::Double0, Pt::BoStatus0, Pt::Counter0, Pt::Frozen0, Pt::Analog0, Pt::AoStatus0, Pt::Octets0];

impl Pt {
    fn kind(self) -> &'static str {
        match self {
            Pt::Binary0 | Pt::Binary1 => "binary",
            Pt::Double0 => "double",
            Pt::BoStatus0 => "bostatus",
            Pt::Counter0 => "counter",
            Pt::Frozen0 => "frozencounter",
            Pt::Analog0 => "analog",
            Pt::AoStatus0 => "aostatus",
            Pt::Octets0 => "octets",
        }
    }
    fn index(self) -> u16 {
        if self == Pt::Binary1 {
            1
        } else {
            0
        }
    }
    fn class(self) -> EventClass {
        match self {
            Pt::Binary0 | Pt::Double0 | Pt::Analog0 => EventClass::Class1,
            Pt::Binary1 | Pt::BoStatus0 | Pt::AoStatus0 => EventClass::Class2,
            _ => EventClass::Class3,
        }
    }
    fn state_mask(self) -> u8 {
        match self {
            Pt::Binary0 | Pt::Binary1 | Pt::BoStatus0 => 0x80,
            Pt::Double0 => 0xC0,
            _ => 0,
        }
    }
    /// the k-th entry (k >= 1) of the point's update script: (numeric value, bytes, flags, time)
    fn script(self, k: u64) -> (f64, Vec<u8>, u8, u64) {
        // the binary output status point is configured with the packed static variation g10v1 and
        // leaves plain ONLINE with its very first update (the static answer must be promoted)
        let flags = if (self == Pt::BoStatus0 && k % 2 == 1) || k % 3 == 0 { 0x05 } else { 0x01 };
        // binary and double-bit events are reported with relative times (g2v3 / g4v3): their
        // time stamps run *backwards* from update to update (a device clock that was set back),
        // and a later-updated point can carry an earlier time than the one before it
        let time = match self {
            Pt::Binary0 | Pt::Binary1 | Pt::Double0 => 10_000 * (self as u64 + 1) + 5_000 - k * 10,
            _ => 10_000 * (self as u64 + 1) + k * 10,
        };
        let v = match self {
            Pt::Binary0 | Pt::Binary1 | Pt::BoStatus0 => (k % 2) as f64,
            Pt::Double0 => (1 + k % 2) as f64,
            Pt::Counter0 | Pt::Frozen0 => (100 + k) as f64,
            // every third value of the analog input lies below, every third above what its 32-bit
            // integer variations (g30v1 / g32v3) can carry: reported saturated with OVER_RANGE
            Pt::Analog0 if k % 3 == 2 => -3.0e9 - k as f64,
            Pt::Analog0 if k % 3 == 0 => 3.0e9 + k as f64,
            Pt::Analog0 | Pt::AoStatus0 => (1000 + 7 * k) as f64,
            Pt::Octets0 => f64::NAN,
        };
        let bytes = if self == Pt::Octets0 { vec![0x40 + k as u8; 1 + (k % 3) as usize] } else { vec![] };
        (v, bytes, if self == Pt::Octets0 { 0 } else { flags }, time)
    }
}

fn add_points(db: &mut Database) {
    db.add(0, Some(Pt::Binary0.class()), BinaryInputConfig::new(StaticBinaryInputVariation::Group1Var2, EventBinaryInputVariation::Group2Var3));
    db.add(1, Some(Pt::Binary1.class()), BinaryInputConfig::new(StaticBinaryInputVariation::Group1Var1, EventBinaryInputVariation::Group2Var3));
    db.add(0, Some(Pt::Double0.class()), DoubleBitBinaryInputConfig::new(StaticDoubleBitBinaryInputVariation::Group3Var2, EventDoubleBitBinaryInputVariation::Group4Var3));
    db.add(0, Some(Pt::BoStatus0.class()), BinaryOutputStatusConfig::new(StaticBinaryOutputStatusVariation::Group10Var1, EventBinaryOutputStatusVariation::Group11Var2));
    db.add(0, Some(Pt::Counter0.class()), CounterConfig::new(StaticCounterVariation::Group20Var1, EventCounterVariation::Group22Var5, 0));
    db.add(0, Some(Pt::Frozen0.class()), FrozenCounterConfig::new(StaticFrozenCounterVariation::Group21Var1, EventFrozenCounterVariation::Group23Var5, 0));
    db.add(0, Some(Pt::Analog0.class()), AnalogInputConfig::new(StaticAnalogInputVariation::Group30Var1, EventAnalogInputVariation::Group32Var3, 0.0));
    db.add(0, Some(Pt::AoStatus0.class()), AnalogOutputStatusConfig::new(StaticAnalogOutputStatusVariation::Group40Var1, EventAnalogOutputStatusVariation::Group42Var3, 0.0));
    db.add(0, Some(Pt::Octets0.class()), OctetStringConfig);
}

fn update(db: &mut Database, pt: Pt, k: u64) -> UpdateInfo {
    update_with(db, pt, k, UpdateOptions::detect_event())
}

fn update_with(db: &mut Database, pt: Pt, k: u64, opt: UpdateOptions) -> UpdateInfo {
    let (v, bytes, flags, time) = pt.script(k);
    let fl = Flags::new(flags);
    let t = super::common::ts(time);
    match pt {
        Pt::Binary0 | Pt::Binary1 => db.update2(pt.index(), &BinaryInput::new(v != 0.0, fl, t), opt),
        Pt::Double0 => db.update2(0, &DoubleBitBinaryInput::new(if v == 1.0 { DoubleBit::DeterminedOff } else { DoubleBit::DeterminedOn }, fl, t), opt),
        Pt::BoStatus0 => db.update2(0, &BinaryOutputStatus::new(v != 0.0, fl, t), opt),
        Pt::Counter0 => db.update2(0, &Counter::new(v as u32, fl, t), opt),
        Pt::Frozen0 => db.update2(0, &FrozenCounter::new(v as u32, fl, t), opt),
        Pt::Analog0 => db.update2(0, &AnalogInput::new(v, fl, t), opt),
        Pt::AoStatus0 => db.update2(0, &AnalogOutputStatus::new(v, fl, t), opt),
        Pt::Octets0 => db.update2(0, &OctetString::new(&bytes).unwrap(), opt),
    }
}

#[derive(Copy, Clone, Debug, PartialEq)]
enum Dev {
    /// the default schedule: forward everything held, else advance to the next timer
    Default,
    Upd(Pt),
    /// the next script entry applied with `EventMode::Force` (an event whatever the value)
    Force(Pt),
    Cut,
    M2oFirstByte,
    O2mFirstByte,
    O2mSplit(usize),
    Operate,
    /// nothing is forwarded while the clock advances to the next timer (network stall)
    Stall,
    /// a burst of updates: binary 0 once, then binary 1 until its type overflows (discarding
    /// binary 0's only event), then analog and counter events to one below capacity -- enough for a
    /// multi-fragment event response whose overflow indication is gone by the last fragment
    Burst,
    /// every event type is filled exactly to its configured limit (no discard): the buffer must
    /// hold the sum of the per-type limits
    BurstAll,
    /// the connection dies on the master's side only; the outstation's session is replaced by
    /// the next connection (half-open TCP connection)
    HalfOpen,
}

#[derive(Copy, Clone, Debug)]
struct Corner {
    unsol: bool,
    small: bool,
    events: u16,
    close: bool,
    /// a periodic class 1/2/3 poll every 5 s; without it the mirror depends on unsolicited
    /// reporting (and on the integrity polls the master schedules itself)
    poll: bool,
    /// additional analog inputs 1..=extra (g30v1, no event class, never updated): the integrity
    /// response needs several fragments and a fragment runs full in the middle of a run of points
    extra: u16,
    /// no poll, no unsolicited reporting: the master learns of events only through the
    /// indications of the responses it receives (event scan on events available); the driver
    /// issues one command when the updates have stopped
    scan_only: bool,
}

pub struct C02 {
    corner: Corner,
    slots: usize,
    max_dev: usize,
    alphabet: Vec<Dev>,
}

impl C02 {
    fn default_slot(pair: &mut Pair) {
        if !pair.connected {
            pair.connect();
            return;
        }
        if !pair.held_m2o.is_empty() || !pair.held_o2m.is_empty() {
            pair.forward(false, None);
            pair.forward(true, None);
        } else {
            let woke = pair.k.tick(Duration::from_secs(30));
            let _ = woke;
            pair.pump();
        }
    }
}

impl Scenario for C02 {
    fn name(&self) -> String {
        format!(
            "unsol{}{}{}-{}-events{}-{}-slots{}-dev{}",
            self.corner.unsol as u8,
            if self.corner.poll { "" } else { "-nopoll" },
            if self.corner.extra > 0 { format!("-extra{}", self.corner.extra) } else if self.corner.scan_only { "-scanonly".to_string() } else { String::new() },
            if self.corner.small { "249" } else { "2048" },
            self.corner.events,
            if self.corner.close { "close" } else { "discard" },
            self.slots,
            self.max_dev
        )
    }
    fn alphabet(&self) -> Vec<String> {
        self.alphabet.iter().map(|e| format!("{e:?}")).collect()
    }
    fn depth(&self) -> usize {
        self.slots
    }
    fn enabled(&self, prefix: &[usize], next: usize) -> bool {
        if next == 0 {
            return true;
        }
        prefix.iter().filter(|i| **i != 0).count() < self.max_dev
    }

    fn run(&self, path: &[usize], transcript: bool) -> RunResult {
        let mut res = RunResult::default();
        let mut obs = Hasher::default();
        let c = self.corner;
        let size = if c.small { 249 } else { 2048 };
        let ocfg = OCfg {
            unsolicited: c.unsol,
            sol_tx: size,
            unsol_tx: size,
            event_buf: [c.events; 8],
            confirm_timeout_ms: 2000,
            unsol_retry_delay_ms: 2000,
            max_unsol_retries: Some(1),
            close_on_error: c.close,
            keep_alive_ms: None,
            class_zero_octet_strings: true,
            decode_all: false,
            ..Default::default()
        };
        let mut pair = Pair::new(&ocfg, size, c.close, 1000, 1);
        pair.manual = true;
        pair.ohandle.transaction(add_points);
        if c.extra > 0 {
            pair.ohandle.transaction(|db| {
                for i in 1..=c.extra {
                    db.add(i, None, AnalogInputConfig::new(StaticAnalogInputVariation::Group30Var1, EventAnalogInputVariation::Group32Var3, 0.0));
                }
            });
        }
        let mut cfg = AssociationConfig::default();
        cfg.response_timeout = Timeout::from_duration(Duration::from_millis(2000)).unwrap();
        cfg.auto_tasks_retry_strategy = RetryStrategy::new(Duration::from_secs(1), Duration::from_secs(4));
        cfg.keep_alive_timeout = None;
        if c.scan_only {
            cfg.event_scan_on_events_available = EventClasses::all();
        }
        let Some(mut assoc) = pair.add_association(cfg) else {
            res.violation = Some(Violation::new("C02.P0", "setup", "add_association".to_string()));
            return res;
        };
        if c.poll {
            let mut a2 = assoc.clone();
            pair.call_now("add_poll", async move { a2.add_poll(ReadRequest::class_scan(Classes::class123()), Duration::from_secs(5)).await.is_ok() });
        }
        pair.pump();

        let mut applied: BTreeMap<Pt, u64> = BTreeMap::new();
        // events the database reported: (pt, script index) -> discarded?
        let mut created: Vec<(Pt, u64, u64)> = Vec::new(); // pt, k, event id
        let mut discarded: Vec<u64> = Vec::new();
        let mut operate_n = 0u32;
        let mut deviations = 0usize;

        for &i in path {
            let d = self.alphabet[i];
            obs.add_str(&format!("{d:?}"));
            match d {
                Dev::Default => Self::default_slot(&mut pair),
                Dev::Upd(pt) | Dev::Force(pt) => {
                    deviations += 1;
                    let k = applied.get(&pt).copied().unwrap_or(0) + 1;
                    applied.insert(pt, k);
                    let opt = if matches!(d, Dev::Force(_)) { UpdateOptions::new(true, EventMode::Force) } else { UpdateOptions::detect_event() };
                    let info = pair.ohandle.transaction(|db| update_with(db, pt, k, opt));
                    match info {
                        UpdateInfo::Created(id) => created.push((pt, k, id)),
                        UpdateInfo::Overflow { created: id, discarded: dd } => {
                            created.push((pt, k, id));
                            discarded.push(dd);
                        }
                        _ => {}
                    }
                    pair.pump();
                }
                Dev::Burst => {
                    deviations += 1;
                    let n = self.corner.events as usize;
                    let mut plan: Vec<Pt> = vec![Pt::Binary0];
                    plan.extend(std::iter::repeat(Pt::Binary1).take(n + 1));
                    // the other types stay one below capacity: once the binary events are confirmed
                    // no type is full any more and the overflow indication disappears
                    plan.extend(std::iter::repeat(Pt::Analog0).take(n - 1));
                    plan.extend(std::iter::repeat(Pt::Counter0).take(n - 1));
                    for pt in plan {
                        let k = applied.get(&pt).copied().unwrap_or(0) + 1;
                        applied.insert(pt, k);
                        match pair.ohandle.transaction(|db| update(db, pt, k)) {
                            UpdateInfo::Created(id) => created.push((pt, k, id)),
                            UpdateInfo::Overflow { created: id, discarded: dd } => {
                                created.push((pt, k, id));
                                discarded.push(dd);
                            }
                            _ => {}
                        }
                    }
                    pair.pump();
                }
                Dev::BurstAll => {
                    deviations += 1;
                    let n = self.corner.events as usize;
                    for pt in [Pt::Binary0, Pt::Double0, Pt::BoStatus0, Pt::Counter0, Pt::Frozen0, Pt::Analog0, Pt::AoStatus0, Pt::Octets0] {
                        // leave room for what the type already holds: fill to the limit, never beyond
                        for _ in 0..n {
                            let held = created.iter().filter(|(p, _, id)| p.kind() == pt.kind() && !discarded.contains(id)).count();
                            let _ = held;
                            let k = applied.get(&pt).copied().unwrap_or(0) + 1;
                            applied.insert(pt, k);
                            match pair.ohandle.transaction(|db| update(db, pt, k)) {
                                UpdateInfo::Created(id) => created.push((pt, k, id)),
                                UpdateInfo::Overflow { created: id, discarded: dd } => {
                                    created.push((pt, k, id));
                                    discarded.push(dd);
                                }
                                _ => {}
                            }
                        }
                    }
                    pair.pump();
                }
                Dev::Cut => {
                    deviations += 1;
                    pair.cut();
                }
                Dev::HalfOpen => {
                    deviations += 1;
                    pair.half_open();
                }
                Dev::M2oFirstByte => {
                    deviations += 1;
                    pair.forward(false, Some(1));
                }
                Dev::O2mFirstByte => {
                    deviations += 1;
                    pair.forward(true, Some(1));
                }
                Dev::O2mSplit(n) => {
                    deviations += 1;
                    pair.forward(true, Some(n));
                }
                Dev::Stall => {
                    deviations += 1;
                    let woke = pair.k.tick(Duration::from_secs(30));
                    let _ = woke;
                    pair.pump();
                }
                Dev::Operate => {
                    deviations += 1;
                    operate_n += 1;
                    let mut a2 = assoc.clone();
                    let cmd = Group12Var1::new(ControlCode::from_op_type(OpType::LatchOn), 1, operate_n, 0);
                    pair.call("operate", async move { a2.operate(CommandMode::DirectOperate, CommandBuilder::single_header_u8(cmd, 3)).await });
                    pair.pump();
                }
            }
            res.transitions += 1;
            if pair.failure().is_some() {
                break;
            }
        }
        if c.scan_only {
            // the updates have stopped: one command, whose response shows what is waiting
            for _ in 0..40 {
                Self::default_slot(&mut pair);
            }
            operate_n += 1;
            let mut a2 = assoc.clone();
            let cmd = Group12Var1::new(ControlCode::from_op_type(OpType::LatchOn), 1, operate_n, 0);
            pair.call("operate", async move { a2.operate(CommandMode::DirectOperate, CommandBuilder::single_header_u8(cmd, 3)).await });
            pair.pump();
        }
        // horizon: the default schedule with an ideal network for 120 virtual seconds
        let end = pair.k.now_ms() + 120_000;
        let mut guard = 0;
        while pair.k.now_ms() < end && guard < 3000 && pair.failure().is_none() {
            Self::default_slot(&mut pair);
            guard += 1;
        }
        let _ = &mut assoc;
        if let Some(f) = pair.failure() {
            res.violation = Some(Violation::new("C02.X0", f.clone(), f));
            res.obs = obs.0;
            return res;
        }

        // what the handler received, in order
        let (cbs, cb_ords) = pair.take_mcb_ordered();
        let received: Vec<&Val> = cbs.iter().filter_map(|c| if let MCb::Value(v) = c { Some(v) } else { None }).collect();
        let received_ords: Vec<u64> = cbs.iter().zip(cb_ords.iter()).filter_map(|(c, o)| if let MCb::Value(_) = c { Some(*o) } else { None }).collect();
        // when the outstation released each event (observation order is global)
        let (ocbs, oords) = pair.take_ocb_ordered();
        let mut released_at: BTreeMap<u64, u64> = BTreeMap::new();
        for (c, o) in ocbs.iter().zip(oords.iter()) {
            if let crate::osim::Cb::EventCleared(id) = c {
                released_at.entry(*id).or_insert(*o);
            }
        }
        for v in &received {
            obs.add_str(&format!("{}{}{}{}", v.kind, v.index, v.value, v.flags));
        }
        if transcript {
            res.transcript.push(format!("updates applied: {applied:?}; events created {} discarded {discarded:?}; deviations {deviations}", created.len()));
            res.transcript.push(format!("handler received {} values; master session log {:?}", received.len(), pair.mlog.lock().unwrap().clone()));
            for (t, w) in pair.m_written.iter().take(60) {
                res.transcript.push(format!("  master wrote t={t} {}", crate::wire::app::hex(&w[..w.len().min(36)])));
            }
            for (t, w) in pair.o_written.iter().take(60) {
                res.transcript.push(format!("  outstation wrote t={t} {}", crate::wire::app::hex(&w[..w.len().min(36)])));
            }
        }
        // (2) nothing fabricated, cross-wired or resurrected
        let mut last_k: BTreeMap<Pt, u64> = BTreeMap::new();
        let mut mirror: BTreeMap<Pt, &Val> = BTreeMap::new();
        let mut seen: Vec<(Pt, u64)> = Vec::new();
        let mut n_received = 0usize;
        let mut extras_seen: std::collections::BTreeSet<u16> = Default::default();
        for v in &received {
            if v.kind == "analog" && v.index >= 1 && v.index <= c.extra {
                // never updated: only the initial value may ever be reported
                if v.value != 0.0 || v.flags != 0x02 {
                    res.violation = Some(Violation::new("C02.F2", "value-that-the-point-never-had:analog-extra", format!("{v:?}")));
                    res.obs = obs.0;
                    return res;
                }
                extras_seen.insert(v.index);
                n_received += 1;
                continue;
            }
            let Some(pt) = ALL_POINTS.iter().copied().find(|p| p.kind() == v.kind && p.index() == v.index) else {
                res.violation = Some(Violation::new("C02.F1", "value-for-point-that-does-not-exist", format!("{v:?}")));
                res.obs = obs.0;
                return res;
            };
            let n = applied.get(&pt).copied().unwrap_or(0);
            let sm = pt.state_mask();
            let mut matched: Option<u64> = None;
            // initial value (never updated): zero / restart flag
            if (pt != Pt::Octets0 && (v.flags & !sm) == 0x02) || (pt == Pt::Octets0 && v.bytes == vec![0u8]) {
                matched = Some(0);
            }
            for k in 1..=n {
                let (sv, sb, sf, st) = pt.script(k);
                // what the configured 32-bit integer variations carry of an out-of-range analog value
                let (sv, sf) = if pt == Pt::Analog0 && sv > i32::MAX as f64 {
                    (i32::MAX as f64, sf | 0x20)
                } else if pt == Pt::Analog0 && sv < i32::MIN as f64 {
                    (i32::MIN as f64, sf | 0x20)
                } else {
                    (sv, sf)
                };
                let val_ok = if pt == Pt::Octets0 { v.bytes == sb } else { v.value == sv };
                let flags_ok = pt == Pt::Octets0 || (v.flags & !sm) == (sf & !sm);
                let time_ok = match v.time {
                    Some((t, _)) => t == st || t == 0,
                    None => true,
                };
                if val_ok && flags_ok && time_ok {
                    matched = Some(k);
                }
            }
            let Some(k) = matched else {
                res.violation = Some(Violation::new(
                    "C02.F2",
                    format!("value-that-the-point-never-had:{}", pt.kind()),
                    format!("{v:?}; {n} updates applied to {pt:?}"),
                ));
                res.obs = obs.0;
                return res;
            };
            // an event that the outstation has released (its confirmation arrived) is not delivered
            // again; re-delivery of events that were never confirmed is legitimate
            if v.time.is_some() && k >= 1 {
                if let Some((_, _, id)) = created.iter().find(|(p, kk, _)| *p == pt && *kk == k) {
                    if let Some(rel) = released_at.get(id) {
                        if received_ords[n_received] > *rel {
                            res.violation = Some(Violation::new(
                                "C02.F3",
                                format!("event-delivered-again-after-it-was-released:{}", pt.kind()),
                                format!("{pt:?} script entry {k} (event id {id})"),
                            ));
                            res.obs = obs.0;
                            return res;
                        }
                    }
                }
            }
            n_received += 1;
            last_k.insert(pt, k);
            mirror.insert(pt, v);
            seen.push((pt, k));
        }
        // (1) convergence: the last value received equals the current database value
        for pt in ALL_POINTS {
            let n = applied.get(&pt).copied().unwrap_or(0);
            let got = last_k.get(&pt).copied();
            if got != Some(n) {
                res.violation = Some(Violation::new(
                    "C02.C1",
                    format!("mirror-did-not-converge:{}", pt.kind()),
                    format!("{pt:?}: database holds script entry {n}, the handler's last value is entry {got:?} after 120 s of ideal network ({} values received)", received.len()),
                ));
                res.obs = obs.0;
                return res;
            }
        }
        for i in 1..=c.extra {
            if !extras_seen.contains(&i) {
                res.violation = Some(Violation::new(
                    "C02.C1",
                    "mirror-did-not-converge:analog-extra",
                    format!("analog input {i} of the large database was never delivered to the handler ({} values received)", received.len()),
                ));
                res.obs = obs.0;
                return res;
            }
        }
        // (3) every event not reported discarded reached the handler
        for (pt, k, id) in &created {
            if discarded.contains(id) {
                continue;
            }
            if !seen.contains(&(*pt, *k)) {
                res.violation = Some(Violation::new(
                    "C02.E1",
                    format!("event-never-reached-the-handler:{}", pt.kind()),
                    format!("{pt:?} script entry {k} (event id {id}) was recorded, not reported discarded, and never delivered"),
                ));
                res.obs = obs.0;
                return res;
            }
        }
        let mut h = Hasher::default();
        h.add_u64(deviations as u64);
        h.add_u64(created.len() as u64 * 8 + discarded.len() as u64);
        h.add_u64(pair.mlog.lock().unwrap().len().min(12) as u64);
        res.model_states.push(h.0);
        res.obs = obs.0;
        res.nontrivial = deviations > 0 && !received.is_empty();
        res
    }
}

fn alphabet(tier: &str) -> Vec<Dev> {
    let mut v = vec![Dev::Default, Dev::Upd(Pt::Binary0), Dev::Upd(Pt::Analog0), Dev::Cut, Dev::HalfOpen, Dev::O2mFirstByte, Dev::Stall, Dev::Upd(Pt::Counter0), Dev::Upd(Pt::Octets0), Dev::M2oFirstByte, Dev::O2mSplit(10), Dev::Operate, Dev::Upd(Pt::BoStatus0)];
    if tier != "quick" {
        v.extend([Dev::Upd(Pt::Binary1), Dev::Upd(Pt::Double0), Dev::Upd(Pt::Frozen0), Dev::Upd(Pt::AoStatus0), Dev::O2mSplit(11), Dev::O2mSplit(292)]);
    }
    v
}

fn scenarios(tier: &str) -> Vec<C02> {
    let corners_quick = [
        // unsolicited reporting only (no periodic poll)
        Corner { unsol: true, small: true, events: 2, close: true, poll: false, extra: 0, scan_only: false },
        Corner { unsol: false, small: false, events: 10, close: true, poll: true, extra: 0, scan_only: false },
        Corner { unsol: true, small: false, events: 10, close: false, poll: true, extra: 0, scan_only: false },
        Corner { unsol: false, small: true, events: 2, close: false, poll: true, extra: 0, scan_only: false },
    ];
    // bursts that overflow a type and need several fragments to report
    let burst_corner = Corner { unsol: false, small: true, events: 10, close: true, poll: true, extra: 0, scan_only: false };
    let burst_alphabet = vec![Dev::Default, Dev::Burst, Dev::Stall, Dev::Cut, Dev::Upd(Pt::Binary0), Dev::O2mFirstByte, Dev::BurstAll];
    // a database whose integrity response needs several fragments
    let big_corner = Corner { unsol: false, small: true, events: 10, close: true, poll: true, extra: 120, scan_only: false };
    let big_alphabet = vec![Dev::Default, Dev::Upd(Pt::Analog0), Dev::Cut, Dev::Stall, Dev::O2mFirstByte, Dev::Upd(Pt::Binary0)];
    // events learnt of only through response indications (event scan on events available)
    let scan_corner = Corner { unsol: false, small: false, events: 10, close: true, poll: false, extra: 0, scan_only: true };
    let scan_alphabet = vec![Dev::Default, Dev::Upd(Pt::Binary0), Dev::Upd(Pt::Analog0), Dev::Upd(Pt::Counter0), Dev::Operate, Dev::Stall, Dev::Cut];
    // forced events between detected ones, reported by unsolicited responses only
    let force_alphabet = vec![Dev::Default, Dev::Upd(Pt::Binary0), Dev::Force(Pt::Binary0), Dev::Stall];
    let mut v = Vec::new();
    if tier == "quick" {
        for c in corners_quick {
            v.push(C02 { corner: c, slots: 12, max_dev: 2, alphabet: alphabet(tier) });
        }
        v.push(C02 { corner: corners_quick[0], slots: 8, max_dev: 3, alphabet: alphabet(tier) });
        v.push(C02 { corner: burst_corner, slots: 10, max_dev: 2, alphabet: burst_alphabet });
        v.push(C02 { corner: big_corner, slots: 8, max_dev: 2, alphabet: big_alphabet });
        v.push(C02 { corner: scan_corner, slots: 8, max_dev: 2, alphabet: scan_alphabet });
        v.push(C02 { corner: corners_quick[0], slots: 8, max_dev: 4, alphabet: force_alphabet });
    } else {
        for unsol in [false, true] {
            for small in [false, true] {
                for events in [2u16, 10] {
                    for close in [false, true] {
                        let c = Corner { unsol, small, events, close, poll: !unsol || close, extra: 0, scan_only: false };
                        v.push(C02 { corner: c, slots: 12, max_dev: 2, alphabet: alphabet(tier) });
                    }
                }
            }
        }
        for c in corners_quick {
            v.push(C02 { corner: c, slots: 12, max_dev: 3, alphabet: alphabet("quick") });
        }
        v.push(C02 { corner: corners_quick[0], slots: 8, max_dev: 4, alphabet: alphabet("quick") });
        v.push(C02 { corner: burst_corner, slots: 12, max_dev: 3, alphabet: burst_alphabet.clone() });
        v.push(C02 { corner: Corner { unsol: true, ..burst_corner }, slots: 12, max_dev: 3, alphabet: burst_alphabet });
        v.push(C02 { corner: big_corner, slots: 12, max_dev: 3, alphabet: big_alphabet.clone() });
        v.push(C02 { corner: scan_corner, slots: 10, max_dev: 3, alphabet: scan_alphabet.clone() });
        v.push(C02 { corner: Corner { unsol: true, ..big_corner }, slots: 10, max_dev: 3, alphabet: big_alphabet });
        let mut fa = force_alphabet.clone();
        fa.extend([Dev::Force(Pt::Analog0), Dev::Upd(Pt::Analog0), Dev::Cut]);
        v.push(C02 { corner: corners_quick[0], slots: 10, max_dev: 5, alphabet: fa.clone() });
        v.push(C02 { corner: corners_quick[2], slots: 10, max_dev: 4, alphabet: fa });
    }
    v
}

pub fn replay(name: &str, path: &[usize]) -> Option<RunResult> {
    for tier in ["quick", "thorough"] {
        if let Some(s) = scenarios(tier).into_iter().find(|s| s.name() == name) {
            return Some(s.run(path, true));
        }
    }
    None
}

pub fn check(tier: &str) -> i32 {
    let mut c = Check::new("C02", tier);
    for s in scenarios(tier) {
        c.explore(&s);
    }
    c.finish(
        "model_checking",
        "paired simulation: real MasterTask (Session wrapper + copy of the TCP client's connect / run / wait-after-disconnect loop, default association: disable unsolicited, integrity poll, enable unsolicited, plus a class 1/2/3 poll every 5 s) and real OutstationTask inside the real ServerTask, through the production link and transport layers over two byte pipes on one virtual clock; nine points (all eight types, three classes). All schedules with at most 2 deviations in the first 12 schedule slots (3 in the first 8 on one corner; thorough: 3 in 12 on four corners, 4 in 8 on one) from the default schedule, deviations drawn from {update of a point with the next value of its script, cut the connection, stall the network until the next timer, forward only the first byte master->outstation / outstation->master, split the outstation's bytes at 10 (11, 292), user command}; 4 configuration corners quick, all 16 thorough (unsolicited on/off x 249 / 2048-byte buffers x 2 / 10 events per type x link error mode close / discard). After each history the default schedule runs for 120 virtual seconds with an ideal network; then: the handler's last value of every point is the database's current script entry, every value ever received is an entry of that point's script (never another point's, never an event again after the outstation released it), every event recorded and not reported discarded was delivered; non-trivial = at least one deviation and data received; distinct = distinct observation trace",
        &[
            "the thread schedule of a real multi-threaded TCP deployment is replaced by the single-threaded driver (argument of DESIGN 2.3); the free-running real-TCP cross-check C02-b is not built",
            "write back-pressure is not modelled",
        ],
        serde_json::json!({}),
    )
}
