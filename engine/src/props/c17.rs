//! C17 — master start-up and restart handling runs in order and gates unsolicited data.
//!
//! SM exploration of the real MasterTask with a virtual clock; oracle = start-up order machine
//! + back-off sequence (DESIGN §5 C17).

use std::time::Duration;

use dnp3::app::{RetryStrategy, Timeout, Variation};
use dnp3::master::*;

use super::common::ideal_reply;
use crate::explore::{CaseSpace, Check, Hasher, RunResult, Scenario, Violation};
use crate::msim::{MCb, MCfg, MSim, MTx, OUTSTATION_ADDR};
use crate::wire::app::{self, fc};

const RT: u64 = 1000;

#[derive(Copy, Clone, Debug, PartialEq, Eq)]
enum Ts {
    None,
    Lan,
    NonLan,
}

#[derive(Copy, Clone, Debug)]
struct Cfg {
    d: bool,
    i: bool,
    e: bool,
    ts: Ts,
    scan: bool,
    retry: (u64, u64),
    overflow_scan: bool,
}

impl Cfg {
    fn name(&self) -> String {
        format!(
            "d{}i{}e{}-{:?}-scan{}-retry{}-{}-ovf{}",
            self.d as u8, self.i as u8, self.e as u8, self.ts, self.scan as u8, self.retry.0, self.retry.1, self.overflow_scan as u8
        )
    }
    fn association(&self) -> AssociationConfig {
        let mut c = AssociationConfig::quiet();
        c.response_timeout = Timeout::from_duration(Duration::from_millis(RT)).unwrap();
        c.disable_unsol_classes = if self.d { EventClasses::all() } else { EventClasses::none() };
        c.startup_integrity_classes = if self.i { Classes::all() } else { Classes::none() };
        c.enable_unsol_classes = if self.e { EventClasses::all() } else { EventClasses::none() };
        c.auto_time_sync = match self.ts {
            Ts::None => None,
            Ts::Lan => Some(TimeSyncProcedure::Lan),
            Ts::NonLan => Some(TimeSyncProcedure::NonLan),
        };
        c.event_scan_on_events_available = if self.scan { EventClasses::new(true, false, false) } else { EventClasses::none() };
        c.auto_tasks_retry_strategy = RetryStrategy::new(Duration::from_millis(self.retry.0), Duration::from_millis(self.retry.1));
        c.auto_integrity_scan_on_buffer_overflow = self.overflow_scan;
        c
    }
}

#[derive(Copy, Clone, Debug, PartialEq, Eq)]
enum Kind {
    ClearRestart,
    Disable,
    Integrity,
    TimeSync1,
    TimeSync2,
    Enable,
    EventScan,
    Poll,
    Other,
}

fn classify(f: &[u8]) -> Kind {
    let objs = &f[2..];
    match f[1] {
        fc::WRITE => {
            if objs.first() == Some(&80) {
                Kind::ClearRestart
            } else if objs.first() == Some(&50) {
                Kind::TimeSync2
            } else {
                Kind::Other
            }
        }
        fc::DISABLE_UNSOLICITED => Kind::Disable,
        fc::ENABLE_UNSOLICITED => Kind::Enable,
        fc::RECORD_CURRENT_TIME | fc::DELAY_MEASURE => Kind::TimeSync1,
        fc::READ => {
            let hs = app::walk(objs, true).unwrap_or_default();
            if hs.iter().any(|h| h.group == 60 && h.var == 1) {
                Kind::Integrity
            } else if !hs.is_empty() && hs.iter().all(|h| h.group == 60) {
                Kind::EventScan
            } else {
                Kind::Poll
            }
        }
        _ => Kind::Other,
    }
}

#[derive(Copy, Clone, Debug, PartialEq, Eq)]
enum St {
    Idle,
    Pending,
    /// consecutive failures, earliest retry instant
    Failed(u32, u64),
}

impl St {
    fn demand(&mut self) {
        if *self == St::Idle {
            *self = St::Pending;
        }
    }
    fn pending(&self) -> bool {
        *self != St::Idle
    }
}

#[derive(Clone, Debug)]
struct Model {
    cfg: Cfg,
    clear: St,
    disable: St,
    integrity: St,
    time: St,
    enable: St,
    scan: St,
    events_c1: bool,
    integrity_done: bool,
    /// outstanding request: kind, sequence, raw request
    out: Option<(Kind, u8, Vec<u8>)>,
    time_step2_due: bool,
    startup_requests: usize,
}

impl Model {
    fn new(cfg: Cfg) -> Self {
        Self {
            cfg,
            clear: St::Idle,
            disable: St::Pending,
            integrity: St::Pending,
            time: St::Idle,
            enable: St::Pending,
            scan: St::Idle,
            events_c1: false,
            integrity_done: false,
            out: None,
            time_step2_due: false,
            startup_requests: 0,
        }
    }

    fn reconnect(&mut self) {
        let cfg = self.cfg;
        let n = self.startup_requests;
        *self = Model::new(cfg);
        self.startup_requests = n;
    }

    fn slot(&mut self, k: Kind) -> Option<&mut St> {
        match k {
            Kind::ClearRestart => Some(&mut self.clear),
            Kind::Disable => Some(&mut self.disable),
            Kind::Integrity => Some(&mut self.integrity),
            Kind::TimeSync1 | Kind::TimeSync2 => Some(&mut self.time),
            Kind::Enable => Some(&mut self.enable),
            Kind::EventScan => Some(&mut self.scan),
            _ => None,
        }
    }

    /// highest-priority pending automatic task and its state
    fn expected(&self) -> Option<(Kind, St)> {
        if self.time_step2_due {
            return Some((Kind::TimeSync2, St::Pending));
        }
        if self.clear.pending() {
            return Some((Kind::ClearRestart, self.clear));
        }
        if self.cfg.d && self.disable.pending() {
            return Some((Kind::Disable, self.disable));
        }
        if self.cfg.i && self.integrity.pending() {
            return Some((Kind::Integrity, self.integrity));
        }
        if self.cfg.ts != Ts::None && self.time.pending() {
            return Some((Kind::TimeSync1, self.time));
        }
        if self.cfg.e && self.enable.pending() {
            return Some((Kind::Enable, self.enable));
        }
        if self.cfg.scan && self.events_c1 && self.scan.pending() {
            return Some((Kind::EventScan, self.scan));
        }
        None
    }

    fn process_iin(&mut self, iin1: u8, iin2: u8) {
        if iin1 & app::iin1::RESTART != 0 && self.clear == St::Idle {
            self.clear = St::Pending;
            self.integrity.demand();
            self.enable.demand();
            self.integrity_done = false;
        }
        if iin1 & app::iin1::NEED_TIME != 0 {
            self.time.demand();
        }
        if iin2 & app::iin2::EVENT_BUFFER_OVERFLOW != 0 && self.cfg.overflow_scan {
            self.integrity.demand();
        }
        self.events_c1 = iin1 & app::iin1::CLASS_1_EVENTS != 0;
        if self.events_c1 && self.cfg.scan {
            self.scan.demand();
        }
    }

    fn delay(&self, n: u32) -> u64 {
        let (min, max) = self.cfg.retry;
        let mut d = min;
        for _ in 1..n {
            d = (d * 2).min(max);
        }
        d
    }

    fn fail(&mut self, k: Kind, now: u64) {
        let d1 = self.delay(1);
        let next = |s: &St, me: &Model| match s {
            St::Failed(n, _) => St::Failed(n + 1, now + me.delay(n + 1)),
            _ => St::Failed(1, now + d1),
        };
        let me = self.clone();
        if let Some(s) = self.slot(k) {
            *s = next(s, &me);
        }
        self.time_step2_due = false;
    }

    fn key(&self, now: u64) -> u64 {
        let mut h = Hasher::default();
        for s in [self.clear, self.disable, self.integrity, self.time, self.enable, self.scan] {
            h.add_u64(match s {
                St::Idle => 0,
                St::Pending => 1,
                St::Failed(n, at) => 2 + n.min(5) as u64 * 2 + (at > now) as u64,
            });
        }
        h.add_u64(self.integrity_done as u64 * 4 + self.events_c1 as u64 * 2 + self.time_step2_due as u64);
        h.add_u64(self.out.as_ref().map(|o| o.0 as u64 + 1).unwrap_or(0));
        h.0
    }
}

#[derive(Clone, Debug, PartialEq)]
enum Ev {
    /// reply to the outstanding request with extra IIN bits (iin1, iin2)
    Ideal(u8, u8),
    /// the same, but a READ is answered in two fragments and only the *first* (non-final) one
    /// carries the indications
    IdealSplit(u8, u8),
    Reject,
    Malformed,
    Silence,
    /// unsolicited: with data?, RESTART indication?
    Uns(bool, bool),
    /// the outstation sends its last unsolicited response again, byte for byte (it saw no confirm)
    UnsRetry,
    /// the user disables the channel and enables it again: a new session, like after a lost connection
    DisableEnable,
    /// DELAY_MEASURE (non-LAN time synchronisation) answered with one header that is not a single
    /// fine time delay (here: g52v1, the coarse delay): a failed attempt like any other
    WrongDelayObject,
    Reconnect,
    /// advance to the next timer
    Tick,
}

fn alphabet() -> Vec<Ev> {
    vec![
        Ev::Ideal(0, 0),
        Ev::Silence,
        Ev::Tick,
        Ev::Ideal(app::iin1::RESTART, 0),
        Ev::Ideal(app::iin1::NEED_TIME, 0),
        Ev::Reject,
        Ev::Uns(true, false),
        Ev::Uns(false, false),
        Ev::Reconnect,
        Ev::Ideal(0, app::iin2::EVENT_BUFFER_OVERFLOW),
        Ev::Ideal(app::iin1::CLASS_1_EVENTS, 0),
        Ev::Malformed,
        Ev::Uns(true, true),
        Ev::Uns(false, true),
        Ev::IdealSplit(app::iin1::RESTART, 0),
        Ev::IdealSplit(app::iin1::NEED_TIME, 0),
        Ev::IdealSplit(app::iin1::CLASS_1_EVENTS, app::iin2::EVENT_BUFFER_OVERFLOW),
        Ev::UnsRetry,
        Ev::DisableEnable,
        Ev::WrongDelayObject,
    ]
}

pub struct C17 {
    cfg: Cfg,
    depth: usize,
    alphabet: Vec<Ev>,
}

impl C17 {
    fn observe_requests(
        m: &mut Model,
        outs: &[MTx],
        now: u64,
        polls_before_startup: &mut Option<String>,
    ) -> Option<Violation> {
        for t in outs {
            let MTx::Frag { data, t: tw, .. } = t else { continue };
            if data.len() < 2 || data[1] == fc::CONFIRM {
                continue;
            }
            let k = classify(data);
            let exp = m.expected();
            match (exp, k) {
                (Some((ek, st)), k) if ek == k => {
                    if let St::Failed(n, at) = st {
                        if *tw < at {
                            return Some(Violation::new(
                                "C17.B1",
                                format!("retry-before-back-off-delay:{k:?}"),
                                format!("attempt after {n} failure(s) written at t={tw}, not allowed before t={at}"),
                            ));
                        }
                        if *tw > at && m.out.is_none() {
                            // nothing else was outstanding: the retry is due exactly at the deadline
                            // (events that arrive later than the deadline are the driver's own ticks)
                        }
                    }
                    m.startup_requests += 1;
                }
                (Some((ek, _)), k) => {
                    if matches!(k, Kind::Poll | Kind::Other) {
                        *polls_before_startup = Some(format!("{k:?} written at t={tw} while {ek:?} was pending"));
                    }
                    return Some(Violation::new(
                        "C17.O1",
                        format!("request-out-of-order:{k:?}-while-{ek:?}-pending"),
                        format!("request {} written at t={tw}; the start-up machine expects {ek:?}", app::hex(&data[..data.len().min(12)])),
                    ));
                }
                (None, Kind::Poll) | (None, Kind::Other) => {}
                (None, k) => {
                    return Some(Violation::new(
                        "C17.O2",
                        format!("automatic-task-without-reason:{k:?}"),
                        format!("request {} at t={tw} although nothing is pending", app::hex(&data[..data.len().min(12)])),
                    ));
                }
            }
            if k == Kind::TimeSync2 {
                m.time_step2_due = false;
            }
            m.out = Some((k, data[0] & 0x0F, data.clone()));
            let _ = now;
        }
        None
    }
}

impl Scenario for C17 {
    fn name(&self) -> String {
        format!("{}-d{}", self.cfg.name(), self.depth)
    }
    fn alphabet(&self) -> Vec<String> {
        self.alphabet.iter().map(|e| format!("{e:?}")).collect()
    }
    fn depth(&self) -> usize {
        self.depth
    }
    fn run(&self, path: &[usize], transcript: bool) -> RunResult {
        let mut res = RunResult::default();
        let mut obs = Hasher::default();
        let mut sim = MSim::new(&MCfg { reconnect_delay_ms: 500, ..Default::default() }, 1);
        let Some(mut assoc) = sim.add_association(OUTSTATION_ADDR, self.cfg.association()) else {
            res.violation = Some(Violation::new("C17.P0", "setup", "add_association".to_string()));
            return res;
        };
        // one periodic poll that is distinguishable from every automatic task
        sim.call_now("add_poll", async move { assoc.add_poll(ReadRequest::all_objects(Variation::Group30Var0), Duration::from_secs(7)).await.is_ok() });
        let mut m = Model::new(self.cfg);
        let mut useq = 0u8;
        let mut last_uns: Option<(Vec<u8>, bool, bool, u8)> = None;
        let mut nval = 0u8;
        let mut note = None;
        let first = sim.take_out();
        sim.take_cb();
        if let Some(v) = Self::observe_requests(&mut m, &first, 0, &mut note) {
            res.violation = Some(v);
            return res;
        }
        if transcript {
            for t in &first {
                if let Some(f) = t.frag() {
                    res.transcript.push(format!("t=0 (start) <- {}", app::hex(f)));
                }
            }
        }

        for &i in path {
            let ev = &self.alphabet[i];
            let t_before = sim.k.now_ms();
            let mut expect_delivery = 0usize;
            let mut expect_confirm: Vec<(bool, u8)> = Vec::new();
            let mut sent: Option<Vec<u8>> = None;
            match ev {
                Ev::Ideal(i1, i2) | Ev::IdealSplit(i1, i2) => {
                    if let Some((k, _seq, req)) = m.out.take() {
                        let mut r = ideal_reply(&req, *i1);
                        r[3] |= *i2;
                        let split = matches!(ev, Ev::IdealSplit(..)) && matches!(k, Kind::Integrity | Kind::EventScan | Kind::Poll);
                        // outcome
                        let restart = *i1 & app::iin1::RESTART != 0;
                        let need_time = *i1 & app::iin1::NEED_TIME != 0;
                        m.process_iin(*i1, *i2);
                        if split {
                            // the final fragment shows no indication at all
                            m.process_iin(0, 0);
                        }
                        match k {
                            Kind::ClearRestart => {
                                if restart {
                                    m.fail(k, t_before);
                                } else {
                                    m.clear = St::Idle;
                                }
                            }
                            Kind::Disable => m.disable = St::Idle,
                            Kind::Enable => m.enable = St::Idle,
                            Kind::Integrity => {
                                m.integrity = St::Idle;
                                m.integrity_done = true;
                                expect_delivery = 1;
                            }
                            Kind::EventScan => {
                                m.scan = St::Idle;
                                expect_delivery = 1;
                            }
                            Kind::Poll => expect_delivery = 1,
                            Kind::TimeSync1 => m.time_step2_due = true,
                            Kind::TimeSync2 => {
                                if need_time {
                                    m.fail(Kind::TimeSync1, t_before);
                                } else {
                                    m.time = St::Idle;
                                }
                            }
                            Kind::Other => {}
                        }
                        if split {
                            let seq = r[0] & 0x0F;
                            r[0] = app::ctrl(true, false, true, false, seq);
                            sim.respond(&r);
                            let last = app::response(app::ctrl(false, true, false, false, (seq + 1) & 0x0F), fc::RESPONSE, 0, 0, &[]);
                            sim.respond(&last);
                        } else {
                            sim.respond(&r);
                        }
                        sent = Some(r);
                    }
                }
                Ev::Reject | Ev::Malformed => {
                    if let Some((k, seq, req)) = m.out.take() {
                        let r = if *ev == Ev::Reject {
                            app::response(app::ctrl(true, true, false, false, seq), fc::RESPONSE, 0, app::iin2::NO_FUNC_CODE_SUPPORT, &[])
                        } else {
                            app::response(app::ctrl(true, true, false, false, seq), fc::RESPONSE, 0, 0, &[30, 1, 0x00, 0, 0, 1])
                        };
                        let _ = req;
                        // the library treats an IIN2 rejection of an automatic DISABLE / ENABLE /
                        // clear-restart request as an answer and moves on; the property only
                        // constrains the retries that do happen
                        let answered = *ev == Ev::Reject && matches!(k, Kind::Disable | Kind::Enable | Kind::ClearRestart);
                        if *ev == Ev::Malformed && matches!(k, Kind::Integrity | Kind::EventScan | Kind::Poll) {
                            // the indications of a READ reply are taken before its objects are parsed;
                            // this reply carries none, so no class has events available any more
                            m.process_iin(0, 0);
                        }
                        if answered {
                            if let Some(s) = m.slot(k) {
                                *s = St::Idle;
                            }
                        } else {
                            m.fail(if k == Kind::TimeSync2 { Kind::TimeSync1 } else { k }, t_before);
                        }
                        sim.respond(&r);
                        sent = Some(r);
                    }
                }
                Ev::Silence => {
                    if let Some((k, _, _)) = m.out.take() {
                        // the request times out one response timeout after it was written; the
                        // driver delivers events promptly, so that is t_before + RT at the latest
                        sim.advance(RT);
                        m.fail(if k == Kind::TimeSync2 { Kind::TimeSync1 } else { k }, sim.k.now_ms());
                    } else {
                        sim.advance(RT);
                    }
                }
                Ev::Tick => {
                    if m.out.is_none() {
                        let woke = sim.k.tick(Duration::from_secs(120));
                        let _ = woke;
                        sim.pump();
                    }
                }
                Ev::Uns(data, restart) => {
                    useq = (useq + 1) & 0x0F;
                    nval = nval.wrapping_add(1);
                    let objs = if *data {
                        let mut v = app::hdr_range8(30, 1, 0, 0);
                        v.push(1);
                        v.extend_from_slice(&(nval as i32).to_le_bytes());
                        v
                    } else {
                        vec![]
                    };
                    let i1 = if *restart { app::iin1::RESTART } else { 0 };
                    let r = app::response(app::ctrl(true, true, true, true, useq), fc::UNSOLICITED_RESPONSE, i1, 0, &objs);
                    // gating: data is neither delivered nor confirmed before the integrity poll
                    // completed; the indications are processed in any case
                    m.process_iin(i1, 0);
                    let accepted = !*data || !self.cfg.i || m.integrity_done;
                    if accepted {
                        expect_delivery = 1;
                        expect_confirm.push((true, useq));
                    }
                    last_uns = Some((r.clone(), accepted, *data, i1));
                    sim.respond(&r);
                    sent = Some(r);
                }
                Ev::UnsRetry => {
                    if let Some((r, was_accepted, data, i1)) = last_uns.clone() {
                        m.process_iin(i1, 0);
                        let seq = r[0] & 0x0F;
                        let gate_open = !data || !self.cfg.i || m.integrity_done;
                        if was_accepted && gate_open {
                            // a repetition of a fragment already taken: confirmed again, not delivered again
                            expect_confirm.push((true, seq));
                        } else if was_accepted {
                            // the gate has closed again (restart seen): data is neither delivered nor confirmed
                        } else if gate_open {
                            // ignored the first time (start-up gate), acceptable now: a first delivery
                            expect_delivery = 1;
                            expect_confirm.push((true, seq));
                            last_uns = Some((r.clone(), true, data, i1));
                        }
                        sim.respond(&r);
                        sent = Some(r);
                    }
                }
                Ev::Reconnect => {
                    sim.disconnect();
                    sim.advance(500);
                    sim.connect();
                    m.reconnect();
                    last_uns = None;
                }
                Ev::DisableEnable => {
                    let mut ch = sim.channel.clone();
                    sim.call_now("disable", async move { ch.disable().await });
                    sim.advance(500);
                    let mut ch = sim.channel.clone();
                    sim.call_now("enable", async move { ch.enable().await });
                    if sim.pipe.as_ref().map(|p| p.is_closed()).unwrap_or(true) {
                        sim.connect();
                    }
                    m.reconnect();
                    last_uns = None;
                }
                Ev::WrongDelayObject => {
                    let is_delay_measure = matches!(&m.out, Some((Kind::TimeSync1, _, req)) if req.len() >= 2 && req[1] == fc::DELAY_MEASURE);
                    if is_delay_measure {
                        if let Some((k, seq, _req)) = m.out.take() {
                            let r = app::response(app::ctrl(true, true, false, false, seq), fc::RESPONSE, 0x10, 0, &[52, 1, 0x07, 1, 1, 0]);
                            m.process_iin(0x10, 0);
                            m.fail(k, t_before);
                            sim.respond(&r);
                            sent = Some(r);
                        }
                    }
                }
            }
            res.transitions += 1;
            let now = sim.k.now_ms();
            let (cbs, _) = sim.take_cb();
            let outs = sim.take_out();
            obs.add_str(&format!("{ev:?}"));
            for t in &outs {
                if let Some(f) = t.frag() {
                    obs.add(f);
                }
            }
            for c in &cbs {
                if !matches!(c, MCb::Value(_) | MCb::Header { .. }) {
                    obs.add_str(&format!("{c:?}"));
                }
            }
            if transcript {
                res.transcript.push(format!("t={now} EVENT {ev:?}"));
                if let Some(f) = &sent {
                    res.transcript.push(format!("   -> {}", app::hex(f)));
                }
                for c in &cbs {
                    if !matches!(c, MCb::Value(_) | MCb::Header { .. }) {
                        res.transcript.push(format!("   cb {c:?}"));
                    }
                }
                for t in &outs {
                    if let MTx::Frag { t, data, .. } = t {
                        res.transcript.push(format!("   <- (t={t}) {}", app::hex(data)));
                    }
                }
            }
            if let Some(f) = sim.failure() {
                res.violation = Some(Violation::new("C17.X0", f.clone(), f));
                break;
            }
            // unsolicited gating and delivery
            let begins = cbs.iter().filter(|c| matches!(c, MCb::BeginFragment { .. })).count();
            let confirms: Vec<(bool, u8)> = outs
                .iter()
                .filter_map(|t| t.frag())
                .filter(|f| f.len() == 2 && f[1] == fc::CONFIRM)
                .map(|f| (f[0] & app::UNS != 0, f[0] & 0x0F))
                .collect();
            if matches!(ev, Ev::Uns(..) | Ev::UnsRetry) {
                if begins != expect_delivery || confirms != expect_confirm {
                    let key = if expect_delivery == 0 { "unsolicited-data-accepted-before-integrity-poll" } else { "acceptable-unsolicited-not-delivered-or-confirmed" };
                    res.violation = Some(Violation::new(
                        "C17.G1",
                        key,
                        format!("deliveries {begins} (expected {expect_delivery}), confirms {confirms:?} (expected {expect_confirm:?}), integrity done: {}", m.integrity_done),
                    ));
                    break;
                }
            }
            // requests written in this step follow the order machine
            if let Some(v) = Self::observe_requests(&mut m, &outs, now, &mut note) {
                res.violation = Some(v);
                break;
            }
            res.model_states.push(m.key(now));
        }
        // liveness: a failed automatic task is attempted again within the horizon
        if res.violation.is_none() && m.out.is_none() {
            if let Some((k, St::Failed(_, at))) = m.expected() {
                let now = sim.k.now_ms();
                if at > now {
                    sim.advance(at - now);
                } else {
                    sim.pump();
                }
                let outs = sim.take_out();
                let retried = outs.iter().filter_map(|t| t.frag()).any(|f| f.len() >= 2 && f[1] != fc::CONFIRM && classify(f) == k);
                if !retried {
                    res.violation = Some(Violation::new(
                        "C17.B2",
                        format!("failed-automatic-task-not-retried:{k:?}"),
                        format!("{k:?} failed, retry due at t={at}, nothing written by then"),
                    ));
                } else if let Some(v) = Self::observe_requests(&mut m, &outs, sim.k.now_ms(), &mut note) {
                    res.violation = Some(v);
                }
            }
        }
        res.obs = obs.0;
        res.nontrivial = m.startup_requests >= 2;
        res
    }
}

// ---------------------------------------------------------------------------------------
// back-off to its fix-point
// ---------------------------------------------------------------------------------------

struct BackOff;

const DELAYS: [u64; 4] = [1, 1000, 3000, 3_600_000];

impl CaseSpace for BackOff {
    fn name(&self) -> String {
        "back-off-to-fix-point".to_string()
    }
    fn total(&self) -> usize {
        DELAYS.len() * DELAYS.len()
    }
    fn run(&self, index: usize, transcript: bool) -> RunResult {
        let mut res = RunResult::default();
        let min = DELAYS[index % 4];
        let max = DELAYS[index / 4];
        res.obs = index as u64 + 171717;
        if min > max {
            return res;
        }
        let cfg = Cfg { d: true, i: false, e: false, ts: Ts::None, scan: false, retry: (min, max), overflow_scan: false };
        let mut sim = MSim::new(&MCfg::default(), 1);
        if sim.add_association(OUTSTATION_ADDR, cfg.association()).is_none() {
            res.violation = Some(Violation::new("C17.P0", "setup", "add_association".to_string()));
            return res;
        }
        let mut last_written: Option<u64> = None;
        let mut gaps: Vec<u64> = Vec::new();
        let mut at_max = 0;
        for _ in 0..80 {
            // the request is outstanding: let it time out, then wait for the retry
            let outs = sim.take_out();
            let t_req = outs.iter().find_map(|t| match t {
                MTx::Frag { t, data, .. } if data[1] == fc::DISABLE_UNSOLICITED => Some(*t),
                _ => None,
            });
            let Some(t_req) = t_req else {
                res.violation = Some(Violation::new("C17.B2", "failed-automatic-task-not-retried:Disable", format!("after gaps {gaps:?}")));
                return res;
            };
            if let Some(prev) = last_written {
                // gap between the failure (prev + RT) and this attempt
                gaps.push(t_req - (prev + RT));
            }
            last_written = Some(t_req);
            res.transitions += 1;
            if gaps.last() == Some(&max) {
                at_max += 1;
                if at_max >= 3 {
                    break;
                }
            }
            sim.advance(RT); // times out
            let now = sim.k.now_ms();
            let woke = sim.k.tick(Duration::from_millis(max + 10));
            let _ = (woke, now);
            sim.pump();
        }
        let mut expected = Vec::new();
        let mut d = min;
        for _ in 0..gaps.len() {
            expected.push(d);
            d = (d * 2).min(max);
        }
        if transcript {
            res.transcript.push(format!("min {min} max {max}: gaps {gaps:?}"));
        }
        if gaps != expected || at_max < 3 {
            res.violation = Some(Violation::new(
                "C17.B3",
                "back-off-sequence",
                format!("min {min} ms max {max} ms: observed gaps {gaps:?}, expected {expected:?}"),
            ));
        }
        res.model_states.push(gaps.len() as u64);
        res.nontrivial = true;
        res
    }
}

fn configs(tier: &str) -> Vec<Cfg> {
    let mut v = Vec::new();
    let base = |d, i, e, ts, scan, retry: (u64, u64)| Cfg { d, i, e, ts, scan, retry, overflow_scan: true };
    if tier == "quick" {
        v.push(base(true, true, true, Ts::None, false, (1000, 10_000)));
        v.push(base(true, true, true, Ts::Lan, true, (1000, 10_000)));
        v.push(base(true, true, true, Ts::NonLan, false, (3000, 10_000)));
        v.push(base(false, true, true, Ts::None, false, (1000, 1000)));
        v.push(base(true, false, true, Ts::None, true, (1000, 10_000)));
        v.push(base(true, true, false, Ts::Lan, false, (1000, 10_000)));
        v.push(base(false, false, false, Ts::None, false, (1000, 10_000)));
        v.push(base(false, true, false, Ts::NonLan, true, (1000, 1000)));
    } else {
        for d in [false, true] {
            for i in [false, true] {
                for e in [false, true] {
                    for ts in [Ts::None, Ts::Lan, Ts::NonLan] {
                        for scan in [false, true] {
                            for retry in [(1000u64, 10_000u64), (1000, 1000), (3000, 10_000)] {
                                if retry != (1000, 10_000) && (scan || ts == Ts::NonLan) {
                                    continue;
                                }
                                v.push(base(d, i, e, ts, scan, retry));
                            }
                        }
                    }
                }
            }
        }
    }
    v
}

fn scenarios(tier: &str) -> Vec<C17> {
    let depth = if tier == "quick" { 4 } else { 5 };
    // the four letters added last (split replies, unsolicited retry) run on the 8 quick
    // configurations; the other 52 thorough configurations keep the 14-letter alphabet
    let quick_cfgs = configs("quick");
    let mut v: Vec<C17> = configs(tier)
        .into_iter()
        .map(|cfg| {
            let full = tier == "quick" || quick_cfgs.iter().any(|q| format!("{q:?}") == format!("{cfg:?}"));
            C17 { cfg, depth, alphabet: if full { alphabet() } else { alphabet()[..14].to_vec() } }
        })
        .collect();
    if tier == "quick" {
        v.push(C17 { cfg: configs("quick")[1], depth: 5, alphabet: alphabet()[..9].to_vec() });
    } else {
        v.push(C17 { cfg: configs("quick")[1], depth: 6, alphabet: alphabet()[..9].to_vec() });
        v.push(C17 { cfg: configs("quick")[0], depth: 6, alphabet: alphabet()[..9].to_vec() });
    }
    v
}

pub fn replay(name: &str, path: &[usize]) -> Option<RunResult> {
    for tier in ["quick", "thorough"] {
        if let Some(s) = scenarios(tier).into_iter().find(|s| s.name() == name) {
            return Some(s.run(path, true));
        }
    }
    if BackOff.name() == name {
        return Some(BackOff.run(path[0], true));
    }
    None
}

pub fn check(tier: &str) -> i32 {
    let mut c = Check::new("C17", tier);
    for s in scenarios(tier) {
        c.explore(&s);
    }
    c.cases(&BackOff);
    c.finish(
        "model_checking",
        "for each association configuration (automatic disable / integrity / enable on or off x time synchronisation none / LAN / non-LAN x event scan x retry strategy; 8 quick, 60 thorough) every history up to depth 4 (5-6 thorough) over 18 events (14 on the 52 configurations only the thorough tier has: ideal reply, reply with RESTART / NEED_TIME / OVERFLOW / CLASS_1_EVENTS, IIN2 rejection, malformed reply, silence, unsolicited with / without data and with / without RESTART, reconnect, advance to the next timer; READ replies split in two fragments with the indications in the first only, a byte-identical repetition of the last unsolicited fragment) on the real MasterTask with one periodic poll configured; an order machine predicts the kind of every request written (clear restart > disable > integrity > time sync > enable > event scan > poll), retries are never earlier than the back-off deadline and happen by it, unsolicited data is neither delivered nor confirmed before the integrity poll completed; plus the back-off sequence of a permanently failing task followed to its fix-point for every (min, max) in {1 ms, 1 s, 3 s, 1 h}^2; non-trivial = at least two start-up requests were observed; distinct = distinct observation trace",
        &[
            "response timeout 1 s; the driver delivers replies promptly",
            "replies that are rejected or malformed carry no indications, so whether indications of unaccepted replies are processed is not constrained",
        ],
        serde_json::json!({}),
    )
}
