//! C12 — outstation replies are well-formed, correlated, bounded, and report rejections.
//!
//! IN + SM: every function code × every header-flag combination × an object menu per function
//! (accepted / rejected / unparsable headers, singly and in ordered pairs), arriving in three
//! session states; the oracle pairs each request with the fragments transmitted afterwards.

use dnp3::outstation::database::*;

use super::common::{self, collect};
use crate::explore::{CaseSpace, Check, Hasher, RunResult, Violation};
use crate::osim::{OCfg, OSim};
use crate::wire::app::{self, fc};

#[derive(Copy, Clone, Debug, PartialEq, Eq)]
enum State {
    Idle,
    SolConfirmWait,
    /// waiting for the confirm of the first fragment of a two-fragment series
    SolConfirmWaitMid,
    UnsolConfirmWait,
    /// waiting for the confirm of the null unsolicited response
    NullUnsolConfirmWait,
}

#[derive(Copy, Clone, Debug, PartialEq, Eq)]
enum Class {
    Accept,
    Reject,
    Unparsable,
}

#[derive(Clone, Debug)]
struct Hdr {
    bytes: Vec<u8>,
    class: Class,
    label: &'static str,
}

fn h(label: &'static str, class: Class, bytes: Vec<u8>) -> Hdr {
    Hdr { bytes, class, label }
}

#[derive(Copy, Clone, Debug, PartialEq, Eq)]
enum Expect {
    /// must be answered, and the answer carries IIN2.0, 2.1 or 2.2
    MustError,
    /// must not be answered
    NoReply,
    /// must be answered (first fragment carries the request's sequence number)
    Reply,
    /// not constrained beyond general well-formedness
    Either,
}

#[derive(Clone, Debug)]
struct Case {
    state: State,
    tx: usize,
    /// unsolicited transmit size
    utx: usize,
    /// configured limit of object headers in a READ (None = library default of 64)
    max_read_headers: Option<u16>,
    /// configured limit of controls per request
    max_controls: Option<u16>,
    /// the control handler answers NOT_SUPPORTED for this index
    refuse: Option<u16>,
    ctrl: u8,
    func: u8,
    objects: Vec<u8>,
    labels: Vec<&'static str>,
    expect: Expect,
}

fn crob() -> Vec<u8> {
    app::prefixed8(12, 1, &[(3, app::crob(0x03, 1, 100, 200, 0))])
}

fn supported(func: u8) -> bool {
    matches!(func, 1..=14 | 20 | 21 | 23 | 24)
}

fn no_response_function(func: u8) -> bool {
    matches!(func, 6 | 8 | 10 | 12)
}

/// the object menu of a function code: headers with the reference classification
fn menu(func: u8) -> Vec<Hdr> {
    use Class::*;
    let unknown = h("unknown-g99v1", Unparsable, vec![99, 1, 0x06]);
    let truncated = h("truncated-g12v1", Unparsable, vec![12, 1, 0x17, 1, 3, 3]);
    let bad_qual = h("bad-qualifier-0x33", Unparsable, vec![1, 2, 0x33, 0, 0]);
    let mut m = match func {
        fc::READ => vec![
            h("class0", Accept, app::hdr_all(60, 1)),
            h("class1", Accept, app::hdr_all(60, 2)),
            h("g1v0-all", Accept, app::hdr_all(1, 0)),
            h("g1v2-range", Accept, app::hdr_range8(1, 2, 0, 1)),
            h("g2v0-count1", Accept, app::hdr_count8(2, 0, 1)),
            h("g30v0-all", Accept, app::hdr_all(30, 0)),
            h("g50v1-count-in-read", Reject, app::hdr_count8(50, 1, 1)),
            h("g80v1-range-in-read", Reject, app::hdr_range8(80, 1, 0, 7)),
            h("g12v1-prefixed-in-read", Unparsable, crob()),
            h("g1v2-bad-range", Unparsable, app::hdr_range8(1, 2, 5, 4)),
        ],
        fc::WRITE => vec![
            h("clear-restart", Accept, app::write_restart_objects(false)),
            h("g50v1-time", Accept, app::g50v1_objects(1000)),
            h("g50v1-two-times", Reject, {
                let mut v = app::hdr_count8(50, 1, 2);
                v.extend_from_slice(&app::time48(1000));
                v.extend_from_slice(&app::time48(2000));
                v
            }),
            h("g34v3-deadband", Accept, app::prefixed8(34, 3, &[(1, 1.5f32.to_le_bytes().to_vec())])),
            h("g34v3-negative-deadband", Reject, app::prefixed8(34, 3, &[(1, (-1.0f32).to_le_bytes().to_vec())])),
            h("g34v3-nan-deadband", Reject, app::prefixed8(34, 3, &[(1, f32::NAN.to_le_bytes().to_vec())])),
            h("g34v1-deadband", Accept, app::prefixed8(34, 1, &[(1, vec![5, 0])])),
            h("set-restart", Reject, app::write_restart_objects(true)),
            h("g80v1-index4", Reject, vec![80, 1, 0x00, 4, 4, 0]),
            h("g1v2-write", Reject, vec![1, 2, 0x00, 0, 0, 0x01]),
            h("class0-in-write", Reject, app::hdr_all(60, 1)),
        ],
        fc::SELECT | fc::OPERATE | fc::DIRECT_OPERATE | fc::DIRECT_OPERATE_NR => vec![
            h("crob", Accept, crob()),
            h("g41v2", Accept, app::prefixed16(41, 2, &[(1, app::g41v2(10, 0))])),
            h("g1v2-in-control", Reject, vec![1, 2, 0x00, 0, 0, 0x01]),
            h("class0-in-control", Reject, app::hdr_all(60, 1)),
        ],
        fc::IMMED_FREEZE | fc::IMMED_FREEZE_NR | fc::FREEZE_CLEAR | fc::FREEZE_CLEAR_NR => vec![
            h("g20v0-all", Accept, app::hdr_all(20, 0)),
            h("g20v0-range", Accept, app::hdr_range8(20, 0, 0, 1)),
            h("g1v0-in-freeze", Reject, app::hdr_all(1, 0)),
            h("g30v0-in-freeze", Reject, app::hdr_all(30, 0)),
        ],
        fc::FREEZE_AT_TIME | fc::FREEZE_AT_TIME_NR => {
            let mut t = vec![50, 2, 0x07, 1];
            t.extend_from_slice(&app::time48(5000));
            t.extend_from_slice(&1000u32.to_le_bytes());
            let mut both = t.clone();
            both.extend(app::hdr_all(20, 0));
            let two = |q: u8| {
                let mut v = if q == 0x07 { vec![50, 2, 0x07, 2] } else { vec![50, 2, 0x08, 2, 0] };
                for k in 0..2u64 {
                    v.extend_from_slice(&app::time48(5000 + k));
                    v.extend_from_slice(&1000u32.to_le_bytes());
                }
                v
            };
            vec![
                h("two-g50v2-times-count8", Reject, two(0x07)),
                h("two-g50v2-times-count16", Reject, two(0x08)),
                h("g50v2+g20v0", Accept, both),
                h("g20v0-without-time", Reject, app::hdr_all(20, 0)),
                h("g1v0-in-freeze", Reject, app::hdr_all(1, 0)),
            ]
        }
        fc::ENABLE_UNSOLICITED | fc::DISABLE_UNSOLICITED => vec![
            h("class1", Accept, app::hdr_all(60, 2)),
            h("class23", Accept, app::class_headers(false, true, true, false)),
            h("class0-in-unsol", Reject, app::hdr_all(60, 1)),
            h("g1v0-in-unsol", Reject, app::hdr_all(1, 0)),
        ],
        fc::COLD_RESTART | fc::WARM_RESTART | fc::DELAY_MEASURE | fc::RECORD_CURRENT_TIME => vec![
            h("class0-not-allowed", Reject, app::hdr_all(60, 1)),
            h("g1v2-not-allowed", Reject, vec![1, 2, 0x00, 0, 0, 0x01]),
        ],
        _ => vec![h("class0", Accept, app::hdr_all(60, 1)), h("g1v2-data", Accept, vec![1, 2, 0x00, 0, 0, 0x01])],
    };
    m.push(unknown);
    m.push(truncated);
    m.push(bad_qual);
    m
}

fn expect(state: State, func: u8, ctrl: u8, hdrs: &[&Hdr]) -> Expect {
    let fir_fin = ctrl & 0xC0 == 0xC0;
    let uns = ctrl & app::UNS != 0;
    if func == fc::RESPONSE || func == fc::UNSOLICITED_RESPONSE {
        return Expect::Either;
    }
    if !fir_fin || (uns && func != fc::CONFIRM) {
        return Expect::MustError;
    }
    if func == fc::CONFIRM {
        return if hdrs.is_empty() { Expect::NoReply } else { Expect::Either };
    }
    let any_unparsable = hdrs.iter().any(|x| x.class == Class::Unparsable);
    // FREEZE_AT_TIME: a g20v0 header is acceptable once a g50v2 time header preceded it
    let mut time_seen = false;
    let mut any_reject = false;
    for x in hdrs {
        if x.label == "g20v0-without-time" && time_seen {
            continue;
        }
        if x.label.starts_with("g50v2") {
            time_seen = true;
        }
        if x.class == Class::Reject {
            any_reject = true;
        }
    }
    if no_response_function(func) {
        return if any_unparsable { Expect::Either } else { Expect::NoReply };
    }
    if !supported(func) {
        return Expect::MustError;
    }
    // with unsolicited reporting switched off by configuration, enabling / disabling it is not supported
    let unsol_configured = matches!(state, State::UnsolConfirmWait | State::NullUnsolConfirmWait);
    if matches!(func, fc::ENABLE_UNSOLICITED | fc::DISABLE_UNSOLICITED) && !unsol_configured {
        return Expect::MustError;
    }
    if any_unparsable || any_reject {
        return Expect::MustError;
    }
    Expect::Reply
}

pub struct C12 {
    name: String,
    cases: Vec<Case>,
}

fn build(tier: &str) -> Vec<C12> {
    let mut spaces = Vec::new();
    let states = [
        State::Idle,
        State::SolConfirmWait,
        State::SolConfirmWaitMid,
        State::UnsolConfirmWait,
        State::NullUnsolConfirmWait,
    ];
    let txs: &[usize] = if tier == "quick" { &[249] } else { &[249, 2048] };

    // (1) every function code × 16 flag combinations × seq {0, 15} × single-header menu
    let mut cases = Vec::new();
    for &tx in txs {
        for state in states {
            if state == State::SolConfirmWaitMid && tx != 249 {
                continue; // a class-0 response only spans two fragments with the small buffer
            }
            for func in 0..=255u8 {
                let m = menu(func);
                // unknown function codes all behave alike: full flag product only on a subset
                let known = func <= 30 || func == 129 || func == 130;
                let interesting_unknown = matches!(func, 31 | 32 | 33 | 70 | 127 | 128 | 131 | 255);
                for flags in 0..16u8 {
                    if tier == "quick" && !known && !interesting_unknown && !(flags == 0x0C || flags == 0x00) {
                        continue;
                    }
                    for seq in [0u8, 15u8] {
                        let ctrl = (flags << 4) | seq;
                        // empty object part
                        cases.push(Case {
                            state,
                            tx,
                            utx: tx,
                            max_read_headers: None,
                            max_controls: None,
                            refuse: None,
                            ctrl,
                            func,
                            objects: vec![],
                            labels: vec![],
                            expect: expect(state, func, ctrl, &[]),
                        });
                        // the menu only with the canonical flags (and with CON set), else first entry
                        let full_menu = tier != "quick" || flags == 0x0C || flags == 0x0E;
                        for (k, hd) in m.iter().enumerate() {
                            if !full_menu && k > 0 {
                                break;
                            }
                            if !known && k > 0 {
                                break;
                            }
                            cases.push(Case {
                                state,
                                tx,
                                utx: tx,
                                max_read_headers: None,
                                max_controls: None,
                                refuse: None,
                                ctrl,
                                func,
                                objects: hd.bytes.clone(),
                                labels: vec![hd.label],
                                expect: expect(state, func, ctrl, &[hd]),
                            });
                        }
                    }
                }
            }
        }
    }
    spaces.push(C12 { name: format!("single-header-{tier}"), cases });

    // (2) ordered pairs of headers for every function that takes objects
    let mut cases = Vec::new();
    for &tx in txs {
        for state in states {
            if state == State::SolConfirmWaitMid && tx != 249 {
                continue;
            }
            for func in 1..=30u8 {
                let m = menu(func);
                for a in &m {
                    for b in &m {
                        let mut objects = a.bytes.clone();
                        objects.extend_from_slice(&b.bytes);
                        // a truncated header can only be last
                        if a.label.starts_with("truncated") {
                            continue;
                        }
                        let ctrl = 0xC0 | 3;
                        cases.push(Case {
                            state,
                            tx,
                            utx: tx,
                            max_read_headers: None,
                            max_controls: None,
                            refuse: None,
                            ctrl,
                            func,
                            objects,
                            labels: vec![a.label, b.label],
                            expect: expect(state, func, ctrl, &[a, b]),
                        });
                    }
                }
            }
        }
    }
    spaces.push(C12 { name: format!("header-pairs-{tier}"), cases });

    // (3) request sizes up to the receive buffer: n CROBs / n read headers
    let mut cases = Vec::new();
    for (tx, utx) in [(249usize, 249usize), (2048, 2048), (249, 2048), (2048, 249)] {
        for state in [State::Idle] {
            for func in [fc::SELECT, fc::OPERATE, fc::DIRECT_OPERATE, fc::DIRECT_OPERATE_NR] {
                // request = 2 + 4 + 12 n ; echo = 4 + 4 + 12 n
                let mut ns: Vec<usize> = vec![1, 2];
                for target in [tx - 14, tx - 4, tx - 2, tx, tx + 2, tx + 10, 2048 - 6] {
                    let n = target.saturating_sub(6) / 12;
                    for d in [n.saturating_sub(1), n, n + 1] {
                        if d >= 1 && 6 + 12 * d <= 2048 && d <= 255 && !ns.contains(&d) {
                            ns.push(d);
                        }
                    }
                }
                for n in ns {
                    let items: Vec<(u8, Vec<u8>)> =
                        (0..n).map(|i| ((i % 5) as u8, app::crob(0x03, 1, 100, 200, 0))).collect();
                    let objects = app::prefixed8(12, 1, &items);
                    let ctrl = 0xC0 | 5;
                    let e = if func == fc::DIRECT_OPERATE_NR { Expect::NoReply } else { Expect::Reply };
                    cases.push(Case { state, tx, utx, max_read_headers: None, max_controls: None, refuse: None, ctrl, func, objects, labels: vec!["n-crobs"], expect: e });
                }
            }
            // READ with many headers
            for n in [1usize, 63, 64, 65, 200, 680] {
                let mut objects = Vec::new();
                for _ in 0..n {
                    objects.extend(app::hdr_all(60, 1));
                }
                let ctrl = 0xC0 | 6;
                let e = if n > 64 { Expect::MustError } else { Expect::Reply };
                cases.push(Case { state, tx, utx, max_read_headers: None, max_controls: None, refuse: None, ctrl, func: fc::READ, objects, labels: vec!["n-class0-headers"], expect: e });
            }
        }
    }
    // a configured limit of READ headers (never below the documented minimum of 64): at the
    // limit answered, one more rejected
    for configured in [1u16, 64, 65, 100] {
        let limit = configured.max(64) as usize;
        for n in [limit, limit + 1] {
            let mut objects = Vec::new();
            for _ in 0..n {
                objects.extend(app::hdr_all(1, 0));
            }
            let e = if n > limit { Expect::MustError } else { Expect::Reply };
            cases.push(Case { state: State::Idle, tx: 2048, utx: 2048, max_read_headers: Some(configured), max_controls: None, refuse: None, ctrl: 0xC0 | 7, func: fc::READ, objects, labels: vec!["configured-read-header-limit"], expect: e });
        }
    }
    spaces.push(C12 { name: format!("large-requests-{tier}"), cases });

    // (4) control requests of which the handler refuses some objects as NOT_SUPPORTED and the
    // configured limit refuses others: one to three headers from {accepted, refused} x {g12v1, g41v2},
    // limits {none, 1, 2, 3}. The reference walks the objects in order (beyond the limit:
    // TOO_MANY_OPS without asking the handler); a request whose first failing object was refused
    // as not supported is a rejected request and must be answered with an IIN2 error bit.
    let mut cases = Vec::new();
    let ctl_menu: Vec<(&'static str, Vec<u8>, bool)> = vec![
        ("crob-ok", app::prefixed8(12, 1, &[(3, app::crob(0x03, 1, 100, 200, 0))]), false),
        ("crob-refused", app::prefixed8(12, 1, &[(7, app::crob(0x03, 1, 100, 200, 0))]), true),
        ("g41v2-ok", app::prefixed16(41, 2, &[(1, app::g41v2(10, 0))]), false),
        ("g41v2-refused", app::prefixed16(41, 2, &[(7, app::g41v2(10, 0))]), true),
    ];
    for func in [fc::DIRECT_OPERATE, fc::SELECT, fc::DIRECT_OPERATE_NR] {
        for limit in [None, Some(1u16), Some(2), Some(3)] {
            for n in 1..=3usize {
                for code in 0..ctl_menu.len().pow(n as u32) {
                    let mut k = code;
                    let mut objects = Vec::new();
                    let mut labels = Vec::new();
                    let mut first_error: Option<bool> = None; // Some(true) = NOT_SUPPORTED first
                    for pos in 0..n {
                        let (label, bytes, refused) = &ctl_menu[k % ctl_menu.len()];
                        k /= ctl_menu.len();
                        objects.extend_from_slice(bytes);
                        labels.push(*label);
                        let over = limit.map(|l| pos + 1 > l as usize).unwrap_or(false);
                        if first_error.is_none() {
                            if over {
                                first_error = Some(false);
                            } else if *refused {
                                first_error = Some(true);
                            }
                        }
                    }
                    let e = if func == fc::DIRECT_OPERATE_NR {
                        Expect::NoReply
                    } else if first_error == Some(true) {
                        Expect::MustError
                    } else {
                        Expect::Reply
                    };
                    cases.push(Case {
                        state: State::Idle,
                        tx: 249,
                        utx: 249,
                        max_read_headers: None,
                        max_controls: limit,
                        refuse: Some(7),
                        ctrl: 0xC0 | 9,
                        func,
                        objects,
                        labels,
                        expect: e,
                    });
                }
            }
        }
    }
    spaces.push(C12 { name: format!("refused-controls-{tier}"), cases });
    spaces
}

impl C12 {
    fn run_case(&self, c: &Case, transcript: bool) -> RunResult {
        let mut res = RunResult::default();
        let mut obs = Hasher::default();
        let cfg = OCfg {
            sol_tx: c.tx,
            unsol_tx: c.utx,
            max_read_headers: c.max_read_headers,
            max_controls: c.max_controls,
            ctrl: c.refuse.map(crate::osim::CtrlMode::NotSupportedIndex).unwrap_or(crate::osim::CtrlMode::AllSuccess),
            unsolicited: matches!(c.state, State::UnsolConfirmWait | State::NullUnsolConfirmWait),
            event_buf: [10; 8],
            max_unsol_retries: Some(0),
            ..Default::default()
        };
        let mut sim = OSim::new(&cfg, 1);
        sim.db(|db| {
            common::add_binaries(db, 3, Some(EventClass::Class1));
            common::add_analogs(db, 60, Some(EventClass::Class2));
            common::add_counters(db, 2, None);
        });
        let mut all: Vec<app::Resp> = Vec::new();
        // reach the state
        match c.state {
            State::Idle => {}
            State::SolConfirmWait => {
                sim.db(|db| {
                    db.update(0, &common::binary(true, 1), UpdateOptions::detect_event());
                });
                sim.send(&app::request(7, fc::READ, &app::hdr_all(60, 2)));
            }
            State::SolConfirmWaitMid => {
                sim.send(&app::request(7, fc::READ, &app::hdr_all(60, 1)));
            }
            State::NullUnsolConfirmWait => {}
            State::UnsolConfirmWait => {
                common::null_unsol_handshake(&mut sim);
                sim.send(&app::request(7, fc::ENABLE_UNSOLICITED, &app::class_headers(true, true, true, false)));
                sim.db(|db| {
                    db.update(0, &common::binary(true, 1), UpdateOptions::detect_event());
                });
            }
        }
        let pre = collect(&mut sim, &mut res, &mut obs, &format!("reach {:?}", c.state), None, transcript);
        all.extend(pre.resps());
        let prefix_ok = match c.state {
            State::Idle => true,
            State::SolConfirmWait => pre.resps().last().map(|r| !r.uns() && r.con() && r.fin()).unwrap_or(false),
            State::SolConfirmWaitMid => pre.resps().last().map(|r| !r.uns() && r.con() && !r.fin()).unwrap_or(false),
            State::NullUnsolConfirmWait => pre.resps().last().map(|r| r.uns() && r.objects.is_empty()).unwrap_or(false),
            State::UnsolConfirmWait => pre.resps().last().map(|r| r.uns() && !r.objects.is_empty()).unwrap_or(false),
        };
        if !prefix_ok {
            res.violation = Some(Violation::new("C12.P0", "state-prefix-did-not-reach-state", format!("{:?}", c.state)));
            return res;
        }

        let frag = app::request_ctrl(c.ctrl, c.func, &c.objects);
        sim.send(&frag);
        let step = collect(
            &mut sim,
            &mut res,
            &mut obs,
            &format!("request fc={} ctrl={:02X} {:?} expect {:?}", c.func, c.ctrl, c.labels, c.expect),
            Some(&frag),
            transcript,
        );
        let mut after: Vec<app::Resp> = step.resps();
        if matches!(c.state, State::UnsolConfirmWait | State::NullUnsolConfirmWait) {
            // a READ is deferred until the unsolicited series ends: confirm it
            let useq = pre.resps().iter().filter(|r| r.uns()).last().map(|r| r.seq()).unwrap_or(0);
            sim.send(&app::confirm(useq, true));
            let s2 = collect(&mut sim, &mut res, &mut obs, "unsolicited confirm", None, transcript);
            after.extend(s2.resps());
        }
        all.extend(after.iter().cloned());
        if let Some(f) = sim.failure() {
            res.violation = Some(Violation::new("C12.X0", f.clone(), f));
            res.obs = obs.0;
            return res;
        }

        let seq = c.ctrl & 0x0F;
        let sol: Vec<&app::Resp> = after.iter().filter(|r| !r.uns()).collect();
        let v = (|| -> Option<Violation> {
            // W: every fragment fits the transmit size and parses cleanly
            for r in &all {
                let limit = if r.uns() { c.utx } else { c.tx };
                if r.raw.len() > limit {
                    return Some(Violation::new("C12.W1", "fragment-exceeds-transmit-size", format!("{} > {} ({})", r.raw.len(), limit, if r.uns() { "unsolicited" } else { "solicited" })));
                }
                if let Err(e) = r.headers() {
                    return Some(Violation::new(
                        "C12.W2",
                        format!("fragment-does-not-parse:{e:?}"),
                        app::hex(&r.raw[..r.raw.len().min(64)]),
                    ));
                }
                match r.func {
                    fc::RESPONSE => {
                        if r.uns() {
                            return Some(Violation::new("C12.S2", "solicited-response-with-uns-bit", app::hex(&r.raw[..4])));
                        }
                    }
                    fc::UNSOLICITED_RESPONSE => {
                        if !(r.uns() && r.fir() && r.fin() && r.con()) {
                            return Some(Violation::new("C12.U1", "unsolicited-response-flags", app::hex(&r.raw[..4])));
                        }
                    }
                    other => {
                        return Some(Violation::new("C12.W3", format!("response-function-{other}"), app::hex(&r.raw[..4])));
                    }
                }
            }
            // U2: unsolicited numbering is consecutive (identical retries exempt)
            let uns: Vec<&app::Resp> = all.iter().filter(|r| r.uns()).collect();
            for w in uns.windows(2) {
                if w[0].raw == w[1].raw {
                    continue;
                }
                if (w[0].seq() + 1) & 0x0F != w[1].seq() {
                    return Some(Violation::new(
                        "C12.U2",
                        "unsolicited-numbering-not-consecutive",
                        format!("{} then {}", w[0].seq(), w[1].seq()),
                    ));
                }
            }
            match c.expect {
                Expect::NoReply => {
                    if !sol.is_empty() {
                        return Some(Violation::new(
                            "C12.N1",
                            format!("reply-to-no-reply-request:fc{}", c.func),
                            app::hex(&sol[0].raw[..sol[0].raw.len().min(16)]),
                        ));
                    }
                }
                Expect::Reply | Expect::MustError => {
                    if sol.is_empty() {
                        return Some(Violation::new(
                            "C12.S0",
                            format!("silence:fc{}:{:?}:{}", c.func, c.state, c.labels.join("+")),
                            format!("no solicited response to fc={} ctrl={:02X}", c.func, c.ctrl),
                        ));
                    }
                    let first = sol[0];
                    if first.seq() != seq || !first.fir() {
                        return Some(Violation::new(
                            "C12.S1",
                            "response-sequence-differs-from-request",
                            format!("request seq {} response {}", seq, app::hex(&first.raw[..4])),
                        ));
                    }
                    if c.expect == Expect::Reply && c.labels.contains(&"configured-read-header-limit") && first.iin2 & app::iin2::ERROR_MASK != 0 {
                        return Some(Violation::new(
                            "C12.R2",
                            "request-within-the-configured-limit-rejected",
                            format!("IIN2={:02X} for a READ with {} headers, limit {:?}", first.iin2, c.objects.len() / 3, c.max_read_headers),
                        ));
                    }
                    if c.expect == Expect::MustError && first.iin2 & app::iin2::ERROR_MASK == 0 {
                        return Some(Violation::new(
                            "C12.R1",
                            format!("clean-response-to-rejected-request:fc{}:{}", c.func, c.labels.join("+")),
                            format!("IIN2={:02X} for fc={} ctrl={:02X} headers {:?}", first.iin2, c.func, c.ctrl, c.labels),
                        ));
                    }
                }
                Expect::Either => {
                    for r in &sol {
                        if r.fir() && r.seq() != seq {
                            return Some(Violation::new(
                                "C12.S1",
                                "response-sequence-differs-from-request",
                                format!("request seq {} response {}", seq, app::hex(&r.raw[..4])),
                            ));
                        }
                    }
                }
            }
            None
        })();
        res.violation = v;
        let mut hs = Hasher::default();
        hs.add_u64(c.state as u64);
        hs.add_u64(c.expect as u64);
        hs.add_u64(sol.len().min(3) as u64);
        hs.add_u64(sol.first().map(|r| r.iin2 as u64).unwrap_or(0xFFFF));
        res.model_states.push(hs.0);
        res.obs = obs.0;
        res.nontrivial = !after.is_empty() || c.expect == Expect::NoReply;
        res
    }
}

impl CaseSpace for C12 {
    fn name(&self) -> String {
        self.name.clone()
    }
    fn seeded(&self) -> bool {
        true
    }
    fn total(&self) -> usize {
        self.cases.len()
    }
    fn run(&self, index: usize, transcript: bool) -> RunResult {
        self.run_case(&self.cases[index], transcript)
    }
}

// ---------------------------------------------------------------------------------------
// correlation across a solicited series
// ---------------------------------------------------------------------------------------

/// a READ answered in several fragments, each confirmed: fragment k carries the request's
/// sequence number + k (modulo 16) and is the one whose confirm is awaited
struct SeriesNumbers;

impl crate::explore::CaseSpace for SeriesNumbers {
    fn name(&self) -> String {
        "solicited-series-numbering".into()
    }
    fn total(&self) -> usize {
        16 * 2
    }
    fn run(&self, index: usize, transcript: bool) -> RunResult {
        let mut res = RunResult::default();
        let seq0 = (index % 16) as u8;
        let tx = [249usize, 300][index / 16];
        res.obs = index as u64 + 121212;
        let cfg = OCfg { sol_tx: tx, unsol_tx: tx, event_buf: [10; 8], ..Default::default() };
        let mut sim = OSim::new(&cfg, 1);
        sim.db(|db| {
            common::add_analogs(db, 150, None);
        });
        sim.take_out();
        sim.send(&app::request(seq0, fc::READ, &app::hdr_all(60, 1)));
        let mut k = 0u8;
        let mut done = false;
        for _ in 0..12 {
            let rs: Vec<app::Resp> = sim.take_out().iter().filter_map(|t| t.frag()).filter_map(app::Resp::parse).collect();
            if rs.is_empty() {
                break;
            }
            for r in rs {
                res.transitions += 1;
                if transcript {
                    res.transcript.push(format!("<- {} ({} octets)", app::hex(&r.raw[..4]), r.raw.len()));
                }
                let want = (seq0 + k) & 0x0F;
                if r.uns() || r.seq() != want || r.fir() != (k == 0) || r.raw.len() > tx {
                    res.violation = Some(Violation::new(
                        "C12.S3",
                        "series-fragment-not-correlated-with-its-request",
                        format!("READ with sequence {seq0}, transmit size {tx}: fragment {} is {} ({} octets), expected sequence {want} FIR={}", k + 1, app::hex(&r.raw[..4]), r.raw.len(), k == 0),
                    ));
                    return res;
                }
                k += 1;
                if r.fin() {
                    done = true;
                } else if !r.con() {
                    res.violation = Some(Violation::new("C12.S3", "non-final-fragment-without-confirm-request", app::hex(&r.raw[..4])));
                    return res;
                } else {
                    sim.send(&app::confirm(want, false));
                }
            }
            if done {
                break;
            }
        }
        if let Some(f) = sim.failure() {
            res.violation = Some(Violation::new("C12.X0", f.clone(), f));
            return res;
        }
        if !done || k < 3 {
            res.violation = Some(Violation::new("C12.S3", "series-incomplete", format!("READ with sequence {seq0}: {k} fragments, final seen: {done}")));
            return res;
        }
        res.nontrivial = true;
        res.model_states.push(k as u64);
        res
    }
}

pub fn replay(space: &str, path: &[usize]) -> Option<RunResult> {
    for tier in ["quick", "thorough"] {
        for s in build(tier) {
            if s.name == space {
                return Some(s.run(path[0], true));
            }
        }
    }
    {
        use crate::explore::CaseSpace;
        if SeriesNumbers.name() == space {
            return Some(SeriesNumbers.run(path[0], true));
        }
    }
    None
}

pub fn check(tier: &str) -> i32 {
    let mut c = Check::new("C12", tier);
    for s in build(tier) {
        c.cases(&s);
    }
    c.cases(&SeriesNumbers);
    c.finish(
        "model_checking",
        "finite product: session state {idle, solicited confirm wait, unsolicited confirm wait} x function code 0..=255 x 16 header-flag combinations x sequence {0,15} x per-function object menu (accepted / rejected / unparsable headers; all ordered pairs for functions 1..=30) plus requests sized around the transmit and receive limits, a configured READ header limit, and a multi-fragment READ series from each of the 16 sequence numbers (fragment k carries sequence + k); each case drives the real OutstationTask into the state, delivers the request and pairs it with every fragment transmitted afterwards; non-trivial = a response was produced or silence was the required outcome; distinct = distinct observation trace",
        &[
            "fragments shorter than 2 bytes and fragments carrying a response function code are not treated as requests (no reply is demanded for them)",
            "handler-reported command statuses are not counted as rejected headers (they are reported in the echoed objects)",
            "a malformed request with a no-response function code may or may not be answered",
        ],
        serde_json::json!({}),
    )
}
