pub mod c03;
pub mod c04;
pub mod c05;
pub mod c11;
pub mod c12;
pub mod c13;
pub mod c14;
pub mod common;
