pub mod c04;
